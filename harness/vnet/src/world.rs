//! Multi-device world over the loopback transport: one account, N devices
//! (copies of the same data directory, as the repo's tests simulate
//! devices), one server; per-device logical clocks (hook H1).
use crate::loopback::{Bridge, LoopbackClient, Server};
use crate::sched::{Scheduler, BOUND_PANIC};
use futures::{pin_mut, StreamExt};
use secrecy::SecretString;
use sos_account::{Account, LocalAccount};
use sos_backend::BackendTarget;
use sos_core::{
    commit::CommitHash,
    events::{EventLog, EventLogType},
    AccountId, VaultId,
};
use sos_remote_sync::AutoMerge;
use sos_sync::{MergeOutcome, StorageEventLogs, SyncStatus, SyncStorage};
use std::collections::BTreeMap;
use std::path::{Path, PathBuf};
use std::sync::Arc;
use tokio::sync::Mutex;
use vmodel::setup::{self, Backend, Config, Pristine};
pub use vmodel::logs::{all_logs, LogId, Rec};

pub const MS: i128 = 1_000_000;

pub struct Device {
    pub ix: usize,
    pub dir: PathBuf,
    pub account: Arc<Mutex<LocalAccount>>,
    pub target: BackendTarget,
    pub bridge: Bridge,
    /// this device's logical "now" (unix ns); advanced by every clock read
    pub now_ns: i128,
    pub step_ns: i128,
}

pub struct World {
    pub dir: PathBuf,
    pub server: Arc<Server>,
    pub sched: Arc<Scheduler>,
    pub devices: Vec<Device>,
    pub account_id: AccountId,
    pub password: SecretString,
    pub backend: Backend,
}

#[derive(Debug)]
pub enum SyncResult {
    Ok(Option<MergeOutcome>),
    Err(String),
    /// the sync call issued more requests than the logical bound
    RequestBound,
    Panicked(String),
}

impl SyncResult {
    pub fn class(&self) -> &'static str {
        match self {
            SyncResult::Ok(_) => "ok",
            SyncResult::Err(_) => "err",
            SyncResult::RequestBound => "request_bound",
            SyncResult::Panicked(_) => "panic",
        }
    }
}

impl World {
    /// Create the account on device 0, push it to the server, then copy the
    /// data directory for every other device and open them all.
    pub async fn new(dir: &Path, n_devices: usize, backend: Backend, server_db: bool, rng: &mut vkit::Rng, sched: Arc<Scheduler>) -> anyhow::Result<World> {
        let _ = std::fs::remove_dir_all(dir);
        std::fs::create_dir_all(dir)?;
        let config = Config { backend, cipher: Default::default(), kdf: Default::default() };
        let pristine = setup::create_pristine(&dir.join("pristine"), &config, rng).await?;
        Self::from_pristine(dir, &pristine, n_devices, server_db, sched).await
    }

    pub async fn from_pristine(dir: &Path, pristine: &Pristine, n_devices: usize, server_db: bool, sched: Arc<Scheduler>) -> anyhow::Result<World> {
        std::fs::create_dir_all(dir)?;
        let server = Server::new(&dir.join("server"), server_db).await?;
        let mut devices = vec![];
        for ix in 0..n_devices {
            let ddir = dir.join(format!("device{ix}"));
            let opened = setup::instantiate(pristine, &ddir).await?;
            let account = Arc::new(Mutex::new(opened.account));
            let client = LoopbackClient::new(server.clone(), pristine.account_id, ix, sched.clone());
            let bridge = Bridge::new(account.clone(), client);
            devices.push(Device { ix, dir: ddir, account, target: opened.target, bridge, now_ns: 1_900_000_000i128 * 1_000_000_000, step_ns: MS });
        }
        let mut w = World { dir: dir.to_path_buf(), server, sched, devices, account_id: pristine.account_id, password: pristine.password.clone(), backend: pristine.config.backend };
        // first sync of device 0 creates the account on the server
        match w.sync(0).await {
            SyncResult::Ok(_) => {}
            other => anyhow::bail!("initial sync failed: {other:?}"),
        }
        Ok(w)
    }

    /// Run `f` with the logical clock of device `d`.
    pub fn clock_in(&mut self, d: usize) {
        let dev = &self.devices[d];
        sos_core::verif::clock_set(dev.now_ns, dev.step_ns);
    }
    pub fn clock_out(&mut self, d: usize) {
        if let Some(now) = sos_core::verif::clock_peek() {
            self.devices[d].now_ns = now;
        }
        sos_core::verif::clock_clear();
    }

    /// One `execute_sync` of device `d` through the repo's own code.
    pub async fn sync(&mut self, d: usize) -> SyncResult {
        self.clock_in(d);
        self.sched.reset_device(d);
        let bridge = self.devices[d].bridge.clone();
        let h = tokio::spawn(async move { bridge.execute_sync(&Default::default()).await });
        let r = match h.await {
            Ok(Ok(o)) => SyncResult::Ok(o),
            Ok(Err(e)) => SyncResult::Err(format!("{e}")),
            Err(je) => {
                if je.is_panic() {
                    let p = je.into_panic();
                    let msg = p.downcast_ref::<String>().cloned().or_else(|| p.downcast_ref::<&str>().map(|s| s.to_string())).unwrap_or_default();
                    if msg.contains(BOUND_PANIC) {
                        SyncResult::RequestBound
                    } else {
                        SyncResult::Panicked(msg)
                    }
                } else {
                    SyncResult::Err("sync task cancelled".into())
                }
            }
        };
        self.clock_out(d);
        r
    }

    pub async fn device_status(&self, d: usize) -> Result<SyncStatus, String> {
        let a = self.devices[d].account.lock().await;
        a.sync_status().await.map_err(|e| format!("{e}"))
    }

    pub async fn server_status(&self) -> Result<SyncStatus, String> {
        let acc = self.server.account(&self.account_id).await.ok_or("no server account")?;
        let r = acc.read().await;
        r.sync_status().await.map_err(|e| format!("{e}"))
    }

    pub async fn device_logs(&self, d: usize) -> Result<BTreeMap<LogId, Vec<Rec>>, String> {
        let a = self.devices[d].account.lock().await;
        all_logs(&*a).await
    }

    pub async fn server_logs(&self) -> Result<BTreeMap<LogId, Vec<Rec>>, String> {
        let acc = self.server.account(&self.account_id).await.ok_or("no server account")?;
        let r = acc.read().await;
        all_logs(&*r).await
    }

    pub async fn close(self) {
        for d in self.devices {
            {
                let mut a = d.account.lock().await;
                let _ = a.sign_out().await;
            }
            setup::close_target(d.target).await;
        }
        let target = self.server.target.clone();
        setup::close_target(target).await;
        let _ = std::fs::remove_dir_all(&self.dir);
    }
}

/// Differences between two sync statuses, per log.
pub fn status_diff(a: &SyncStatus, b: &SyncStatus) -> Vec<String> {
    let mut out = vec![];
    if a.identity != b.identity {
        out.push("identity".to_string());
    }
    if a.account != b.account {
        out.push("account".to_string());
    }
    if a.device != b.device {
        out.push("device".to_string());
    }
    if a.files != b.files {
        out.push("files".to_string());
    }
    for (id, s) in &a.folders {
        match b.folders.get(id) {
            Some(t) if t == s => {}
            Some(_) => out.push(format!("folder:{id}")),
            None => out.push(format!("folder_missing_on_other:{id}")),
        }
    }
    for id in b.folders.keys() {
        if !a.folders.contains_key(id) {
            out.push(format!("folder_missing_on_this:{id}"));
        }
    }
    if out.is_empty() && a.root != b.root {
        out.push("root".to_string());
    }
    out
}
