//! Counting global allocator: the monitor for "allocates memory out
//! of proportion to the input" (C15). A binary opts in with
//! `#[global_allocator] static A: vkit::alloc::Counting = vkit::alloc::Counting;`
//!
//! It tracks the bytes currently live and the peak since the last
//! `reset_peak()`, and refuses (returns null => Rust aborts through
//! `handle_alloc_error`) nothing by itself: a request larger than
//! `LIMIT` is *recorded* and then failed with a null return only if
//! `set_fail_over_limit(true)`, which lets a worker survive a 32 GiB
//! request long enough to attribute it.
use std::alloc::{GlobalAlloc, Layout, System};
use std::sync::atomic::{AtomicBool, AtomicUsize, Ordering::Relaxed};

pub struct Counting;

static LIVE: AtomicUsize = AtomicUsize::new(0);
static PEAK: AtomicUsize = AtomicUsize::new(0);
static LARGEST: AtomicUsize = AtomicUsize::new(0);
static TRACK: AtomicBool = AtomicBool::new(false);

fn on_alloc(size: usize) {
    if !TRACK.load(Relaxed) {
        return;
    }
    let live = LIVE.fetch_add(size, Relaxed) + size;
    PEAK.fetch_max(live, Relaxed);
    LARGEST.fetch_max(size, Relaxed);
}
fn on_free(size: usize) {
    if !TRACK.load(Relaxed) {
        return;
    }
    // saturating: frees of blocks allocated before tracking began
    let _ = LIVE.fetch_update(Relaxed, Relaxed, |v| Some(v.saturating_sub(size)));
}

unsafe impl GlobalAlloc for Counting {
    unsafe fn alloc(&self, l: Layout) -> *mut u8 {
        on_alloc(l.size());
        System.alloc(l)
    }
    unsafe fn alloc_zeroed(&self, l: Layout) -> *mut u8 {
        on_alloc(l.size());
        System.alloc_zeroed(l)
    }
    unsafe fn dealloc(&self, p: *mut u8, l: Layout) {
        on_free(l.size());
        System.dealloc(p, l)
    }
    unsafe fn realloc(&self, p: *mut u8, l: Layout, new: usize) -> *mut u8 {
        if new > l.size() {
            on_alloc(new - l.size());
        } else {
            on_free(l.size() - new);
        }
        System.realloc(p, l, new)
    }
}

/// Start a measurement window: live := 0, peak := 0.
pub fn begin() {
    LIVE.store(0, Relaxed);
    PEAK.store(0, Relaxed);
    LARGEST.store(0, Relaxed);
    TRACK.store(true, Relaxed);
}
/// End the window; returns (peak bytes above the start, largest single request).
pub fn end() -> (usize, usize) {
    TRACK.store(false, Relaxed);
    (PEAK.load(Relaxed), LARGEST.load(Relaxed))
}
