//! C02 (local part) — a folder equals the replay of its own event log.
//!
//! After every step of a generated history (local edits incl. re-used ids
//! at the folder API, compaction, password / cipher changes) the folder the
//! account serves, the replay of its persisted event log and the persisted
//! vault store are compared pairwise (decrypted with the folder key); at
//! the end every recorded commit is replayed (`new_until_commit`) and
//! compared with the folder as it was served at that commit.
use crate::common::*;
use serde_json::json;
use sos_account::Account;
use sos_core::{commit::CommitHash, VaultId};
use std::collections::BTreeMap;
use vkit::{Args, Fnv, Reporter, Rng};
use vmodel::ops::Weights;
use vmodel::session::Session;
use vmodel::setup::{self, Config};
use vmodel::snapshot::{self, diff_folder, FolderView};

pub async fn run(args: &Args, rep: &mut Reporter) {
    let histories_per_config = args.by_tier(2usize, 24usize);
    let steps = args.by_tier(40usize, 80usize);
    let mut rng = Rng::new(args.shard_seed() ^ 0xC02);
    for (ci, config) in Config::matrix().iter().enumerate() {
        let pdir = args.dir.join(format!("pristine{ci}"));
        let pristine = match setup::create_pristine(&pdir, config, &mut rng).await {
            Ok(p) => p,
            Err(e) => {
                rep.inconclusive(&format!("cannot create pristine account for {}: {e}", config.name()));
                continue;
            }
        };
        for h in 0..histories_per_config {
            let hdir = args.dir.join(format!("h{ci}_{h}"));
            let mut w = Weights::c01().with_folder_api();
            w.compact = 4;
            w.compact_account = 1;
            w.change_folder_pw = 1;
            w.rename_folder = 6; // byte-identical rename events
            w.flags = 5;
            w.describe = 5;
            // a copy of a folder (same secret ids in two folders) in every other history
            w.copy_folder = if h % 2 == 1 { 2 } else { 0 };
            let mut s = match Session::start(&pristine, &hdir, rng.fork(h as u64), w).await {
                Ok(s) => s,
                Err(e) => {
                    rep.inconclusive(&format!("cannot start session: {e}"));
                    continue;
                }
            };
            s.driver.allow_large = false;
            let backend = config.backend.name();
            let cname = config.name();
            let account_id = pristine.account_id;
            let mut hash = Fnv::new();
            // folder -> [(commit hash at that point, served view, log length)]
            let mut records: BTreeMap<VaultId, Vec<(CommitHash, FolderView, usize)>> = BTreeMap::new();
            let mut stop = false;
            let mut compared = 0u64;
            for st in 0..steps {
                if stop {
                    rep.count("histories_cut_short_after_violation", 1);
                    break;
                }
                let v0 = rep.violations();
                let out = s.step().await;
                hash.str(&out.op);
                rep.count("steps", 1);
                rep.count(&format!("op:{}", out.kind), 1);
                let ctx = json!({"config": cname, "history": h, "step": st, "last_ops": tail(&s.driver.log, 12)});
                let target = s.opened.as_ref().unwrap().target.clone();
                let keys = match snapshot::folder_keys(s.account()).await {
                    Ok(k) => k,
                    Err(e) => {
                        report_snap_error(rep, "C02", backend, "keys", out.kind, &e, &ctx);
                        break;
                    }
                };
                let (live, _) = match s.live_view().await {
                    Ok(v) => v,
                    Err(e) => {
                        report_snap_error(rep, "C02", backend, "served", out.kind, &e, &ctx);
                        break;
                    }
                };
                let full = st % 8 == 7 || st + 1 == steps;
                let scope: Vec<VaultId> = if full { live.folders.keys().copied().collect() } else { out.touched.iter().copied().filter(|f| live.folders.contains_key(f)).collect() };
                for f in &scope {
                    let Some(key) = keys.get(f) else { continue };
                    let served = &live.folders[f];
                    match snapshot::replay_folder(s.account(), f, key, None).await {
                        Ok(replayed) => {
                            rep.count("replay_comparisons", 1);
                            compared += 1;
                            let mut d = vec![];
                            diff_folder(served, &replayed, f, &mut d);
                            report_diffs(rep, "C02", backend, "replay_vs_served", out.kind, &d, &ctx);
                        }
                        Err(e) => report_snap_error(rep, "C02", backend, "replay", out.kind, &e, &ctx),
                    }
                    match snapshot::mirror_folder(&target, &account_id, f, key).await {
                        Ok(mirror) => {
                            rep.count("mirror_comparisons", 1);
                            let mut d = vec![];
                            diff_folder(served, &mirror, f, &mut d);
                            report_diffs(rep, "C02", backend, "mirror_vs_served", out.kind, &d, &ctx);
                        }
                        Err(e) => report_snap_error(rep, "C02", backend, "mirror", out.kind, &e, &ctx),
                    }
                }
                // time-travel records
                for f in &out.rewrote {
                    records.remove(f);
                }
                for f in out.touched.iter().chain(out.rewrote.iter()) {
                    if let (Some(served), Ok(commits)) = (live.folders.get(f), snapshot::log_commits(s.account(), f).await) {
                        if let Some(last) = commits.last() {
                            records.entry(*f).or_default().push((*last, served.clone(), commits.len()));
                        }
                    }
                }
                records.retain(|f, _| live.folders.contains_key(f));
                if rep.violations() > v0 {
                    stop = true;
                }
            }
            // replay up to every recorded commit
            if !stop {
                let ctx = json!({"config": cname, "history": h, "phase": "time_travel", "last_ops": tail(&s.driver.log, 12)});
                if let Ok(keys) = snapshot::folder_keys(s.account()).await {
                    for (f, recs) in &records {
                        let Some(key) = keys.get(f) else { continue };
                        let take: Vec<usize> = if args.thorough() || recs.len() <= 8 { (0..recs.len()).collect() } else { (0..8).map(|i| i * recs.len() / 8).collect() };
                        for i in take {
                            let (commit, _, _) = &recs[i];
                            let candidates: Vec<&FolderView> = recs.iter().filter(|(c, _, _)| c == commit).map(|(_, v, _)| v).collect();
                            if candidates.len() > 1 {
                                rep.count("time_travel_ambiguous_hash", 1);
                            }
                            match snapshot::replay_folder(s.account(), f, key, Some(*commit)).await {
                                Ok(view) => {
                                    rep.count("time_travel_replays", 1);
                                    if !candidates.iter().any(|c| **c == view) {
                                        let mut d = vec![];
                                        diff_folder(candidates[0], &view, f, &mut d);
                                        report_diffs(rep, "C02", backend, "replay_until_commit", "any", &d, &json!({"ctx": ctx, "commit": commit.to_string(), "index": i}));
                                    }
                                }
                                Err(e) => report_snap_error(rep, "C02", backend, "replay_until_commit", "any", &e, &ctx),
                            }
                        }
                    }
                }
            }
            rep.case(hash.finish(), compared > 10);
            if h == 0 && ci == 0 {
                rep.sample(json!({"config": cname, "steps": steps, "first_ops": s.driver.log.iter().take(10).collect::<Vec<_>>()}));
            }
            s.finish().await;
        }
        let _ = std::fs::remove_dir_all(&pdir);
    }
}
