//! vcore: log/codec/crypto level monitors (C06 C07 C08 C10 C14 C15).
mod c08;
mod c10;
mod c14;
mod c15;
mod gen;
mod logs;

#[global_allocator]
static ALLOC: vkit::alloc::Counting = vkit::alloc::Counting;

fn main() {
    let args = vkit::Args::parse();
    let mut rep = vkit::Reporter::new(&prop_of(&args.check), args.out.clone());
    match args.check.as_str() {
        "c08" => c08::run(&args, &mut rep),
        "c10" => c10::run(&args, &mut rep),
        "c06" => logs::run(&args, &mut rep, "C06"),
        "c07" => logs::run(&args, &mut rep, "C07"),
        "c14" => c14::run(&args, &mut rep),
        "c15" => c15::run(&args, &mut rep),
        other => {
            eprintln!("vcore: unknown check {}", other);
            std::process::exit(2);
        }
    }
    rep.finish();
}

fn prop_of(check: &str) -> String {
    check[..3.min(check.len())].to_uppercase()
}
