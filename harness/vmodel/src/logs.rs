//! Reading every event log of a storage (client account or server
//! account) into comparable records.
use futures::{pin_mut, StreamExt};
use sos_core::{
    events::{EventLog, EventLogType},
    VaultId,
};
use sos_sync::StorageEventLogs;
use std::collections::BTreeMap;

#[derive(Clone, Debug, PartialEq, Eq)]
pub struct Rec {
    pub commit: [u8; 32],
    pub time_ns: i128,
    pub len: usize,
}

/// Identifier of a log inside an account.
#[derive(Clone, Copy, Debug, PartialEq, Eq, PartialOrd, Ord)]
pub enum LogId {
    Identity,
    Account,
    Device,
    Files,
    Folder(VaultId),
}
impl LogId {
    pub fn class(&self) -> &'static str {
        match self {
            LogId::Identity => "identity",
            LogId::Account => "account",
            LogId::Device => "device",
            LogId::Files => "files",
            LogId::Folder(_) => "folder",
        }
    }
    pub fn log_type(&self) -> EventLogType {
        match self {
            LogId::Identity => EventLogType::Identity,
            LogId::Account => EventLogType::Account,
            LogId::Device => EventLogType::Device,
            LogId::Files => EventLogType::Files,
            LogId::Folder(id) => EventLogType::Folder(*id),
        }
    }
}

async fn records_of<T, L>(log: &L) -> Result<Vec<Rec>, String>
where
    T: Default + binary_stream::futures::Encodable + binary_stream::futures::Decodable + Send + Sync + 'static,
    L: EventLog<T>,
{
    let stream = log.record_stream(false).await;
    pin_mut!(stream);
    let mut out = vec![];
    while let Some(r) = stream.next().await {
        let r = r.map_err(|e| format!("{e}"))?;
        out.push(Rec { commit: r.commit().0, time_ns: time::OffsetDateTime::from(r.time().clone()).unix_timestamp_nanos(), len: r.event_bytes().len() });
    }
    Ok(out)
}

/// All logs of a storage (client account or server account) with their records.
pub async fn all_logs<S: StorageEventLogs>(storage: &S) -> Result<BTreeMap<LogId, Vec<Rec>>, String> {
    let mut out = BTreeMap::new();
    {
        let l = storage.identity_log().await.map_err(|e| format!("identity_log: {e}"))?;
        let l = l.read().await;
        out.insert(LogId::Identity, records_of(&*l).await?);
    }
    {
        let l = storage.account_log().await.map_err(|e| format!("account_log: {e}"))?;
        let l = l.read().await;
        out.insert(LogId::Account, records_of(&*l).await?);
    }
    {
        let l = storage.device_log().await.map_err(|e| format!("device_log: {e}"))?;
        let l = l.read().await;
        out.insert(LogId::Device, records_of(&*l).await?);
    }
    {
        let l = storage.file_log().await.map_err(|e| format!("file_log: {e}"))?;
        let l = l.read().await;
        out.insert(LogId::Files, records_of(&*l).await?);
    }
    let folders = storage.folder_details().await.map_err(|e| format!("folder_details: {e}"))?;
    for s in folders {
        let l = storage.folder_log(s.id()).await.map_err(|e| format!("folder_log: {e}"))?;
        let l = l.read().await;
        out.insert(LogId::Folder(*s.id()), records_of(&*l).await?);
    }
    Ok(out)
}

