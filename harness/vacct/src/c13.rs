//! C13 — a crash at any point leaves an account that opens and is consistent.
//!
//! Crash runner. The parent prepares S0 (a copied account after a generated
//! history). For each mutating operation it (1) runs the operation once
//! un-armed in a child process on a copy to learn the ordered list of probe
//! hits (hook H2) and the post state S1; (2) for each hit re-copies S0 and
//! runs the child armed at that hit: the probe calls `std::process::abort`,
//! a faithful process death (no destructors, no later writes); (3) examines
//! the abandoned directory with brand-new objects. Torn appends need no
//! hook: for each log file that grew from S0 to S1 the parent writes
//! S1 with that log cut at `len(S0) + k` for sampled k.
//!
//! Oracle on the abandoned directory: (1) open + sign_in succeeds; (2) every
//! event log's record stream equals S0's or S1's (never partial, reordered,
//! emptied); (3) for every folder the served folder == replay of its log
//! (C02); (4) in-memory tree leaves == stored records (C06 reload).
use crate::common::*;
use serde_json::{json, Value};
use sos_account::Account;
use sos_client_storage::{AccessOptions, NewFolderOptions};
use sos_core::{AccountId, SecretId, VaultFlags, VaultId};
use std::collections::{BTreeMap, BTreeSet};
use std::path::{Path, PathBuf};
use std::process::Command;
use vkit::{Args, Fnv, Reporter, Rng};
use vmodel::logs::{all_logs, LogId, Rec};
use vmodel::ops::Weights;
use vmodel::secgen::{Gen, KINDS};
use vmodel::session::Session;
use vmodel::setup::{self, Backend, Config};
use vmodel::snapshot::{self, diff_folder};

const OPS: [&str; 15] = [
    "create", "update", "delete", "move", "rename", "flags", "describe", "create_folder", "delete_folder", "compact", "change_folder_pw", "file_create", "archive", "merge", "force_merge",
];

/// Records of a folder log in a form that travels in the child's spec.
pub(crate) async fn folder_records_json(a: &sos_account::LocalAccount, f: &VaultId) -> Result<Vec<Value>, String> {
    use futures::StreamExt;
    use sos_core::events::EventLog;
    use sos_sync::StorageEventLogs;
    let log = a.folder_log(f).await.map_err(|e| e.to_string())?;
    let log = log.read().await;
    let stream = log.record_stream(false).await;
    futures::pin_mut!(stream);
    let mut out = vec![];
    while let Some(r) = stream.next().await {
        let r = r.map_err(|e| e.to_string())?;
        out.push(json!({"t": time::OffsetDateTime::from(r.time().clone()).unix_timestamp_nanos().to_string(), "c": hex::encode(r.commit().0), "b": hex::encode(r.event_bytes())}));
    }
    Ok(out)
}

pub(crate) fn records_from_json(v: &Value) -> Vec<sos_core::events::EventRecord> {
    v.as_array()
        .map(|a| {
            a.iter()
                .filter_map(|r| {
                    let t: i128 = r["t"].as_str()?.parse().ok()?;
                    let c: [u8; 32] = hex::decode(r["c"].as_str()?).ok()?.try_into().ok()?;
                    let b = hex::decode(r["b"].as_str()?).ok()?;
                    Some(sos_core::events::EventRecord::new(sos_core::UtcDateTime::from(time::OffsetDateTime::from_unix_timestamp_nanos(t).ok()?), Default::default(), sos_core::commit::CommitHash(c), b))
                })
                .collect()
        })
        .unwrap_or_default()
}

pub(crate) fn head_proof_of(commits: &[[u8; 32]]) -> Option<sos_core::commit::CommitProof> {
    let mut t = sos_core::commit::CommitTree::new();
    let mut l = commits.to_vec();
    t.append(&mut l);
    t.commit();
    t.head().ok()
}

fn opts(f: &VaultId) -> AccessOptions {
    AccessOptions { folder: Some(*f), ..Default::default() }
}

// ------------------------------------------------------------------ child

/// Child process: open the account, optionally arm a probe, run one
/// operation described by the spec, exit.
pub async fn child(args: &Args) -> i32 {
    let from_file = args.extra.iter().position(|a| a == "--spec-file").and_then(|i| args.extra.get(i + 1)).and_then(|p| std::fs::read_to_string(p).ok());
    let spec: Value = match from_file.or_else(|| args.extra.iter().position(|a| a == "--spec").and_then(|i| args.extra.get(i + 1)).cloned()).and_then(|s| serde_json::from_str(&s).ok()) {
        Some(v) => v,
        None => return 64,
    };
    let backend = if spec["backend"] == "db" { Backend::Db } else { Backend::Fs };
    let account_id: AccountId = match spec["account"].as_str().and_then(|s| s.parse().ok()) {
        Some(a) => a,
        None => return 64,
    };
    let password: secrecy::SecretString = spec["password"].as_str().unwrap_or("").to_string().into();
    let dir = PathBuf::from(spec["dir"].as_str().unwrap_or("."));
    let mut opened = match setup::open(&dir, backend, &account_id, &password).await {
        Ok(o) => o,
        Err(e) => {
            eprintln!("child: open failed: {e}");
            return 65;
        }
    };
    let discover = spec["discover"].as_str().map(PathBuf::from);
    if discover.is_some() {
        sos_core::verif::record_order(true);
    }
    if let (Some(name), Some(nth)) = (spec["arm"]["name"].as_str(), spec["arm"]["nth"].as_u64()) {
        sos_core::verif::arm(name, nth, sos_core::verif::ArmMode::Abort);
    }
    let a = &mut opened.account;
    let fid = |k: &str| -> Option<VaultId> { spec[k].as_str().and_then(|s| s.parse().ok()) };
    let sid = |k: &str| -> Option<SecretId> { spec[k].as_str().and_then(|s| s.parse().ok()) };
    let mut rng = Rng::new(spec["seed"].as_u64().unwrap_or(1));
    let r: Result<(), String> = async {
        match spec["op"].as_str().unwrap_or("") {
            "create" => {
                let f = fid("folder").ok_or("folder")?;
                let mut g = Gen::new(&mut rng);
                g.allow_large = false;
                let (m, s) = g.secret_of_kind(spec["kind"].as_u64().unwrap_or(0) as usize % KINDS.len(), 0);
                a.create_secret(m, s, opts(&f)).await.map(|_| ()).map_err(|e| e.to_string())
            }
            "update" => {
                let (f, id) = (fid("folder").ok_or("folder")?, sid("secret").ok_or("secret")?);
                let (row, _) = a.read_secret(&id, Some(&f)).await.map_err(|e| e.to_string())?;
                let kname = row.secret().kind().to_string().to_lowercase();
                let k = KINDS.iter().position(|x| kname.starts_with(&x[..3])).unwrap_or(0);
                let mut g = Gen::new(&mut rng);
                g.allow_large = false;
                let (m, s) = g.secret_of_kind(k, 0);
                a.update_secret(&id, m, Some(s), opts(&f)).await.map(|_| ()).map_err(|e| e.to_string())
            }
            "delete" => {
                let (f, id) = (fid("folder").ok_or("folder")?, sid("secret").ok_or("secret")?);
                a.delete_secret(&id, opts(&f)).await.map(|_| ()).map_err(|e| e.to_string())
            }
            "move" => {
                let (f, id, to) = (fid("folder").ok_or("folder")?, sid("secret").ok_or("secret")?, fid("to").ok_or("to")?);
                a.move_secret(&id, &f, &to, Default::default()).await.map(|_| ()).map_err(|e| e.to_string())
            }
            "archive" => {
                let (f, id) = (fid("folder").ok_or("folder")?, sid("secret").ok_or("secret")?);
                a.archive(&f, &id, Default::default()).await.map(|_| ()).map_err(|e| e.to_string())
            }
            "rename" => {
                let f = fid("folder").ok_or("folder")?;
                a.rename_folder(&f, format!("Renamed {}", rng.token(6))).await.map(|_| ()).map_err(|e| e.to_string())
            }
            "flags" => {
                let f = fid("folder").ok_or("folder")?;
                let cur = a.list_folders().await.map_err(|e| e.to_string())?.into_iter().find(|s| s.id() == &f).map(|s| s.flags().bits()).unwrap_or(0);
                a.update_folder_flags(&f, VaultFlags::from_bits_truncate(cur ^ VaultFlags::LOCAL.bits())).await.map(|_| ()).map_err(|e| e.to_string())
            }
            "describe" => {
                let f = fid("folder").ok_or("folder")?;
                a.set_folder_description(&f, format!("described {}", rng.token(8))).await.map(|_| ()).map_err(|e| e.to_string())
            }
            "create_folder" => a.create_folder(NewFolderOptions::new(format!("Crash folder {}", rng.token(5)))).await.map(|_| ()).map_err(|e| e.to_string()),
            "delete_folder" => {
                let f = fid("folder").ok_or("folder")?;
                a.delete_folder(&f).await.map(|_| ()).map_err(|e| e.to_string())
            }
            "compact" => {
                let f = fid("folder").ok_or("folder")?;
                a.compact_folder(&f).await.map(|_| ()).map_err(|e| e.to_string())
            }
            "change_folder_pw" => {
                let f = fid("folder").ok_or("folder")?;
                let pw = setup::new_password(&mut rng);
                a.change_folder_password(&f, pw.into()).await.map_err(|e| e.to_string())
            }
            "file_create" => {
                let f = fid("folder").ok_or("folder")?;
                let path = dir.join(format!("crash-att-{}.bin", rng.token(6)));
                std::fs::write(&path, rng.bytes(3000)).map_err(|e| e.to_string())?;
                let secret: sos_vault::secret::Secret = path.clone().try_into().map_err(|_| "file secret".to_string())?;
                let meta = sos_vault::secret::SecretMeta::new(format!("file {}", rng.token(6)), secret.kind());
                let r = a.create_secret(meta, secret, opts(&f)).await.map(|_| ()).map_err(|e| e.to_string());
                let _ = std::fs::remove_file(&path);
                r
            }
            "merge" | "force_merge" => {
                use sos_core::events::patch::{CheckedPatch, FolderDiff, Patch};
                use sos_sync::{ForceMerge, Merge, MergeOutcome};
                let f = fid("folder").ok_or("folder")?;
                let records = records_from_json(&spec["remote_records"]);
                let base = spec["base_len"].as_u64().unwrap_or(0) as usize;
                if records.len() <= base || base == 0 {
                    return Err("remote log is not ahead".to_string());
                }
                let commits: Vec<[u8; 32]> = records.iter().map(|r| r.commit().0).collect();
                let mut outcome = MergeOutcome::default();
                if spec["op"] == "merge" {
                    let checkpoint = head_proof_of(&commits[..base]).ok_or("proof")?;
                    let diff = FolderDiff::new(Patch::new(records[base..].to_vec()), checkpoint, Some(sos_core::commit::CommitHash(commits[base - 1])));
                    match a.merge_folder(&f, diff, &mut outcome).await.map_err(|e| e.to_string())? {
                        (CheckedPatch::Success(_), _) => Ok(()),
                        (CheckedPatch::Conflict { .. }, _) => Err("merge conflict on an agreed base".to_string()),
                    }
                } else {
                    let checkpoint = head_proof_of(&commits).ok_or("proof")?;
                    let diff = FolderDiff::new(Patch::new(records), checkpoint, None);
                    a.force_merge_folder(&f, diff, &mut outcome).await.map_err(|e| e.to_string())
                }
            }
            other => Err(format!("unknown op {other}")),
        }
    }
    .await;
    if let Some(p) = discover {
        let order = sos_core::verif::drain_order();
        let _ = std::fs::write(&p, serde_json::to_vec(&json!({"order": order, "result": r.as_ref().err()})).unwrap());
    }
    if let Err(e) = &r {
        eprintln!("child: op failed: {e}");
    }
    let still_armed = sos_core::verif::is_armed();
    opened.close().await;
    if r.is_err() {
        66
    } else if still_armed {
        67 // the armed probe was never reached
    } else {
        0
    }
}

// ------------------------------------------------------------------ parent

struct Examined {
    problems: Vec<(&'static str, String)>,
}

async fn read_state(dir: &Path, backend: Backend, account_id: &AccountId, password: &secrecy::SecretString) -> Result<BTreeMap<LogId, Vec<Rec>>, String> {
    let o = setup::open(dir, backend, account_id, password).await.map_err(|e| format!("{e}"))?;
    let logs = all_logs(&o.account).await;
    o.close().await;
    logs
}

async fn examine(dir: &Path, backend: Backend, account_id: &AccountId, passwords: &[secrecy::SecretString], s0: &BTreeMap<LogId, Vec<Rec>>, s1: &BTreeMap<LogId, Vec<Rec>>, shape: bool) -> Examined {
    let mut problems = vec![];
    // (1) opens
    let mut opened = None;
    let mut last_err = String::new();
    for pw in passwords {
        match setup::open(dir, backend, account_id, pw).await {
            Ok(o) => {
                opened = Some(o);
                break;
            }
            Err(e) => last_err = format!("{e}"),
        }
    }
    let Some(mut o) = opened else {
        problems.push(("cannot_open", format!("the account cannot be opened / signed in after the crash: {last_err}")));
        return Examined { problems };
    };
    // (2) logs equal S0 or S1
    match all_logs(&o.account).await {
        Ok(logs) => {
            let mut ids: BTreeSet<LogId> = s0.keys().chain(s1.keys()).copied().collect();
            ids.extend(logs.keys().copied());
            for id in ids {
                let got = logs.get(&id);
                let a = s0.get(&id);
                let b = s1.get(&id);
                let eq = |x: Option<&Vec<Rec>>, y: Option<&Vec<Rec>>| match (x, y) {
                    (Some(x), Some(y)) => x.iter().map(|r| r.commit).collect::<Vec<_>>() == y.iter().map(|r| r.commit).collect::<Vec<_>>(),
                    (None, None) => true,
                    _ => false,
                };
                // `shape`: the run that crashed made its own random ids / nonces, so its "after"
                // is compared with the reference run's by shape: same length, and an extension of
                // the before state wherever the reference is; a log under an id neither state
                // knows must look like one of the reference run's new logs
                let after_like = shape && {
                    let com = |x: &Vec<Rec>| x.iter().map(|r| r.commit).collect::<Vec<_>>();
                    match (got, a, b) {
                        (Some(g), Some(a), Some(b)) => g.len() == b.len() && (!com(b).starts_with(&com(a)) || com(g).starts_with(&com(a))),
                        (Some(g), None, Some(b)) => g.len() == b.len(),
                        (Some(g), None, None) => s1.iter().any(|(k, v)| !s0.contains_key(k) && v.len() == g.len()),
                        _ => false,
                    }
                };
                if !(eq(got, a) || eq(got, b) || after_like) {
                    let n = got.map(|g| g.len());
                    let cls = match (got, a, b) {
                        (Some(g), _, _) if g.is_empty() => "log_emptied",
                        (None, Some(_), Some(_)) => "log_missing",
                        _ => "log_neither_before_nor_after",
                    };
                    problems.push((cls, format!("{id:?} has {n:?} records; before the operation {:?}, after it {:?}", a.map(|x| x.len()), b.map(|x| x.len()))));
                }
            }
        }
        Err(e) => problems.push(("logs_unreadable", e)),
    }
    // (3) served == replay; (4) tree == records, per folder
    match snapshot::folder_keys(&o.account).await {
        Ok(keys) => match snapshot::live(&mut o.account).await {
            Ok((live, listing)) => {
                for l in listing {
                    problems.push((l.class, l.detail));
                }
                for (f, key) in &keys {
                    let Some(served) = live.folders.get(f) else { continue };
                    match snapshot::replay_folder(&o.account, f, key, None).await {
                        Ok(replayed) => {
                            let mut d = vec![];
                            diff_folder(served, &replayed, f, &mut d);
                            if let Some(first) = d.first() {
                                problems.push(("served_differs_from_log_replay", format!("{} ({} differences)", first.detail, d.len())));
                            }
                        }
                        Err(e) => problems.push(("log_replay_failed", format!("{f}: {} {}", e.class, e.detail))),
                    }
                    if let (Ok(commits), Ok(folder)) = (snapshot::log_commits(&o.account, f).await, o.account.folder(f).await) {
                        use sos_core::events::EventLog;
                        let log = folder.event_log();
                        let log = log.read().await;
                        let stream = log.record_stream(false).await;
                        futures::pin_mut!(stream);
                        let mut n = 0usize;
                        use futures::StreamExt;
                        while let Some(r) = stream.next().await {
                            if r.is_err() {
                                problems.push(("log_stream_error", format!("{f}: stream error after {n} records")));
                                break;
                            }
                            n += 1;
                        }
                        if n != commits.len() {
                            problems.push(("tree_differs_from_records", format!("{f}: tree has {} leaves, log streams {n} records", commits.len())));
                        }
                    }
                }
            }
            Err(e) => problems.push(("served_unreadable", format!("{} {}", e.class, e.detail))),
        },
        Err(e) => problems.push(("folder_keys_unreadable", format!("{} {}", e.class, e.detail))),
    }
    o.close().await;
    Examined { problems }
}

/// Every `*.events` file under a directory.
fn event_log_files(dir: &Path) -> Vec<PathBuf> {
    let mut out = vec![];
    let mut stack = vec![dir.to_path_buf()];
    while let Some(d) = stack.pop() {
        if let Ok(rd) = std::fs::read_dir(&d) {
            for e in rd.flatten() {
                let p = e.path();
                if p.is_dir() {
                    stack.push(p);
                } else if p.extension().map(|x| x == "events" || x == "db" || x == "sqlite" || x == "sqlite3").unwrap_or(false) {
                    // event log files (file system backend) or the database file (sqlite backend)
                    out.push(p);
                }
            }
        }
    }
    // sqlite runs in WAL mode: transactions are appended to `<db>-wal` (created when the
    // database is opened), so that is where the writes of an operation go
    let wals: Vec<PathBuf> = out.iter().filter(|p| p.extension().map(|x| x == "db").unwrap_or(false)).map(|p| PathBuf::from(format!("{}-wal", p.display()))).collect();
    out.extend(wals);
    out.sort();
    out
}

/// Run the child under strace restricted to write syscalls on the given files. With
/// `kill_at = Some(k)` the process is killed (SIGKILL, on entering the syscall) at the
/// k-th such write: a process death between two writes, with no hook in the code.
/// Returns (exit code, signal, number of traced writes).
fn run_child_strace(spec: &Value, files: &[PathBuf], kill_at: Option<usize>) -> (Option<i32>, Option<i32>, usize, Vec<usize>) {
    let exe = std::env::current_exe().expect("current exe");
    let spec_path = PathBuf::from(format!("{}.spec.json", spec["dir"].as_str().unwrap_or("spec")));
    let trace_path = PathBuf::from(format!("{}.strace", spec["dir"].as_str().unwrap_or("spec")));
    if std::fs::write(&spec_path, spec.to_string()).is_err() {
        return (None, None, 0, vec![]);
    }
    let mut cmd = Command::new("strace");
    cmd.arg("-f").arg("-qq").arg("-x").arg("-s").arg("8").arg("-o").arg(&trace_path).arg("-e").arg("trace=write,pwrite64,writev");
    if let Some(k) = kill_at {
        cmd.arg("-e").arg(format!("inject=write,pwrite64,writev:signal=KILL:when={k}"));
    }
    for f in files {
        cmd.arg("-P").arg(f);
    }
    cmd.arg(exe).arg("c13child").arg("--spec-file").arg(&spec_path).env("RUST_BACKTRACE", "0");
    let out = cmd.output();
    let _ = std::fs::remove_file(&spec_path);
    // number of traced writes, and the sqlite transaction boundaries among them: a WAL frame is
    // a 24-byte header write followed by the page write; bytes 4..8 of the header are non-zero
    // for the frame that commits a transaction, so the write after that frame's page is the
    // first write of the NEXT transaction
    let mut writes = 0usize;
    let mut boundaries = vec![];
    if let Ok(t) = std::fs::read_to_string(&trace_path) {
        for l in t.lines() {
            if !(l.contains("write(") || l.contains("pwrite64(") || l.contains("writev(")) {
                continue;
            }
            writes += 1;
            if l.contains("pwrite64(") && l.contains(", 24, ") {
                if let Some(q) = l.find('"') {
                    let hex: Vec<u8> = l[q + 1..].split("\\x").skip(1).take(8).filter_map(|b| u8::from_str_radix(&b[..2.min(b.len())], 16).ok()).collect();
                    if hex.len() == 8 && hex[4..8].iter().any(|b| *b != 0) {
                        boundaries.push(writes + 2);
                    }
                }
            }
        }
    }
    let _ = std::fs::remove_file(&trace_path);
    match out {
        Ok(o) => {
            use std::os::unix::process::ExitStatusExt;
            // strace exits with 128+signal (or re-raises) when the tracee was killed
            let sig = o.status.signal().or_else(|| o.status.code().filter(|c| *c > 128).map(|c| c - 128));
            (o.status.code(), sig, writes, boundaries)
        }
        Err(_) => (None, None, 0, vec![]),
    }
}

fn run_child(spec: &Value) -> (Option<i32>, Option<i32>, String) {
    let exe = std::env::current_exe().expect("current exe");
    // the spec can carry a whole folder log: hand it over in a file next to the work directory
    let spec_path = PathBuf::from(format!("{}.spec.json", spec["dir"].as_str().unwrap_or("spec")));
    if std::fs::write(&spec_path, spec.to_string()).is_err() {
        return (None, None, "cannot write spec file".into());
    }
    let out = Command::new(exe).arg("c13child").arg("--spec-file").arg(&spec_path).env("RUST_BACKTRACE", "0").output();
    let _ = std::fs::remove_file(&spec_path);
    match out {
        Ok(o) => {
            use std::os::unix::process::ExitStatusExt;
            (o.status.code(), o.status.signal(), String::from_utf8_lossy(&o.stderr).chars().rev().take(300).collect::<String>().chars().rev().collect())
        }
        Err(e) => (None, None, format!("spawn failed: {e}")),
    }
}

pub async fn run(args: &Args, rep: &mut Reporter) {
    let mut rng = Rng::new(args.shard_seed() ^ 0xC13);
    let per_op_points = args.by_tier(6usize, 20usize);
    let histories = args.by_tier(1usize, 3usize);
    // can this environment trace at all? (ptrace may be forbidden in a sandbox)
    let strace_ok = Command::new("strace").arg("-o").arg("/dev/null").arg("true").output().map(|o| o.status.success()).unwrap_or(false);
    if !strace_ok {
        rep.count("strace_unavailable", 1);
    }
    let sys_ops: BTreeSet<&str> = if !strace_ok { BTreeSet::new() } else { ["create", "update", "delete", "move", "rename", "flags", "compact", "change_folder_pw", "merge", "force_merge", "archive", "create_folder"].into_iter().collect() };
    for (ci, config) in Config::matrix().iter().enumerate().filter(|(i, _)| i % 2 == 0) {
        let backend = config.backend.name();
        let pdir = args.dir.join(format!("pristine{ci}"));
        let pristine = match setup::create_pristine(&pdir, config, &mut rng).await {
            Ok(p) => p,
            Err(e) => {
                rep.inconclusive(&format!("cannot create pristine account: {e}"));
                continue;
            }
        };
        for h in 0..histories {
            // ---- S0: an account after a generated history -----------------------------
            let hdir = args.dir.join(format!("h{ci}_{h}"));
            let mut w = Weights::c01();
            w.create_folder = 5;
            w.resign = 0;
            w.relock = 0;
            w.file_create = 4;
            let mut s = match Session::start(&pristine, &hdir, rng.fork(h as u64), w).await {
                Ok(s) => s,
                Err(e) => {
                    rep.inconclusive(&format!("cannot start session: {e}"));
                    continue;
                }
            };
            s.driver.allow_large = false;
            s.driver.max_file_bytes = 3000;
            for _ in 0..args.by_tier(18, 30) {
                let _ = s.step().await;
            }
            let model = s.driver.model.clone();
            let account_id = pristine.account_id;
            let password = s.driver.password.clone();
            let s0_dir = s.data_dir();
            let hist_ops = tail(&s.driver.log, 8);
            if let Some(o) = s.opened.take() {
                o.close().await;
            }
            let s0 = match read_state(&s0_dir, config.backend, &account_id, &password).await {
                Ok(l) => l,
                Err(e) => {
                    rep.inconclusive(&format!("cannot read S0: {e}"));
                    continue;
                }
            };
            // ---- choose targets from the model (deterministic orders) ----------------------
            let folders = model.folder_ids_sorted();
            let live = model.live_secrets();
            let user_folders: Vec<VaultId> = folders.iter().copied().filter(|f| model.view.folders[f].flags & 0xff == 0).collect();
            let archive = folders.iter().copied().find(|f| model.view.folders[f].flags & VaultFlags::ARCHIVE.bits() != 0);
            for (oi, op) in OPS.iter().enumerate() {
                // each shard takes a lane of operation kinds (13 kinds over the shards)
                let lanes = args.shards.min(OPS.len()).max(1);
                if oi % lanes != args.shard % lanes {
                    continue;
                }
                let pw_plain = {
                    use secrecy::ExposeSecret;
                    password.expose_secret().to_string()
                };
                let mut spec = json!({"backend": backend, "account": account_id.to_string(), "password": pw_plain, "op": op, "seed": rng.next() % 1_000_000, "kind": rng.below(15)});
                let pick_folder = |rng: &mut Rng| folders[rng.usize(folders.len())];
                let non_archive_live: Vec<(VaultId, SecretId)> = live.iter().copied().filter(|(f, _)| Some(*f) != archive).collect();
                match *op {
                    "create" | "rename" | "flags" | "describe" | "compact" | "change_folder_pw" | "file_create" => {
                        spec["folder"] = json!(pick_folder(&mut rng).to_string());
                    }
                    "update" | "delete" => {
                        if live.is_empty() {
                            continue;
                        }
                        let (f, id) = live[rng.usize(live.len())];
                        spec["folder"] = json!(f.to_string());
                        spec["secret"] = json!(id.to_string());
                    }
                    "move" => {
                        if live.is_empty() || folders.len() < 2 {
                            continue;
                        }
                        let (f, id) = live[rng.usize(live.len())];
                        let others: Vec<VaultId> = folders.iter().copied().filter(|g| *g != f).collect();
                        spec["folder"] = json!(f.to_string());
                        spec["secret"] = json!(id.to_string());
                        spec["to"] = json!(others[rng.usize(others.len())].to_string());
                    }
                    "archive" => {
                        if non_archive_live.is_empty() || archive.is_none() {
                            continue;
                        }
                        let (f, id) = non_archive_live[rng.usize(non_archive_live.len())];
                        spec["folder"] = json!(f.to_string());
                        spec["secret"] = json!(id.to_string());
                    }
                    "delete_folder" => {
                        if user_folders.is_empty() {
                            continue;
                        }
                        spec["folder"] = json!(user_folders[rng.usize(user_folders.len())].to_string());
                    }
                    "merge" | "force_merge" => {
                        // a second replica of the account (copy of S0) makes further edits in one
                        // folder; its log is what the interrupted merge receives
                        let f = pick_folder(&mut rng);
                        let base_len = s0.get(&LogId::Folder(f)).map(|v| v.len()).unwrap_or(0);
                        let rdir = hdir.join("remote");
                        let _ = std::fs::remove_dir_all(&rdir);
                        if setup::copy_dir(&s0_dir, &rdir).is_err() {
                            continue;
                        }
                        let recs = match setup::open(&rdir, config.backend, &account_id, &password).await {
                            Ok(mut o) => {
                                let r: Result<Vec<Value>, String> = async {
                                    let mut g = Gen::new(&mut rng);
                                    g.allow_large = false;
                                    let (m, sct) = g.secret_of_kind(0, 0);
                                    let id = o.account.create_secret(m, sct, opts(&f)).await.map_err(|e| e.to_string())?.id;
                                    let (m, sct) = g.secret_of_kind(0, 0);
                                    o.account.update_secret(&id, m, Some(sct), opts(&f)).await.map_err(|e| e.to_string())?;
                                    if let Some((_, victim)) = live.iter().find(|(lf, _)| *lf == f) {
                                        o.account.delete_secret(victim, opts(&f)).await.map_err(|e| e.to_string())?;
                                    }
                                    o.account.rename_folder(&f, format!("Remote name {}", g.rng.token(5))).await.map_err(|e| e.to_string())?;
                                    folder_records_json(&o.account, &f).await
                                }
                                .await;
                                o.close().await;
                                r
                            }
                            Err(e) => Err(e.to_string()),
                        };
                        let _ = std::fs::remove_dir_all(&rdir);
                        match recs {
                            Ok(r) if r.len() > base_len && base_len > 0 => {
                                spec["folder"] = json!(f.to_string());
                                spec["remote_records"] = json!(r);
                                spec["base_len"] = json!(base_len);
                            }
                            other => {
                                rep.inconclusive(&format!("cannot prepare the remote replica for {op}: {:?}", other.err()));
                                continue;
                            }
                        }
                    }
                    _ => {}
                }
                // ---- discovery run: probe order + S1 ------------------------------------------
                let work = hdir.join("work");
                let _ = std::fs::remove_dir_all(&work);
                if setup::copy_dir(&s0_dir, &work).is_err() {
                    continue;
                }
                let disc = hdir.join("discover.json");
                let _ = std::fs::remove_file(&disc);
                let mut dspec = spec.clone();
                dspec["dir"] = json!(work.display().to_string());
                dspec["discover"] = json!(disc.display().to_string());
                let (code, sig, err) = run_child(&dspec);
                if code != Some(0) {
                    rep.count(&format!("discovery_failed:{op}"), 1);
                    if code == Some(66) {
                        // the operation itself failed on an intact account: not a crash question
                        rep.count("discovery_op_errors", 1);
                    } else {
                        rep.inconclusive(&format!("discovery child for {op} ended with code {code:?} signal {sig:?}: {err}"));
                    }
                    continue;
                }
                let order: Vec<String> = std::fs::read(&disc).ok().and_then(|b| serde_json::from_slice::<Value>(&b).ok()).and_then(|v| v["order"].as_array().map(|a| a.iter().filter_map(|x| x.as_str().map(|s| s.to_string())).collect())).unwrap_or_default();
                // the operation may have changed the password of a folder only; account password is unchanged
                let s1 = match read_state(&work, config.backend, &account_id, &password).await {
                    Ok(l) => l,
                    Err(e) => {
                        rep.inconclusive(&format!("cannot read S1 after {op}: {e}"));
                        continue;
                    }
                };
                rep.count(&format!("ops_discovered:{op}"), 1);
                rep.max(&format!("max:probe_hits:{op}"), order.len() as u64);
                // keep S1 bytes of grown log files for torn appends (file system)
                let s1_dir = hdir.join("s1");
                let _ = std::fs::remove_dir_all(&s1_dir);
                let _ = setup::copy_dir(&work, &s1_dir);

                // ---- crash at each probe hit ------------------------------------------------------
                let mut points: Vec<(String, u64)> = vec![];
                let mut seen: BTreeMap<String, u64> = BTreeMap::new();
                for name in &order {
                    let n = seen.entry(name.clone()).or_insert(0);
                    *n += 1;
                    points.push((name.clone(), *n));
                }
                if points.len() > per_op_points {
                    // keep the first hit of every probe, then sample the rest
                    let mut keep: Vec<(String, u64)> = points.iter().filter(|(_, n)| *n == 1).cloned().collect();
                    let mut rest: Vec<(String, u64)> = points.iter().filter(|(_, n)| *n != 1).cloned().collect();
                    rng.shuffle(&mut rest);
                    keep.extend(rest.into_iter().take(per_op_points.saturating_sub(keep.len())));
                    points = keep;
                }
                for (name, nth) in points {
                    let _ = std::fs::remove_dir_all(&work);
                    if setup::copy_dir(&s0_dir, &work).is_err() {
                        continue;
                    }
                    let mut cspec = spec.clone();
                    cspec["dir"] = json!(work.display().to_string());
                    cspec["arm"] = json!({"name": name, "nth": nth});
                    let (code, sig, err) = run_child(&cspec);
                    if sig != Some(6) {
                        rep.count("armed_probe_not_reached", 1);
                        let _ = (code, err);
                        continue;
                    }
                    rep.count("crash_points", 1);
                    rep.count(&format!("crash_at:{name}"), 1);
                    let ex = examine(&work, config.backend, &account_id, &[password.clone()], &s0, &s1, false).await;
                    let mut hh = Fnv::new();
                    hh.str(backend).str(op).str(&name).u64(nth).u64(spec["seed"].as_u64().unwrap_or(0));
                    rep.case(hh.finish(), true);
                    let ctx = json!({"config": config.name(), "op": spec, "probe": name, "nth": nth, "history_tail": hist_ops});
                    let classes: BTreeSet<&str> = ex.problems.iter().map(|(c, _)| *c).collect();
                    for cls in classes {
                        let detail = ex.problems.iter().find(|(c, _)| *c == cls).map(|(_, d)| d.clone()).unwrap_or_default();
                        rep.violation(&format!("C13:{backend}:{name}:{cls}"), &format!("process death at probe {name} (hit {nth}) during {op}: {detail}"), ctx.clone());
                    }
                    if ex.problems.is_empty() {
                        rep.count("crash_points_consistent", 1);
                    }
                }
                if rep.counter("samples_taken") < 2 {
                    rep.count("samples_taken", 1);
                    rep.sample(json!({"op": op, "backend": backend, "probe_hits_in_order": order}));
                }

                // ---- process death before each write to an event log (syscall level, no hook) --------
                // judged on clauses (1) opens, (2) every log equals before or after, (4) tree == records;
                // clause (3) at these points is what the probe-based points above already judge
                if sys_ops.contains(op) {
                    let _ = std::fs::remove_dir_all(&work);
                    if setup::copy_dir(&s0_dir, &work).is_ok() {
                        let files = event_log_files(&work);
                        let mut tspec = spec.clone();
                        tspec["dir"] = json!(work.display().to_string());
                        let (code, _sig, writes, boundaries) = run_child_strace(&tspec, &files, None);
                        if code == Some(0) && writes > 0 {
                            rep.max(&format!("max:log_writes:{op}"), writes as u64);
                            let mut ks: Vec<usize> = (1..=writes).collect();
                            if ks.len() > per_op_points {
                                rng.shuffle(&mut ks);
                                ks.truncate(per_op_points);
                            }
                            // sqlite: between the transactions of the operation (all of them, bounded)
                            let mut bs: Vec<usize> = boundaries.into_iter().filter(|k| *k <= writes).collect();
                            rep.max(&format!("max:db_transactions:{op}"), bs.len() as u64 + 1);
                            if bs.len() > 3 * per_op_points {
                                rng.shuffle(&mut bs);
                                bs.truncate(3 * per_op_points);
                            }
                            rep.count("syscall_points_between_db_transactions", bs.len() as u64);
                            ks.extend(bs);
                            ks.sort();
                            ks.dedup();
                            for k in ks {
                                let _ = std::fs::remove_dir_all(&work);
                                if setup::copy_dir(&s0_dir, &work).is_err() {
                                    continue;
                                }
                                let files = event_log_files(&work);
                                let (_code, sig, _, _) = run_child_strace(&tspec, &files, Some(k));
                                if sig != Some(9) {
                                    rep.count("syscall_kill_not_delivered", 1);
                                    continue;
                                }
                                rep.count("syscall_crash_points", 1);
                                rep.count(&format!("syscall_crash_points:{op}"), 1);
                                let ex = examine(&work, config.backend, &account_id, &[password.clone()], &s0, &s1, true).await;
                                let mut hh = Fnv::new();
                                hh.str("sys").str(op).u64(k as u64).u64(spec["seed"].as_u64().unwrap_or(0));
                                rep.case(hh.finish(), true);
                                let mut lean = spec.clone();
                                if let Some(o) = lean.as_object_mut() {
                                    o.remove("remote_records");
                                }
                                let ctx = json!({"config": config.name(), "op": lean, "killed_before_log_write": k, "log_writes_in_op": writes, "history_tail": hist_ops});
                                let judged: BTreeSet<&str> = ex.problems.iter().map(|(c, _)| *c).filter(|c| matches!(*c, "cannot_open" | "log_emptied" | "log_missing" | "log_neither_before_nor_after" | "logs_unreadable" | "tree_differs_from_records" | "log_stream_error")).collect();
                                for cls in &judged {
                                    let detail = ex.problems.iter().find(|(c, _)| c == cls).map(|(_, d)| d.clone()).unwrap_or_default();
                                    rep.violation(&format!("C13:{backend}:killed_before_log_write:{op}:{cls}"), &format!("process killed on entering write #{k} of {writes} to the {} during {op}: {detail}", if backend == "fs" { "event logs" } else { "database file" }), ctx.clone());
                                }
                                if judged.is_empty() {
                                    rep.count("syscall_crash_points_consistent", 1);
                                }
                            }
                        } else {
                            rep.count("syscall_discovery_failed", 1);
                        }
                    }
                }

                // ---- torn appends (file system logs) --------------------------------------------------
                if config.backend == Backend::Fs {
                    let paths = sos_core::Paths::new_client(&s1_dir).with_account_id(&account_id);
                    let paths0 = sos_core::Paths::new_client(&s0_dir).with_account_id(&account_id);
                    let mut grown: Vec<(PathBuf, PathBuf, u64, u64)> = vec![]; // (relative in s1, s0 path, len0, len1)
                    let mut candidates: Vec<(PathBuf, PathBuf)> = vec![(paths.account_events(), paths0.account_events()), (paths.identity_events(), paths0.identity_events()), (paths.file_events(), paths0.file_events())];
                    for f in &folders {
                        candidates.push((paths.event_log_path(f), paths0.event_log_path(f)));
                    }
                    for (p1, p0) in candidates {
                        let l1 = std::fs::metadata(&p1).map(|m| m.len()).unwrap_or(0);
                        let l0 = std::fs::metadata(&p0).map(|m| m.len()).unwrap_or(0);
                        if l1 > l0 && l0 > 0 {
                            grown.push((p1, p0, l0, l1));
                        }
                    }
                    for (p1, _p0, l0, l1) in grown {
                        let span = l1 - l0;
                        let mut ks: Vec<u64> = vec![1, 3, 4, 5, 15, 16, 17, 48, 80, 84, span / 2, span.saturating_sub(5), span.saturating_sub(4), span.saturating_sub(1)];
                        if args.thorough() {
                            ks = (1..span).collect();
                        }
                        ks.retain(|k| *k > 0 && *k < span);
                        ks.sort();
                        ks.dedup();
                        let rel = p1.strip_prefix(&s1_dir).unwrap().to_path_buf();
                        for k in ks {
                            let _ = std::fs::remove_dir_all(&work);
                            if setup::copy_dir(&s1_dir, &work).is_err() {
                                continue;
                            }
                            let target = work.join(&rel);
                            if let Ok(f) = std::fs::OpenOptions::new().write(true).open(&target) {
                                let _ = f.set_len(l0 + k);
                            }
                            rep.count("torn_appends", 1);
                            let ex = examine(&work, config.backend, &account_id, &[password.clone()], &s0, &s1, false).await;
                            let mut hh = Fnv::new();
                            hh.str("torn").str(op).str(&rel.display().to_string()).u64(k);
                            rep.case(hh.finish(), true);
                            let which = if rel.to_string_lossy().contains("vaults") { "folder_log" } else { "account_level_log" };
                            let ctx = json!({"config": config.name(), "op": spec, "torn_file": rel.display().to_string(), "appended_bytes": span, "kept_bytes": k, "history_tail": hist_ops});
                            let classes: BTreeSet<&str> = ex.problems.iter().map(|(c, _)| *c).collect();
                            for cls in classes {
                                let detail = ex.problems.iter().find(|(c, _)| *c == cls).map(|(_, d)| d.clone()).unwrap_or_default();
                                rep.violation(&format!("C13:fs:torn_append:{which}:{cls}"), &format!("append to {} torn after {k} of {span} bytes during {op}: {detail}", rel.display()), ctx.clone());
                            }
                            if ex.problems.is_empty() {
                                rep.count("torn_appends_consistent", 1);
                            }
                        }
                    }
                }
                let _ = std::fs::remove_dir_all(&s1_dir);
                let _ = std::fs::remove_dir_all(&work);
            }
            s.finish().await;
        }
        let _ = std::fs::remove_dir_all(&pdir);
    }
}
