//! Seeded, structure-aware generators for every type that is written to
//! disk or sent on the wire (C14), reused by C15 as the corpus of valid
//! encodings.
//!
//! Conventions:
//!  * every enum variant choice is recorded as `variant:<Type>::<Variant>`
//!    and every `Option` arm as `option:<Type>.<field>:some|none`; the
//!    counters are kept in the generator and flushed into the `Reporter`
//!    with [`Gen::flush`], so coverage is measured, not assumed;
//!  * enum variants are chosen by *cycling* (a per-enum counter with a
//!    seed-dependent start), not by coin flips, so that every variant shows
//!    up in every shard as soon as the shard generates at least as many
//!    values as the enum has variants;
//!  * strings are sometimes empty, non-ASCII (multi-byte, RTL, emoji, control
//!    characters) and occasionally long (up to ~100 KB); collections are
//!    sometimes empty and sometimes large; numbers sit on boundaries.
//!
//! Values that the repository documents as "never encoded" are generated
//! in their neutral state (`FileContent::External.path = None`,
//! `MergeOutcome.external_files = {}`): losing them is by design.
#![allow(dead_code)]
use indexmap::{IndexMap, IndexSet};
use secrecy::{SecretBox, SecretString};
use serde_json::json;
use sos_core::{
    commit::{CommitHash, CommitProof, CommitState, CommitTree, Comparison},
    crypto::{AeadPack, Cipher, KeyDerivation, Nonce, Seed},
    device::{DeviceMetaData, DevicePublicKey, TrustedDevice},
    events::{
        patch::{CheckedPatch, Diff, Patch},
        AccountEvent, DeviceEvent, EventLogType, EventRecord, FileEvent,
        WriteEvent,
    },
    merkle::{algorithms::Sha256, MerkleProof},
    AccountId, ExternalFile, ExternalFileName, Origin, SecretPath,
    UtcDateTime, VaultCommit, VaultEntry, VaultFlags,
};
use sos_protocol::{
    transfer::{FileSet, FileTransfersSet},
    DiffRequest, DiffResponse, NetworkChangeEvent, PatchRequest,
    PatchResponse, ScanRequest, ScanResponse,
};
use sos_sync::{
    CreateSet, MaybeDiff, MergeOutcome, SyncCompare, SyncDiff, SyncPacket,
    SyncStatus, TrackedAccountChange, TrackedChanges, TrackedDeviceChange,
    TrackedFileChange, TrackedFolderChange, UpdateSet,
};
use sos_vault::{
    secret::{
        AgeVersion, FileContent, IdentityKind, Secret, SecretFlags,
        SecretMeta, SecretRow, SecretSigner, SecretType, UserData,
    },
    Header, SharedAccess, Summary, Vault, VaultMeta,
};
use std::collections::{BTreeMap, HashMap, HashSet};
use time::OffsetDateTime;
use uuid::Uuid;
use vkit::{Reporter, Rng};

/// Largest second `time` can represent: 9999-12-31T23:59:59Z.
pub const MAX_SECS: i64 = 253_402_300_799;
/// Smallest second `time` can represent: -9999-01-01T00:00:00Z.
pub const MIN_SECS: i64 = -377_705_116_800;

const SAMPLES: &[&str] = &[
    "a",
    "secret",
    "p\u{e4}ssw\u{f6}rd",
    "\u{65e5}\u{672c}\u{8a9e}\u{306e}\u{30c6}\u{30ad}\u{30b9}\u{30c8}",
    "\u{5e9}\u{5dc}\u{5d5}\u{5dd} \u{5e2}\u{5d5}\u{5dc}\u{5dd}",
    "\u{645}\u{631}\u{62d}\u{628}\u{627} \u{628}\u{627}\u{644}\u{639}\u{627}\u{644}\u{645}",
    "\u{1f469}\u{200d}\u{1f469}\u{200d}\u{1f467}\u{200d}\u{1f466}\u{1f3f3}\u{fe0f}\u{200d}\u{1f308}",
    "e\u{301}\u{327}",
    "\u{202e}right-to-left override",
    "line1\nline2\r\nline3",
    "tab\there",
    "quote\"back\\slash'",
    "nul\0byte",
    "comma,semi;colon:equals=",
    "  leading and trailing  ",
    "\u{feff}bom",
    "\u{10ffff}\u{fffd}",
    "-----BEGIN X-----",
    "{\"json\":[1,2,{}]}",
    "%00%ff%zz",
];

const HUMAN: &[&str] = &[
    "Alice",
    "Bob O'Neil",
    "J\u{fc}rgen M\u{fc}ller",
    "\u{5c71}\u{7530} \u{592a}\u{90ce}",
    "\u{5d3}\u{5d5}\u{5d3} \u{5dc}\u{5d5}\u{5d9}",
    "\u{639}\u{644}\u{64a} \u{62d}\u{633}\u{646}",
    "Zo\u{eb} \u{1f600}",
    "Smith, John; Jr.",
    "back\\slash",
    "ACME Corp.",
];

const URLS: &[&str] = &[
    "https://example.com/",
    "https://example.com:8443/login?user=a&next=%2Fhome#top",
    "http://localhost:5053",
    "https://user:pw@sub.example.co.uk/a/b/../c",
    "https://xn--bcher-kva.example/",
    "https://b\u{fc}cher.example/\u{65e5}\u{672c}?q=\u{1f600}",
    "http://[::1]:8080/",
    "http://192.168.1.1/",
    "ftp://ftp.example.org/pub/file.txt",
    "file:///tmp/x.vault",
    "data:text/plain,hello",
    "mailto:someone@example.com",
];

/// Throw-away x25519 (age) identities and their recipients. The `Age`
/// secret and `SharedAccess::WriteAccess` decoders insist on well-formed
/// keys; fixed test keys keep the generators fully deterministic.
const AGE_KEYS: &[(&str, &str)] = &[
    ("AGE-SECRET-KEY-1EPVJSQE7GKV7D0Q96VVADQNQMFW5E7H8TFHW6SMYFQ32EJ22GRKSCJHMZM", "age1a3zlrsr8y79zsh34kpxnmja4ja2r5vyr2j7r24wrewhf4lnwdqdqw92v0d"),
    ("AGE-SECRET-KEY-1FV4TD5U8MW20KG0XNW40FJ8LWTED4KSML2ENVZHWAAVXZVCSYPKQE4M86L", "age1vsz3r4y43dy3zfytuklpzvmprdsahpheul6t9zvpxs079r8use7qkvnuw5"),
    ("AGE-SECRET-KEY-1JJURQWSPC58J4TZ3ED4ZUSA5M3XAH0WUL8U0HEMPLQ58ADPJWRWQGQT9UU", "age1wkh53qmfv7zfw2pdk6qrfn86jg2jgdw2dgywylw0de392qqn8v4q7sxqjk"),
    ("AGE-SECRET-KEY-12MT8JZA7733DX0EM29N0VN5PV5RHCRFSJWZ47F4Z5K43ZQ70UWSQK2LT22", "age1tm7pdzgpd36mhju45wy7kvxkpfhykjy9vz80pqlrrkdgj282ysxs6w4z5e"),
];

const PEM_TAGS: &[&str] = &[
    "CERTIFICATE",
    "PRIVATE KEY",
    "RSA PRIVATE KEY",
    "PUBLIC KEY",
    "EC PRIVATE KEY",
    "X509 CRL",
];

pub struct Gen {
    pub rng: Rng,
    cov: BTreeMap<String, u64>,
    cyc: BTreeMap<String, u64>,
    /// Keep values small (C15 corpus): no long strings, short collections.
    pub small: bool,
    /// How many collections of the value being generated may still take a
    /// boundary size (255, 256, 257, ... items); set by the caller per value.
    pub boundary_budget: u32,
}

impl Gen {
    pub fn new(seed: u64) -> Self {
        Gen {
            rng: Rng::new(seed),
            cov: BTreeMap::new(),
            cyc: BTreeMap::new(),
            small: false,
            boundary_budget: 0,
        }
    }

    /// Move the coverage counters collected so far into the reporter.
    pub fn flush(&mut self, rep: &mut Reporter) {
        for (k, v) in std::mem::take(&mut self.cov) {
            rep.count(&k, v);
        }
    }

    fn var(&mut self, ty: &str, v: &str) {
        *self.cov.entry(format!("variant:{ty}::{v}")).or_insert(0) += 1;
    }

    /// Both arms of an `Option`, recorded.
    fn opt<T>(
        &mut self,
        key: &str,
        f: impl FnOnce(&mut Self) -> T,
    ) -> Option<T> {
        if self.rng.bool() {
            *self.cov.entry(format!("option:{key}:some")).or_insert(0) += 1;
            Some(f(self))
        } else {
            *self.cov.entry(format!("option:{key}:none")).or_insert(0) += 1;
            None
        }
    }

    /// Deterministic round-robin over `n` alternatives of `key`.
    fn cycle(&mut self, key: &str, n: usize) -> usize {
        let start = vkit::fnv64(key.as_bytes()) ^ self.rng.0;
        let e = self.cyc.entry(key.to_string()).or_insert(start % 9973);
        let v = (*e % n as u64) as usize;
        *e += 1;
        v
    }

    // ------------------------------------------------------------ scalars

    pub fn uuid(&mut self) -> Uuid {
        let b: [u8; 16] = self.rng.bytes(16).try_into().unwrap();
        match self.rng.below(40) {
            0 => Uuid::nil(),
            1 => Uuid::from_bytes([0xff; 16]),
            _ => uuid::Builder::from_random_bytes(b).into_uuid(),
        }
    }

    pub fn hash32(&mut self) -> [u8; 32] {
        match self.rng.below(30) {
            0 => [0u8; 32],
            1 => [0xff; 32],
            _ => self.rng.bytes(32).try_into().unwrap(),
        }
    }

    pub fn commit_hash(&mut self) -> CommitHash {
        CommitHash(self.hash32())
    }

    /// Byte buffer: empty, tiny, medium and occasionally ~100 KB.
    pub fn blob(&mut self) -> Vec<u8> {
        let n = match self.rng.weighted(&[3, 10, 6, 1]) {
            0 => 0,
            1 => self.rng.range(1, 48) as usize,
            2 => self.rng.range(49, 1500) as usize,
            _ => {
                if self.small {
                    self.rng.range(1, 64) as usize
                } else if self.rng.chance(1, 8) {
                    self.rng.range(60_000, 110_000) as usize
                } else {
                    self.rng.range(1_500, 8_000) as usize
                }
            }
        };
        let n = if self.small { n.min(96) } else { n };
        match self.rng.below(6) {
            0 => vec![0u8; n],
            1 => vec![0xff; n],
            _ => self.rng.bytes(n),
        }
    }

    fn random_chars(&mut self, n: usize, human: bool) -> String {
        let mut s = String::new();
        for _ in 0..n {
            let c = match self.rng.below(if human { 7 } else { 9 }) {
                0 => self.rng.range(0x20, 0x7e) as u32,
                1 => self.rng.range(0xa1, 0x24f) as u32,
                2 => self.rng.range(0x4e00, 0x9fff) as u32, // CJK
                3 => self.rng.range(0x5d0, 0x5ea) as u32,  // Hebrew
                4 => self.rng.range(0x621, 0x64a) as u32,  // Arabic
                5 => self.rng.range(0x1f600, 0x1f64f) as u32, // emoji
                6 => self.rng.range(0x300, 0x36f) as u32,  // combining
                7 => self.rng.range(0x0, 0x1f) as u32,     // C0 controls
                _ => self.rng.range(0x10000, 0x10ffff) as u32,
            };
            if let Some(c) = char::from_u32(c) {
                s.push(c);
            }
        }
        s
    }

    /// Arbitrary valid UTF-8 (may contain control characters and NUL).
    pub fn string(&mut self) -> String {
        match self.rng.weighted(&[3, 8, 8, 6, 1]) {
            0 => String::new(),
            1 => {
                let n = self.rng.range(1, 24) as usize;
                self.rng.token(n)
            }
            2 => self.rng.pick(SAMPLES).to_string(),
            3 => {
                let n = self.rng.range(1, 40) as usize;
                self.random_chars(n, false)
            }
            _ => {
                if self.small {
                    self.rng.token(40)
                } else if self.rng.chance(1, 10) {
                    // ~100 KB, multi-byte
                    let unit = "\u{65e5}\u{1f600}x\u{5e9}";
                    unit.repeat(self.rng.range(8_000, 10_000) as usize)
                } else {
                    let n = self.rng.range(200, 3_000) as usize;
                    self.random_chars(n, false)
                }
            }
        }
    }

    /// Printable text (names, titles): no control characters.
    pub fn human(&mut self) -> String {
        match self.rng.weighted(&[5, 8, 5]) {
            0 => {
                let n = self.rng.range(1, 16) as usize;
                self.rng.token(n)
            }
            1 => self.rng.pick(HUMAN).to_string(),
            _ => {
                let n = self.rng.range(1, 24) as usize;
                let s = self.random_chars(n, true);
                if s.trim().is_empty() {
                    "x".into()
                } else {
                    s
                }
            }
        }
    }

    pub fn secret_string(&mut self) -> SecretString {
        SecretString::new(self.string().into())
    }

    pub fn url(&mut self) -> url::Url {
        if self.rng.chance(1, 4) {
            let host = self.rng.token(8).to_lowercase();
            let path = self.rng.token(5);
            format!("https://{host}.example/{path}?k={}", self.rng.below(1000))
                .parse()
                .unwrap()
        } else {
            self.rng.pick(URLS).parse().unwrap()
        }
    }

    /// Seconds + nanoseconds on and around the interesting boundaries.
    pub fn unix_time(&mut self, rfc3339_only: bool) -> (i64, u32) {
        let nanos = match self.rng.below(5) {
            0 => 0,
            1 => 999_999_999,
            2 => 1,
            3 => (self.rng.below(1000) * 1_000_000) as u32,
            _ => self.rng.below(1_000_000_000) as u32,
        };
        // 0000-01-01T00:00:00Z
        const YEAR0: i64 = -62_167_219_200;
        let secs = match self.rng.below(16) {
            0 => 0,
            1 => -1,
            2 => MAX_SECS,
            3 => MAX_SECS - self.rng.below(86_400) as i64,
            4 => {
                if rfc3339_only {
                    YEAR0
                } else {
                    MIN_SECS
                }
            }
            5 => {
                if rfc3339_only {
                    YEAR0 + self.rng.below(1 << 30) as i64
                } else {
                    MIN_SECS + self.rng.below(1 << 30) as i64
                }
            }
            6 => -(self.rng.below(2_000_000_000) as i64),
            7 => i32::MAX as i64,
            8 => i32::MAX as i64 + 1,
            9 => u32::MAX as i64 + 1,
            _ => self.rng.range(1_000_000_000, 4_100_000_000) as i64,
        };
        (secs, nanos)
    }

    fn offset_date_time(&mut self, rfc3339_only: bool) -> OffsetDateTime {
        let (secs, nanos) = self.unix_time(rfc3339_only);
        let t = OffsetDateTime::from_unix_timestamp_nanos(
            secs as i128 * 1_000_000_000 + nanos as i128,
        )
        .expect("generated time in range");
        // sometimes carried in a non-UTC offset (only safely away from
        // the ends of the representable range)
        if secs.abs() < 10_000_000_000 && self.rng.chance(1, 6) {
            let h = self.rng.range(0, 25) as i8 - 12;
            let m = if h >= 0 { 30 } else { -30 };
            let off = if self.rng.bool() {
                time::UtcOffset::from_hms(h, 0, 0)
            } else {
                time::UtcOffset::from_hms(h, if h == 0 { 0 } else { m }, 0)
            }
            .unwrap_or(time::UtcOffset::UTC);
            t.to_offset(off)
        } else {
            t
        }
    }

    pub fn date_time(&mut self) -> UtcDateTime {
        UtcDateTime::from(self.offset_date_time(false))
    }

    /// Years 0000..=9999 only (representable in RFC 3339).
    pub fn date_time_rfc3339(&mut self) -> UtcDateTime {
        UtcDateTime::from(self.offset_date_time(true))
    }

    pub fn vault_flags(&mut self) -> VaultFlags {
        match self.rng.below(6) {
            0 => VaultFlags::empty(),
            1 => VaultFlags::all(),
            2 => VaultFlags::from_bits_truncate(1 << self.rng.below(10)),
            _ => VaultFlags::from_bits_truncate(self.rng.next()),
        }
    }

    fn count_range(&mut self, max_small: u64, max_big: u64) -> usize {
        let big = if self.small { max_small } else { max_big };
        // sizes around the 256 cap of the decoders' pre-allocation and beyond u8
        if !self.small && self.boundary_budget > 0 && self.rng.chance(1, 6) {
            self.boundary_budget -= 1;
            let n = *self.rng.pick(&[255usize, 256, 257, 258, 300, 513, 1024]);
            self.var("collection_size", if n > 256 { "boundary_above_256" } else { "boundary_255_256" });
            return n;
        }
        match self.rng.weighted(&[3, 8, 1]) {
            0 => 0,
            1 => self.rng.range(1, max_small) as usize,
            _ => self.rng.range(max_small, big.max(max_small)) as usize,
        }
    }

    fn age_pair(&mut self) -> (String, String) {
        let (secret, public) = *self.rng.pick(AGE_KEYS);
        (secret.to_string(), public.to_string())
    }

    // ------------------------------------------------------------- crypto

    pub fn aead_pack(&mut self) -> AeadPack {
        let nonce = if self.cycle("Nonce", 2) == 0 {
            self.var("Nonce", "Nonce12");
            Nonce::Nonce12(self.rng.bytes(12).try_into().unwrap())
        } else {
            self.var("Nonce", "Nonce24");
            Nonce::Nonce24(self.rng.bytes(24).try_into().unwrap())
        };
        AeadPack {
            nonce,
            ciphertext: self.blob(),
        }
    }

    pub fn vault_entry(&mut self) -> VaultEntry {
        VaultEntry(self.aead_pack(), self.aead_pack())
    }

    pub fn vault_commit(&mut self) -> VaultCommit {
        VaultCommit(self.commit_hash(), self.vault_entry())
    }

    pub fn cipher(&mut self) -> Cipher {
        match self.cycle("Cipher", 3) {
            0 => {
                self.var("Cipher", "XChaCha20Poly1305");
                Cipher::XChaCha20Poly1305
            }
            1 => {
                self.var("Cipher", "AesGcm256");
                Cipher::AesGcm256
            }
            _ => {
                self.var("Cipher", "X25519");
                Cipher::X25519
            }
        }
    }

    pub fn kdf(&mut self) -> KeyDerivation {
        if self.cycle("KeyDerivation", 2) == 0 {
            self.var("KeyDerivation", "Argon2Id");
            KeyDerivation::Argon2Id
        } else {
            self.var("KeyDerivation", "BalloonHash");
            KeyDerivation::BalloonHash
        }
    }

    // -------------------------------------------------------------- vault

    pub fn shared_access(&mut self) -> SharedAccess {
        match self.cycle("SharedAccess", 3) {
            0 => {
                self.var("SharedAccess", "WriteAccess(empty)");
                SharedAccess::WriteAccess(vec![])
            }
            1 => {
                self.var("SharedAccess", "WriteAccess");
                let n = self.rng.range(1, 4);
                SharedAccess::WriteAccess(
                    (0..n).map(|_| self.age_pair().1).collect(),
                )
            }
            _ => {
                self.var("SharedAccess", "ReadOnly");
                SharedAccess::ReadOnly(self.aead_pack())
            }
        }
    }

    fn version(&mut self) -> u16 {
        match self.rng.below(8) {
            0 => 0,
            1 => u16::MAX,
            2 => 2,
            _ => sos_core::encoding::VERSION,
        }
    }

    pub fn summary(&mut self) -> Summary {
        Summary::new(
            self.version(),
            self.uuid(),
            self.string(),
            self.cipher(),
            self.kdf(),
            self.vault_flags(),
        )
    }

    pub fn header(&mut self) -> Header {
        let mut header = Header::new(
            self.uuid(),
            self.string(),
            self.cipher(),
            self.kdf(),
            self.vault_flags(),
        );
        let meta = self.opt("Header.meta", |g| g.aead_pack());
        header.set_meta(meta);
        // a key-derivation salt is a PHC salt string in practice; the
        // format stores it as an arbitrary string
        let salt = self.opt("Auth.salt", |g| {
            if g.rng.bool() {
                // shape of a PHC salt string (22 base64 characters)
                g.rng.token(22)
            } else {
                g.string()
            }
        });
        header.set_salt(salt);
        let seed = self.opt("Auth.seed", |g| Seed(g.hash32()));
        header.set_seed(seed);

        // `shared_access` and `summary.version` have no setter: go through
        // the type's own serde representation
        let access = self.shared_access();
        let version = self.version();
        let mut v = serde_json::to_value(&header).expect("header to json");
        v["sharedAccess"] = serde_json::to_value(&access).unwrap();
        v["summary"]["version"] = json!(version);
        serde_json::from_value(v).expect("header from json")
    }

    pub fn vault(&mut self) -> Vault {
        let header = self.header();
        let mut vault: Vault = header.into();
        let rows = match self.rng.below(4) {
            0 => 0,
            _ => self.rng.range(1, 5),
        };
        for _ in 0..rows {
            let id = self.uuid();
            let row = self.vault_commit();
            vault.insert_entry(id, row);
        }
        vault
    }

    pub fn vault_meta(&mut self) -> VaultMeta {
        // fields are crate-private: build through serde (RFC 3339 date)
        let date = self.date_time_rfc3339();
        let description = self.string();
        serde_json::from_value(json!({
            "dateCreated": date.to_rfc3339().expect("rfc3339"),
            "description": description,
        }))
        .expect("vault meta from json")
    }

    // ------------------------------------------------------------ secrets

    fn secret_type(&mut self, i: usize) -> SecretType {
        [
            SecretType::Note,
            SecretType::File,
            SecretType::Account,
            SecretType::List,
            SecretType::Pem,
            SecretType::Page,
            SecretType::Signer,
            SecretType::Contact,
            SecretType::Totp,
            SecretType::Card,
            SecretType::Bank,
            SecretType::Link,
            SecretType::Password,
            SecretType::Identity,
            SecretType::Age,
        ][i % 15]
    }

    pub fn urn(&mut self) -> urn::Urn {
        let s = match self.rng.below(4) {
            0 => format!("urn:sos:vault:{}", self.uuid()),
            1 => format!("urn:sos:{}:{}", self.rng.token(6), self.rng.token(9)),
            2 => "urn:example:a123,z456".to_string(),
            _ => format!("urn:uuid:{}", self.uuid()),
        };
        s.parse().expect("valid urn")
    }

    pub fn secret_meta_of(&mut self, kind: SecretType) -> SecretMeta {
        self.var("SecretMeta.kind", &format!("{kind:?}"));
        let mut m = SecretMeta::new(self.string(), kind);
        m.set_date_created(self.date_time());
        m.set_last_updated(self.date_time());
        let n = self.count_range(4, 40);
        let mut tags = HashSet::new();
        for _ in 0..n {
            tags.insert(self.string());
        }
        m.set_tags(tags);
        let urn = self.opt("SecretMeta.urn", |g| g.urn());
        m.set_urn(urn);
        let owner = self.opt("SecretMeta.owner_id", |g| g.string());
        m.set_owner_id(owner);
        m.set_favorite(self.rng.bool());
        if self.rng.bool() {
            *m.flags_mut() = SecretFlags::VERIFY;
            self.var("SecretFlags", "VERIFY");
        } else {
            self.var("SecretFlags", "empty");
        }
        m
    }

    pub fn secret_meta(&mut self) -> SecretMeta {
        let i = self.cycle("SecretMeta.kind", 15);
        let kind = self.secret_type(i);
        self.secret_meta_of(kind)
    }

    pub fn user_data(&mut self, depth: usize) -> UserData {
        let mut ud = UserData::default();
        if depth < 2 {
            let n = match self.rng.below(if depth == 0 { 3 } else { 6 }) {
                0 => self.rng.range(1, 3),
                _ => 0,
            };
            *self.cov.entry(format!("user_data.fields:{}", n)).or_insert(0) +=
                1;
            for _ in 0..n {
                ud.push(self.secret_row(depth + 1));
            }
        }
        let comment = self.opt("UserData.comment", |g| g.string());
        ud.set_comment(comment);
        let note = self.opt("UserData.recovery_note", |g| g.string());
        ud.set_recovery_note(note);
        ud
    }

    pub fn secret_row(&mut self, depth: usize) -> SecretRow {
        let secret = self.secret_at(depth);
        let meta = self.secret_meta_of(secret.kind());
        SecretRow::new(self.uuid(), meta, secret)
    }

    pub fn secret(&mut self) -> Secret {
        self.secret_at(0)
    }

    fn opt_secret(&mut self, key: &str) -> Option<SecretString> {
        self.opt(key, |g| g.secret_string())
    }

    pub fn totp(&mut self) -> totp_rs::TOTP {
        use totp_rs::Algorithm;
        let algorithm = match self.cycle("TOTP.algorithm", 3) {
            0 => {
                self.var("totp::Algorithm", "SHA1");
                Algorithm::SHA1
            }
            1 => {
                self.var("totp::Algorithm", "SHA256");
                Algorithm::SHA256
            }
            _ => {
                self.var("totp::Algorithm", "SHA512");
                Algorithm::SHA512
            }
        };
        let n = self.rng.range(16, 64) as usize;
        totp_rs::TOTP {
            algorithm,
            digits: self.rng.range(6, 8) as usize,
            skew: *self.rng.pick(&[0u8, 1, 2, 255]),
            step: *self.rng.pick(&[30u64, 60, 1, u64::MAX]),
            secret: self.rng.bytes(n),
            issuer: self
                .opt("TOTP.issuer", |g| g.human().replace(':', "_")),
            account_name: self.human().replace(':', "_"),
        }
    }

    pub fn vcard(&mut self) -> vcard4::Vcard {
        let mut b = vcard4::VcardBuilder::new(self.human());
        if self.rng.bool() {
            b = b.nickname(self.human());
        }
        if self.rng.bool() {
            b = b.email(format!("{}@example.com", self.rng.token(6)));
        }
        if self.rng.bool() {
            b = b.telephone(format!("+44 20 {}", self.rng.range(1000, 9999)));
        }
        if self.rng.bool() {
            b = b.title(self.human());
        }
        if self.rng.bool() {
            b = b.note(self.human());
        }
        if self.rng.bool() {
            b = b.org(vec![self.human(), self.human()]);
        }
        if self.rng.bool() {
            b = b.categories(vec![self.human(), self.human()]);
        }
        if self.rng.bool() {
            b = b.url("https://example.com/~me".parse().unwrap());
        }
        b.finish()
    }

    fn secret_at(&mut self, depth: usize) -> Secret {
        let i = self.cycle("Secret.kind", 15);
        let kind = self.secret_type(i);
        self.var("Secret", &format!("{kind:?}"));
        let user_data = self.user_data(depth);
        match kind {
            SecretType::Note => Secret::Note {
                text: self.secret_string(),
                user_data,
            },
            SecretType::File => {
                let content = if self.cycle("FileContent", 2) == 0 {
                    self.var("FileContent", "Embedded");
                    let buffer = self.blob();
                    FileContent::Embedded {
                        name: self.string(),
                        mime: self
                            .rng
                            .pick(&["text/plain", "", "application/pdf"])
                            .to_string(),
                        checksum: vkit::sha256(&buffer),
                        buffer: SecretBox::new(Box::new(buffer)),
                    }
                } else {
                    self.var("FileContent", "External");
                    FileContent::External {
                        name: self.string(),
                        mime: "application/octet-stream".into(),
                        checksum: self.hash32(),
                        size: *self.rng.pick(&[
                            0u64,
                            1,
                            u32::MAX as u64 + 1,
                            u64::MAX,
                            4096,
                        ]),
                        // documented as "never encoded or serialized"
                        path: None,
                    }
                };
                Secret::File { content, user_data }
            }
            SecretType::Account => {
                let n = self.count_range(3, 12);
                Secret::Account {
                    account: self.string(),
                    password: self.secret_string(),
                    url: (0..n).map(|_| self.url()).collect(),
                    user_data,
                }
            }
            SecretType::List => {
                let n = self.count_range(4, 60);
                let mut items = HashMap::new();
                for _ in 0..n {
                    items.insert(self.string(), self.secret_string());
                }
                if items.len() > 256 {
                    self.var("Secret::List", "items>256");
                }
                Secret::List { items, user_data }
            }
            SecretType::Pem => {
                let n = self.count_range(3, 6);
                let certificates = (0..n)
                    .map(|_| {
                        let tag = *self.rng.pick(PEM_TAGS);
                        let n = self.rng.range(1, 600) as usize;
                        pem::Pem::new(tag, self.rng.bytes(n))
                    })
                    .collect();
                Secret::Pem {
                    certificates,
                    user_data,
                }
            }
            SecretType::Page => Secret::Page {
                title: self.string(),
                mime: "text/markdown".into(),
                document: self.secret_string(),
                user_data,
            },
            SecretType::Signer => {
                let key = match self.rng.below(5) {
                    0 => vec![],
                    1 => self.rng.bytes(64),
                    _ => self.rng.bytes(32),
                };
                let private_key = if self.cycle("SecretSigner", 2) == 0 {
                    self.var("SecretSigner", "SinglePartyEcdsa");
                    SecretSigner::SinglePartyEcdsa(SecretBox::new(Box::new(
                        key,
                    )))
                } else {
                    self.var("SecretSigner", "SinglePartyEd25519");
                    SecretSigner::SinglePartyEd25519(SecretBox::new(
                        Box::new(key),
                    ))
                };
                Secret::Signer {
                    private_key,
                    user_data,
                }
            }
            SecretType::Contact => Secret::Contact {
                vcard: Box::new(self.vcard()),
                user_data,
            },
            SecretType::Totp => Secret::Totp {
                totp: self.totp(),
                user_data,
            },
            SecretType::Card => Secret::Card {
                number: self.secret_string(),
                expiry: self.opt("Secret::Card.expiry", |g| g.date_time()),
                cvv: self.secret_string(),
                name: self.opt_secret("Secret::Card.name"),
                atm_pin: self.opt_secret("Secret::Card.atm_pin"),
                user_data,
            },
            SecretType::Bank => Secret::Bank {
                number: self.secret_string(),
                routing: self.secret_string(),
                iban: self.opt_secret("Secret::Bank.iban"),
                swift: self.opt_secret("Secret::Bank.swift"),
                bic: self.opt_secret("Secret::Bank.bic"),
                user_data,
            },
            SecretType::Link => Secret::Link {
                url: SecretString::new(self.url().to_string().into()),
                label: self.opt_secret("Secret::Link.label"),
                title: self.opt_secret("Secret::Link.title"),
                user_data,
            },
            SecretType::Password => Secret::Password {
                password: self.secret_string(),
                name: self.opt_secret("Secret::Password.name"),
                user_data,
            },
            SecretType::Identity => {
                let kinds = [
                    IdentityKind::PersonalIdNumber,
                    IdentityKind::IdCard,
                    IdentityKind::Passport,
                    IdentityKind::DriverLicense,
                    IdentityKind::SocialSecurity,
                    IdentityKind::TaxNumber,
                    IdentityKind::MedicalCard,
                ];
                let k = self.cycle("IdentityKind", 7);
                self.var("IdentityKind", &format!("{}", kinds[k]));
                Secret::Identity {
                    id_kind: kinds[k].clone(),
                    number: self.secret_string(),
                    issue_place: self
                        .opt("Secret::Identity.issue_place", |g| g.string()),
                    issue_date: self
                        .opt("Secret::Identity.issue_date", |g| {
                            g.date_time()
                        }),
                    expiry_date: self
                        .opt("Secret::Identity.expiry_date", |g| {
                            g.date_time()
                        }),
                    user_data,
                }
            }
            SecretType::Age => {
                self.var("AgeVersion", "Version1");
                Secret::Age {
                    version: AgeVersion::Version1,
                    // the decoder insists on a valid x25519 identity
                    key: SecretString::new(self.age_pair().0.into()),
                    user_data,
                }
            }
        }
    }

    // ------------------------------------------------------------- events

    pub fn write_event(&mut self) -> WriteEvent {
        match self.cycle("WriteEvent", 7) {
            0 => {
                self.var("WriteEvent", "CreateVault");
                WriteEvent::CreateVault(self.blob())
            }
            1 => {
                self.var("WriteEvent", "SetVaultName");
                WriteEvent::SetVaultName(self.string())
            }
            2 => {
                self.var("WriteEvent", "SetVaultFlags");
                WriteEvent::SetVaultFlags(self.vault_flags())
            }
            3 => {
                self.var("WriteEvent", "SetVaultMeta");
                WriteEvent::SetVaultMeta(self.aead_pack())
            }
            4 => {
                self.var("WriteEvent", "CreateSecret");
                WriteEvent::CreateSecret(self.uuid(), self.vault_commit())
            }
            5 => {
                self.var("WriteEvent", "UpdateSecret");
                WriteEvent::UpdateSecret(self.uuid(), self.vault_commit())
            }
            _ => {
                self.var("WriteEvent", "DeleteSecret");
                WriteEvent::DeleteSecret(self.uuid())
            }
        }
    }

    pub fn account_event(&mut self) -> AccountEvent {
        match self.cycle("AccountEvent", 8) {
            0 => {
                self.var("AccountEvent", "RenameAccount");
                AccountEvent::RenameAccount(self.string())
            }
            1 => {
                self.var("AccountEvent", "UpdateIdentity");
                AccountEvent::UpdateIdentity(self.blob())
            }
            2 => {
                self.var("AccountEvent", "CreateFolder");
                AccountEvent::CreateFolder(self.uuid(), self.blob())
            }
            3 => {
                self.var("AccountEvent", "RenameFolder");
                AccountEvent::RenameFolder(self.uuid(), self.string())
            }
            4 => {
                self.var("AccountEvent", "UpdateFolder");
                AccountEvent::UpdateFolder(self.uuid(), self.blob())
            }
            5 => {
                self.var("AccountEvent", "CompactFolder");
                AccountEvent::CompactFolder(self.uuid(), self.blob())
            }
            6 => {
                self.var("AccountEvent", "ChangeFolderPassword");
                AccountEvent::ChangeFolderPassword(self.uuid(), self.blob())
            }
            _ => {
                self.var("AccountEvent", "DeleteFolder");
                AccountEvent::DeleteFolder(self.uuid())
            }
        }
    }

    pub fn device_meta(&mut self) -> DeviceMetaData {
        let v = match self.rng.below(4) {
            0 => json!({}),
            1 => json!({"hardware": {"cpus": 8, "hostname": self.human()}}),
            2 => json!({
                self.human(): {"os": self.human(), "n": self.rng.next(), "b": true, "z": null},
                "a": [1, 2, {"k": self.string()}],
            }),
            _ => json!({"name": self.string(), "neg": -1, "big": u64::MAX}),
        };
        serde_json::from_value(v).expect("device meta from json")
    }

    pub fn trusted_device(&mut self) -> TrustedDevice {
        let pk: DevicePublicKey = self.hash32().into();
        let info = self.device_meta();
        let date = self.offset_date_time(false);
        TrustedDevice::new(pk, Some(info), Some(date))
    }

    pub fn device_event(&mut self) -> DeviceEvent {
        if self.cycle("DeviceEvent", 2) == 0 {
            self.var("DeviceEvent", "Trust");
            DeviceEvent::Trust(self.trusted_device())
        } else {
            self.var("DeviceEvent", "Revoke");
            DeviceEvent::Revoke(self.hash32().into())
        }
    }

    pub fn secret_path(&mut self) -> SecretPath {
        SecretPath(self.uuid(), self.uuid())
    }

    pub fn file_name(&mut self) -> ExternalFileName {
        self.hash32().into()
    }

    pub fn external_file(&mut self) -> ExternalFile {
        ExternalFile::new(self.secret_path(), self.file_name())
    }

    pub fn file_event(&mut self) -> FileEvent {
        match self.cycle("FileEvent", 3) {
            0 => {
                self.var("FileEvent", "CreateFile");
                FileEvent::CreateFile(self.secret_path(), self.file_name())
            }
            1 => {
                self.var("FileEvent", "MoveFile");
                FileEvent::MoveFile {
                    name: self.file_name(),
                    from: self.secret_path(),
                    dest: self.secret_path(),
                }
            }
            _ => {
                self.var("FileEvent", "DeleteFile");
                FileEvent::DeleteFile(self.secret_path(), self.file_name())
            }
        }
    }

    /// Event record with an arbitrary payload.
    pub fn event_record(&mut self) -> EventRecord {
        let bytes = self.blob();
        self.event_record_with(bytes)
    }

    pub fn event_record_with(&mut self, bytes: Vec<u8>) -> EventRecord {
        let commit = if self.rng.bool() {
            CommitHash(CommitTree::hash(&bytes))
        } else {
            self.commit_hash()
        };
        EventRecord::new(self.date_time(), self.commit_hash(), commit, bytes)
    }

    /// Event record whose time is representable in RFC 3339 (database).
    pub fn event_record_rfc3339(&mut self) -> EventRecord {
        let mut r = self.event_record();
        r.set_time(self.date_time_rfc3339());
        r
    }

    // ------------------------------------------------------------ commits

    pub fn commit_proof(&mut self) -> CommitProof {
        match self.cycle("CommitProof.shape", 4) {
            0 => {
                self.var("CommitProof.shape", "default");
                CommitProof::default()
            }
            1 | 2 => {
                // a real proof from a real tree
                self.var("CommitProof.shape", "from_tree");
                let n = self.rng.range(1, if self.small { 9 } else { 70 });
                let mut leaves: Vec<[u8; 32]> =
                    (0..n).map(|_| self.hash32()).collect();
                let mut tree = CommitTree::new();
                tree.append(&mut leaves);
                tree.commit();
                if self.rng.bool() {
                    tree.head().expect("head")
                } else {
                    let k = self.rng.range(1, n.min(4)) as usize;
                    let mut idx: Vec<usize> =
                        (0..k).map(|_| self.rng.usize(n as usize)).collect();
                    idx.sort();
                    idx.dedup();
                    tree.proof(&idx).expect("proof")
                }
            }
            _ => {
                // synthetic: any hashes, boundary length / indices
                self.var("CommitProof.shape", "synthetic");
                let k = self.count_range(3, 40);
                let hashes: Vec<[u8; 32]> =
                    (0..k).map(|_| self.hash32()).collect();
                let n = self.count_range(3, 40);
                CommitProof {
                    root: self.commit_hash(),
                    proof: MerkleProof::<Sha256>::new(hashes),
                    length: *self.rng.pick(&[
                        0usize,
                        1,
                        u32::MAX as usize,
                        u32::MAX as usize + 1,
                        usize::MAX,
                        77,
                    ]),
                    indices: (0..n)
                        .map(|_| {
                            *self.rng.pick(&[
                                0usize,
                                1,
                                usize::MAX,
                                u32::MAX as usize + 1,
                                12345,
                            ])
                        })
                        .collect(),
                }
            }
        }
    }

    pub fn commit_state(&mut self) -> CommitState {
        CommitState(self.commit_hash(), self.commit_proof())
    }

    pub fn comparison(&mut self) -> Comparison {
        match self.cycle("Comparison", 3) {
            0 => {
                self.var("Comparison", "Equal");
                Comparison::Equal
            }
            1 => {
                self.var("Comparison", "Contains");
                let n = self.count_range(3, 300);
                Comparison::Contains(
                    (0..n)
                        .map(|_| match self.rng.below(4) {
                            0 => 0,
                            1 => usize::MAX,
                            _ => self.rng.below(1 << 40) as usize,
                        })
                        .collect(),
                )
            }
            _ => {
                self.var("Comparison", "Unknown");
                Comparison::Unknown
            }
        }
    }

    pub fn checked_patch(&mut self) -> CheckedPatch {
        if self.cycle("CheckedPatch", 2) == 0 {
            self.var("CheckedPatch", "Success");
            CheckedPatch::Success(self.commit_proof())
        } else {
            self.var("CheckedPatch", "Conflict");
            CheckedPatch::Conflict {
                head: self.commit_proof(),
                contains: self
                    .opt("CheckedPatch::Conflict.contains", |g| {
                        g.commit_proof()
                    }),
            }
        }
    }

    pub fn event_log_type(&mut self) -> EventLogType {
        match self.cycle("EventLogType", 5) {
            0 => {
                self.var("EventLogType", "Identity");
                EventLogType::Identity
            }
            1 => {
                self.var("EventLogType", "Account");
                EventLogType::Account
            }
            2 => {
                self.var("EventLogType", "Device");
                EventLogType::Device
            }
            3 => {
                self.var("EventLogType", "Files");
                EventLogType::Files
            }
            _ => {
                self.var("EventLogType", "Folder");
                EventLogType::Folder(self.uuid())
            }
        }
    }

    pub fn origin(&mut self) -> Origin {
        Origin::new(self.string(), self.url())
    }

    pub fn account_id(&mut self) -> AccountId {
        let b: [u8; 20] = match self.rng.below(10) {
            0 => [0; 20],
            1 => [0xff; 20],
            _ => self.rng.bytes(20).try_into().unwrap(),
        };
        b.into()
    }

    // --------------------------------------------------------------- sync

    fn records(&mut self) -> Vec<EventRecord> {
        let n = self.count_range(3, 24);
        (0..n).map(|_| self.event_record()).collect()
    }

    pub fn patch<T>(&mut self) -> Patch<T> {
        Patch::new(self.records())
    }

    pub fn diff<T>(&mut self) -> Diff<T> {
        Diff {
            patch: self.patch(),
            checkpoint: self.commit_proof(),
            last_commit: self
                .opt("Diff.last_commit", |g| g.commit_hash()),
        }
    }

    pub fn maybe_diff<T>(&mut self) -> MaybeDiff<Diff<T>> {
        if self.cycle("MaybeDiff", 2) == 0 {
            self.var("MaybeDiff", "Diff");
            MaybeDiff::Diff(self.diff())
        } else {
            self.var("MaybeDiff", "Compare");
            MaybeDiff::Compare(
                self.opt("MaybeDiff::Compare.0", |g| g.commit_state()),
            )
        }
    }

    pub fn sync_status(&mut self) -> SyncStatus {
        let n = self.count_range(3, 20);
        let mut folders = IndexMap::new();
        for _ in 0..n {
            folders.insert(self.uuid(), self.commit_state());
        }
        SyncStatus {
            root: self.commit_hash(),
            identity: self.commit_state(),
            account: self.commit_state(),
            device: self.commit_state(),
            files: self.opt("SyncStatus.files", |g| g.commit_state()),
            folders,
        }
    }

    pub fn sync_diff(&mut self) -> SyncDiff {
        let n = self.count_range(3, 10);
        let mut folders = IndexMap::new();
        for _ in 0..n {
            folders.insert(self.uuid(), self.maybe_diff());
        }
        SyncDiff {
            identity: self.opt("SyncDiff.identity", |g| g.maybe_diff()),
            account: self.opt("SyncDiff.account", |g| g.maybe_diff()),
            device: self.opt("SyncDiff.device", |g| g.maybe_diff()),
            files: self.opt("SyncDiff.files", |g| g.maybe_diff()),
            folders,
        }
    }

    pub fn sync_compare(&mut self) -> SyncCompare {
        let n = self.count_range(3, 20);
        let mut folders = IndexMap::new();
        for _ in 0..n {
            folders.insert(self.uuid(), self.comparison());
        }
        SyncCompare {
            identity: self.opt("SyncCompare.identity", |g| g.comparison()),
            account: self.opt("SyncCompare.account", |g| g.comparison()),
            device: self.opt("SyncCompare.device", |g| g.comparison()),
            files: self.opt("SyncCompare.files", |g| g.comparison()),
            folders,
        }
    }

    pub fn sync_packet(&mut self) -> SyncPacket {
        SyncPacket {
            status: self.sync_status(),
            diff: self.sync_diff(),
            compare: self.opt("SyncPacket.compare", |g| g.sync_compare()),
        }
    }

    pub fn create_set(&mut self) -> CreateSet {
        let n = self.count_range(3, 10);
        let mut folders = HashMap::new();
        for _ in 0..n {
            folders.insert(self.uuid(), self.patch());
        }
        CreateSet {
            identity: self.patch(),
            account: self.patch(),
            device: self.patch(),
            files: self.patch(),
            folders,
        }
    }

    pub fn update_set(&mut self) -> UpdateSet {
        let n = self.count_range(3, 10);
        let mut folders = HashMap::new();
        for _ in 0..n {
            folders.insert(self.uuid(), self.diff());
        }
        UpdateSet {
            identity: self.opt("UpdateSet.identity", |g| g.diff()),
            account: self.opt("UpdateSet.account", |g| g.diff()),
            device: self.opt("UpdateSet.device", |g| g.diff()),
            files: self.opt("UpdateSet.files", |g| g.diff()),
            folders,
        }
    }

    pub fn tracked_folder_change(&mut self) -> TrackedFolderChange {
        match self.cycle("TrackedFolderChange", 3) {
            0 => {
                self.var("TrackedFolderChange", "Created");
                TrackedFolderChange::Created(self.uuid())
            }
            1 => {
                self.var("TrackedFolderChange", "Updated");
                TrackedFolderChange::Updated(self.uuid())
            }
            _ => {
                self.var("TrackedFolderChange", "Deleted");
                TrackedFolderChange::Deleted(self.uuid())
            }
        }
    }

    pub fn tracked_account_change(&mut self) -> TrackedAccountChange {
        match self.cycle("TrackedAccountChange", 3) {
            0 => {
                self.var("TrackedAccountChange", "FolderCreated");
                TrackedAccountChange::FolderCreated(self.uuid())
            }
            1 => {
                self.var("TrackedAccountChange", "FolderUpdated");
                TrackedAccountChange::FolderUpdated(self.uuid())
            }
            _ => {
                self.var("TrackedAccountChange", "FolderDeleted");
                TrackedAccountChange::FolderDeleted(self.uuid())
            }
        }
    }

    pub fn tracked_device_change(&mut self) -> TrackedDeviceChange {
        if self.cycle("TrackedDeviceChange", 2) == 0 {
            self.var("TrackedDeviceChange", "Trusted");
            TrackedDeviceChange::Trusted(self.hash32().into())
        } else {
            self.var("TrackedDeviceChange", "Revoked");
            TrackedDeviceChange::Revoked(self.hash32().into())
        }
    }

    pub fn tracked_file_change(&mut self) -> TrackedFileChange {
        match self.cycle("TrackedFileChange", 3) {
            0 => {
                self.var("TrackedFileChange", "Created");
                TrackedFileChange::Created(
                    self.secret_path(),
                    self.file_name(),
                )
            }
            1 => {
                self.var("TrackedFileChange", "Moved");
                TrackedFileChange::Moved {
                    name: self.file_name(),
                    from: self.secret_path(),
                    dest: self.secret_path(),
                }
            }
            _ => {
                self.var("TrackedFileChange", "Deleted");
                TrackedFileChange::Deleted(
                    self.secret_path(),
                    self.file_name(),
                )
            }
        }
    }

    fn folder_changes(&mut self) -> IndexSet<TrackedFolderChange> {
        let n = self.count_range(3, 12);
        (0..n).map(|_| self.tracked_folder_change()).collect()
    }

    pub fn tracked_changes(&mut self) -> TrackedChanges {
        let n = self.count_range(3, 8);
        let mut folders = HashMap::new();
        for _ in 0..n {
            folders.insert(self.uuid(), self.folder_changes());
        }
        let nd = self.count_range(3, 8);
        let na = self.count_range(3, 8);
        let nf = self.count_range(3, 8);
        TrackedChanges {
            identity: self.folder_changes(),
            device: (0..nd).map(|_| self.tracked_device_change()).collect(),
            account: (0..na).map(|_| self.tracked_account_change()).collect(),
            files: (0..nf).map(|_| self.tracked_file_change()).collect(),
            folders,
        }
    }

    pub fn merge_outcome(&mut self) -> MergeOutcome {
        MergeOutcome {
            changes: *self.rng.pick(&[0u64, 1, 7, u32::MAX as u64 + 1, u64::MAX]),
            tracked: self.tracked_changes(),
            // "must never be serialized over the wire"
            external_files: IndexSet::new(),
        }
    }

    pub fn scan_request(&mut self) -> ScanRequest {
        ScanRequest {
            log_type: self.event_log_type(),
            limit: *self.rng.pick(&[0u16, 1, 32, 256, u16::MAX]),
            offset: *self.rng.pick(&[0u64, 1, 16, u32::MAX as u64 + 1, u64::MAX]),
        }
    }

    pub fn scan_response(&mut self) -> ScanResponse {
        let n = self.count_range(3, 64);
        ScanResponse {
            first_proof: self
                .opt("ScanResponse.first_proof", |g| g.commit_proof()),
            proofs: (0..n).map(|_| self.commit_proof()).collect(),
            offset: *self.rng.pick(&[0u64, 1, 32, u64::MAX]),
        }
    }

    pub fn diff_request(&mut self) -> DiffRequest {
        DiffRequest {
            log_type: self.event_log_type(),
            from_hash: self.opt("DiffRequest.from_hash", |g| g.commit_hash()),
        }
    }

    pub fn diff_response(&mut self) -> DiffResponse {
        DiffResponse {
            patch: self.records(),
            checkpoint: self.commit_proof(),
        }
    }

    pub fn patch_request(&mut self) -> PatchRequest {
        PatchRequest {
            log_type: self.event_log_type(),
            commit: self.opt("PatchRequest.commit", |g| g.commit_hash()),
            proof: self.commit_proof(),
            patch: self.records(),
        }
    }

    pub fn patch_response(&mut self) -> PatchResponse {
        PatchResponse {
            checked_patch: self.checked_patch(),
        }
    }

    pub fn file_set(&mut self) -> FileSet {
        let n = self.count_range(4, 200);
        FileSet((0..n).map(|_| self.external_file()).collect())
    }

    pub fn file_transfers_set(&mut self) -> FileTransfersSet {
        FileTransfersSet {
            uploads: self.file_set(),
            downloads: self.file_set(),
        }
    }

    pub fn network_change_event(&mut self) -> NetworkChangeEvent {
        let id = self.account_id();
        NetworkChangeEvent::new(
            &id,
            self.string(),
            self.commit_hash(),
            self.merge_outcome(),
        )
    }
}

/// `CreateSet` has no `Clone`.
pub fn clone_create_set(v: &CreateSet) -> CreateSet {
    CreateSet {
        identity: v.identity.clone(),
        account: v.account.clone(),
        device: v.device.clone(),
        files: v.files.clone(),
        folders: v.folders.clone(),
    }
}
