//! C18 — backup archives restore the same account and cannot escape
//! their target.
//!
//! Round trip: accounts from generated histories (folders, flags,
//! descriptions, attachments) on {v2 file system, v3 sqlite}: export,
//! import into EMPTY storage, sign in with the same password, compare the
//! decrypted snapshot and the attachment bytes.
//! Tamper (one entry mutation at a time, archive rebuilt with the repo's
//! own ZipWriter): content byte flipped, manifest checksum edited, entry
//! dropped, entry renamed to `../x`, `/abs/x`, `C:\x`, `files/<uuid>/../../x`,
//! a very long name, duplicate names. After the import attempt: if it
//! failed, no account may have appeared in the target; in every case the
//! directory tree OUTSIDE the target must be unchanged.
use crate::common::*;
use serde_json::json;
use sos_account::{Account, LocalAccount};
use sos_archive::{ZipReader, ZipWriter};
use std::collections::BTreeMap;
use std::path::{Path, PathBuf};
use tokio::io::BufReader;
use vkit::{Args, Fnv, Reporter, Rng};
use vmodel::ops::Weights;
use vmodel::session::Session;
use vmodel::setup::{self, Backend, Config};
use vmodel::snapshot::{self, diff_views};

async fn read_entries(path: &Path) -> Result<Vec<(String, Vec<u8>)>, String> {
    let f = sos_vfs::File::open(path).await.map_err(|e| e.to_string())?;
    let mut zip = ZipReader::new(BufReader::new(f)).await.map_err(|e| e.to_string())?;
    let mut names = vec![];
    for e in zip.inner().file().entries() {
        if let Ok(n) = e.filename().as_str() {
            names.push(n.to_string());
        }
    }
    let mut out = vec![];
    for n in names {
        if let Ok(Some(buf)) = zip.by_name(&n).await {
            out.push((n, buf));
        }
    }
    Ok(out)
}

async fn write_entries(path: &Path, entries: &[(String, Vec<u8>)]) -> Result<(), String> {
    let f = tokio::fs::File::create(path).await.map_err(|e| e.to_string())?;
    let mut w = ZipWriter::new(f);
    for (n, b) in entries {
        w.add_file(n, b).await.map_err(|e| format!("add {n}: {e}"))?;
    }
    let inner = w.finish().await.map_err(|e| e.to_string())?;
    let mut inner = inner.into_inner();
    use tokio::io::AsyncWriteExt;
    inner.flush().await.map_err(|e| e.to_string())?;
    Ok(())
}

fn tree(root: &Path, skip: &Path) -> BTreeMap<String, (u64, [u8; 32])> {
    let mut out = BTreeMap::new();
    for e in walkdir::WalkDir::new(root).into_iter().flatten() {
        if e.path().starts_with(skip) {
            continue;
        }
        if e.file_type().is_file() {
            if let Ok(data) = std::fs::read(e.path()) {
                out.insert(e.path().strip_prefix(root).unwrap_or(e.path()).display().to_string(), (data.len() as u64, vkit::sha256(&data)));
            }
        }
    }
    out
}

async fn accounts_in(dir: &Path, backend: Backend) -> usize {
    match setup::target_for(dir, backend).await {
        Ok(t) => {
            let n = t.list_accounts().await.map(|a| a.len()).unwrap_or(0);
            setup::close_target(t).await;
            n
        }
        Err(_) => 0,
    }
}

pub async fn run(args: &Args, rep: &mut Reporter) {
    let histories = args.by_tier(1usize, 8usize);
    let steps = args.by_tier(26usize, 50usize);
    let mut rng = Rng::new(args.shard_seed() ^ 0xC18);
    for (ci, config) in Config::matrix().iter().enumerate().filter(|(i, _)| i % 2 == 0) {
        let pdir = args.dir.join(format!("pristine{ci}"));
        let pristine = match setup::create_pristine(&pdir, config, &mut rng).await {
            Ok(p) => p,
            Err(e) => {
                rep.inconclusive(&format!("cannot create pristine account: {e}"));
                continue;
            }
        };
        for h in 0..histories {
            let hdir = args.dir.join(format!("h{ci}_{h}"));
            let mut w = Weights::c01();
            w.file_create = 8;
            w.flags = 5;
            w.describe = 5;
            w.create_folder = 5;
            let mut s = match Session::start(&pristine, &hdir, rng.fork(h as u64), w).await {
                Ok(s) => s,
                Err(e) => {
                    rep.inconclusive(&format!("cannot start session: {e}"));
                    continue;
                }
            };
            s.driver.allow_large = false;
            s.driver.max_file_bytes = 30_000;
            // folders that are local-first, excluded from sync, or both, are part of the account too
            s.driver.flag_pool = vec![sos_core::VaultFlags::LOCAL.bits(), sos_core::VaultFlags::NO_SYNC.bits(), sos_core::VaultFlags::NO_SYNC.bits()];
            let backend = config.backend.name();
            let version = if config.backend == Backend::Fs { "v2" } else { "v3" };
            let mut hash = Fnv::new();
            for _ in 0..steps {
                let out = s.step().await;
                hash.str(&out.op);
            }
            let ctx = json!({"config": config.name(), "history": h, "last_ops": tail(&s.driver.log, 10)});
            let (before, _) = match s.live_view().await {
                Ok(v) => v,
                Err(e) => {
                    rep.inconclusive(&format!("snapshot before export: {} {}", e.class, e.detail));
                    s.finish().await;
                    continue;
                }
            };
            let file_plain = s.driver.file_plain.clone();
            let archive = hdir.join("backup.zip");
            if let Err(e) = s.account().export_backup_archive(&archive).await {
                rep.violation(&format!("C18:{backend}:export_failed"), &format!("export_backup_archive failed: {e}"), ctx.clone());
                s.finish().await;
                continue;
            }
            rep.count(&format!("exports:{version}"), 1);
            let password = s.driver.password.clone();
            let account_id = pristine.account_id;
            if let Some(o) = s.opened.take() {
                o.close().await;
            }

            // ---- round trip into empty storage ------------------------------------------
            let restore_parent = hdir.join("restore-parent");
            let restore_dir = restore_parent.join("target");
            let _ = std::fs::create_dir_all(&restore_parent);
            let ok_import = match setup::target_for(&restore_dir, config.backend).await {
                Ok(t) => {
                    let r = LocalAccount::import_backup_archive(&archive, &t).await;
                    setup::close_target(t).await;
                    r.map(|a| a.len()).map_err(|e| format!("{e}"))
                }
                Err(e) => Err(format!("{e}")),
            };
            match ok_import {
                Ok(n) => {
                    rep.count("roundtrip_imports", 1);
                    if n != 1 {
                        rep.violation(&format!("C18:{backend}:roundtrip:accounts_imported_{n}"), &format!("import of a one-account archive returned {n} accounts"), ctx.clone());
                    }
                    match setup::open(&restore_dir, config.backend, &account_id, &password).await {
                        Ok(mut o) => {
                            match snapshot::live(&mut o.account).await {
                                Ok((after, listing)) => {
                                    report_diffs(rep, "C18", backend, "restored_listing", "import", &listing, &ctx);
                                    let d = diff_views(&before, &after);
                                    report_diffs(rep, "C18", backend, "restored_vs_exported", "import", &d, &ctx);
                                    rep.count("roundtrip_views_compared", 1);
                                    // attachments
                                    for (fid, fv) in &after.folders {
                                        for sid in fv.secrets.keys() {
                                            if let Some(plain) = file_plain.get(sid) {
                                                if let Ok((row, _)) = o.account.read_secret(sid, Some(fid)).await {
                                                    if let sos_vault::secret::Secret::File { content: sos_vault::secret::FileContent::External { checksum, .. }, .. } = row.secret() {
                                                        let name: sos_core::ExternalFileName = (*checksum).into();
                                                        rep.count("attachments_compared", 1);
                                                        match o.account.download_file(fid, sid, &name).await {
                                                            Ok(bytes) => {
                                                                if &bytes != plain {
                                                                    rep.violation(&format!("C18:{backend}:roundtrip:attachment_differs"), &format!("attachment of secret {sid} decrypts to different bytes after restore"), ctx.clone());
                                                                }
                                                            }
                                                            Err(e) if e.to_string().contains("Excessive work parameter") => rep.count("decrypt_skipped_machine_too_loaded", 1),
                                                            Err(e) => rep.violation(&format!("C18:{backend}:roundtrip:attachment_missing"), &format!("attachment of secret {sid} cannot be read after restore: {e}"), ctx.clone()),
                                                        }
                                                    }
                                                }
                                            }
                                        }
                                    }
                                }
                                Err(e) => report_snap_error(rep, "C18", backend, "restored", "import", &e, &ctx),
                            }
                            o.close().await;
                        }
                        Err(e) => rep.violation(&format!("C18:{backend}:roundtrip:sign_in_failed"), &format!("restored account does not sign in with the same password: {e}"), ctx.clone()),
                    }
                }
                Err(e) => rep.violation(&format!("C18:{backend}:roundtrip:import_failed"), &format!("import of the exported archive into empty storage failed: {e}"), ctx.clone()),
            }
            rep.count("exported_folders", before.folders.len() as u64);
            rep.count("exported_folders_with_no_sync", before.folders.values().filter(|f| f.flags & sos_core::VaultFlags::NO_SYNC.bits() != 0).count() as u64);
            rep.count("exported_folders_local", before.folders.values().filter(|f| f.flags & sos_core::VaultFlags::LOCAL.bits() != 0).count() as u64);
            rep.case(hash.finish(), before.folders.values().map(|f| f.secrets.len()).sum::<usize>() > 2);
            if h == 0 {
                rep.sample(json!({"kind": "round trip", "archive_version": version, "folders": before.folders.len(), "secrets": before.folders.values().map(|f| f.secrets.len()).sum::<usize>(), "ctx": ctx}));
            }
            let _ = std::fs::remove_dir_all(&restore_dir);

            // ---- tampered archives ---------------------------------------------------------
            let entries = match read_entries(&archive).await {
                Ok(e) => e,
                Err(e) => {
                    rep.inconclusive(&format!("cannot re-read archive: {e}"));
                    s.finish().await;
                    continue;
                }
            };
            rep.max("max:archive_entries", entries.len() as u64);
            let mut mutants: Vec<(String, Vec<(String, Vec<u8>)>, bool)> = vec![]; // (class, entries, must_fail)
            for (i, (name, data)) in entries.iter().enumerate() {
                let is_manifest = name.ends_with("manifest.json") || name == "sos-manifest.json";
                if !data.is_empty() && !is_manifest {
                    let mut e = entries.clone();
                    let p = rng.usize(data.len());
                    e[i].1[p] ^= 1 << rng.below(8);
                    // blobs are not covered by a manifest checksum (their name is their
                    // digest; C16/C17 cover them): informational only
                    let class = if name.contains("files/") || name.contains("blobs/") { "blob_content_byte" } else { "entry_content_byte" };
                    mutants.push((class.to_string(), e, class == "entry_content_byte"));
                }
                if is_manifest {
                    // edit a checksum: change one hex digit inside the manifest
                    let text = String::from_utf8_lossy(data).to_string();
                    if let Some(pos) = text.find("checksum") {
                        let bytes = text.as_bytes();
                        if let Some(off) = bytes[pos..].iter().position(|b| b.is_ascii_hexdigit() && *b != b'c' && *b != b'e').map(|o| o + pos + 12) {
                            if off < bytes.len() && bytes[off].is_ascii_hexdigit() {
                                let mut nb = bytes.to_vec();
                                nb[off] = if nb[off] == b'0' { b'1' } else { b'0' };
                                let mut e = entries.clone();
                                e[i].1 = nb;
                                mutants.push(("manifest_checksum_edit".to_string(), e, true));
                            }
                        }
                    }
                }
                // drop the entry (manifest names it but it is missing)
                if !is_manifest {
                    let mut e = entries.clone();
                    e.remove(i);
                    let class = if name.contains("files/") || name.contains("blobs/") { "blob_entry_missing" } else { "entry_missing" };
                    mutants.push((class.to_string(), e, class == "entry_missing"));
                }
            }
            // hostile names: add extra entries and rename blob entries
            let evil_names = ["../escaped.txt", "../../escaped2.txt", "/abs-escaped.txt", "C:\\escaped.txt", "files/00000000-0000-4000-8000-000000000000/../../../escaped3.txt", "..\\..\\escaped4.txt", &"x".repeat(300)];
            for evil in evil_names {
                let mut e = entries.clone();
                e.push((evil.to_string(), b"ESCAPED".to_vec()));
                mutants.push((format!("extra_entry_name:{}", &evil.chars().take(12).collect::<String>().replace(['/', '\\'], "_")), e, false));
            }
            // traversal AFTER a prefix that validates (a real `files/<folder>/<secret>/` or
            // `blobs/...` entry of this archive, or a well-formed id), at every depth that can
            // land between the target and the watched directory
            {
                let real = entries.iter().map(|(n, _)| n.clone()).find(|n| (n.starts_with("files/") || n.starts_with("blobs/")) && n.matches('/').count() >= 3);
                let mut prefixes: Vec<String> = vec!["files/00000000-0000-4000-8000-000000000000".into(), "blobs/00000000-0000-4000-8000-000000000000".into()];
                if let Some(r) = real {
                    let parts: Vec<&str> = r.split('/').collect();
                    prefixes.push(parts[..2].join("/"));
                    prefixes.push(parts[..3].join("/"));
                    prefixes.push(parts[..parts.len() - 1].join("/"));
                }
                for (pi, prefix) in prefixes.iter().enumerate() {
                    for ups in 3..=8usize {
                        let evil = format!("{prefix}/{}escaped-{pi}-{ups}.bin", "../".repeat(ups));
                        let mut e = entries.clone();
                        e.push((evil, b"ESCAPED".to_vec()));
                        mutants.push((format!("traversal_after_valid_prefix:{}", if pi < 2 { "wellformed_id" } else { "real_entry" }), e, false));
                    }
                }
            }
            if let Some(i) = entries.iter().position(|(n, _)| n.starts_with("files/") || n.starts_with("blobs/")) {
                for evil in ["files/../../escaped5.bin", "blobs/../../escaped6.bin"] {
                    let mut e = entries.clone();
                    e[i].0 = evil.to_string();
                    mutants.push(("blob_renamed_traversal".to_string(), e, false));
                }
            }
            if let Some((n, d)) = entries.iter().find(|(n, _)| !n.ends_with("manifest.json")).cloned() {
                let mut e = entries.clone();
                let mut d2 = d.clone();
                if !d2.is_empty() {
                    d2[0] ^= 0xff;
                }
                e.push((n, d2));
                mutants.push(("duplicate_entry_name".to_string(), e, false));
            }
            if !args.thorough() && mutants.len() > 40 {
                // keep every class, sample within classes
                let mut per: BTreeMap<String, usize> = BTreeMap::new();
                mutants.retain(|(c, _, _)| {
                    let e = per.entry(c.clone()).or_insert(0);
                    *e += 1;
                    *e <= 5 || c.starts_with("traversal_after_valid_prefix")
                });
            }
            for (mi, (class, ents, must_fail)) in mutants.into_iter().enumerate() {
                let mdir = hdir.join(format!("m{mi}"));
                let parent = mdir.join("parent");
                let target_dir = parent.join("target");
                let _ = std::fs::create_dir_all(&target_dir);
                let bad = mdir.join("bad.zip");
                if let Err(e) = write_entries(&bad, &ents).await {
                    rep.count("mutant_archives_not_writable", 1);
                    let _ = e;
                    let _ = std::fs::remove_dir_all(&mdir);
                    continue;
                }
                let outside_before = tree(&mdir, &target_dir);
                let result = match setup::target_for(&target_dir, config.backend).await {
                    Ok(t) => {
                        let r = tokio::spawn({
                            let bad = bad.clone();
                            let t2 = t.clone();
                            async move { LocalAccount::import_backup_archive(&bad, &t2).await.map(|a| a.len()).map_err(|e| format!("{e}")) }
                        })
                        .await;
                        setup::close_target(t).await;
                        r
                    }
                    Err(e) => Ok(Err(format!("{e}"))),
                };
                rep.count(&format!("tamper:{class}"), 1);
                let mut hh = Fnv::new();
                hh.str(&class).u64(mi as u64).u64(hash.finish());
                rep.case(hh.finish(), true);
                let mctx = json!({"ctx": ctx, "mutation": class, "archive_version": version});
                match &result {
                    Err(join) => {
                        rep.violation(&format!("C18:{backend}:tamper:{class}:import_panicked"), &format!("importing a tampered archive ({class}) panicked: {join}"), mctx.clone());
                    }
                    Ok(Ok(_n)) => {
                        rep.count(&format!("tamper_accepted:{class}"), 1);
                        if must_fail {
                            rep.violation(&format!("C18:{backend}:tamper:{class}:accepted"), &format!("an archive whose {class} does not match its manifest was imported without error"), mctx.clone());
                        }
                    }
                    Ok(Err(_e)) => {
                        rep.count(&format!("tamper_rejected:{class}"), 1);
                        // rejected => no account may exist in the target
                        let n = accounts_in(&target_dir, config.backend).await;
                        if n > 0 {
                            rep.violation(&format!("C18:{backend}:tamper:{class}:rejected_but_account_created"), &format!("import of a tampered archive ({class}) failed but left {n} account(s) in the target"), mctx.clone());
                        }
                    }
                }
                // nothing written outside the target
                let outside_after = tree(&mdir, &target_dir);
                if outside_after != outside_before {
                    let new: Vec<&String> = outside_after.keys().filter(|k| !outside_before.contains_key(*k)).collect();
                    rep.violation(&format!("C18:{backend}:tamper:{class}:wrote_outside_target"), &format!("importing an archive with a hostile entry name wrote outside the import target: {new:?}"), mctx.clone());
                }
                rep.count("outside_tree_checks", 1);
                let _ = std::fs::remove_dir_all(&mdir);
            }
            s.finish().await;
        }
        let _ = std::fs::remove_dir_all(&pdir);
    }
}
