//! Real HTTP transport helpers: an in-process `sos_server::Server` on
//! loopback (assembled exactly as `tests/utils` does: `ServerConfig::load`,
//! `config.backend()`, `State::new`, `Server::start` with an
//! `axum_server::Handle`), devices that own an account on that server
//! (`LocalAccount` + the repo's `RemoteBridge`/`HttpClient`), a raw request
//! helper that can send ANY method / path / headers / body, bearer
//! signing exactly as `network_client::encode_device_signature` does, and a
//! fingerprint of the server state used to decide "state untouched".
#![allow(dead_code)]
use secrecy::SecretString;
use serde_json::{json, Value};
use sos_account::{Account, LocalAccount};
use sos_backend::BackendTarget;
use sos_core::{AccountId, Origin};
use sos_net::RemoteBridge;
use sos_protocol::network_client::{HttpClient, HttpClientOptions};
use sos_protocol::RemoteSync;
use sos_remote_sync::RemoteSyncHandler;
use sos_server::{AccessControlConfig, Server, ServerBackend, ServerConfig, ServerState, State, UriOrPath};
use sos_server_storage::ServerAccountStorage;
use sos_signer::ed25519::{BinaryEd25519Signature, BoxedEd25519Signer, SingleParty};
use sos_sync::SyncStorage;
use std::collections::{BTreeMap, HashSet};
use std::net::SocketAddr;
use std::path::{Path, PathBuf};
use std::sync::atomic::{AtomicUsize, Ordering};
use std::sync::{Arc, Mutex as StdMutex};
use std::time::Duration;
use tokio::sync::{Mutex, RwLock};
use vmodel::setup::{self, Backend, Config, Pristine};

pub const ACCOUNT_HEADER: &str = "x-sos-account-id";

/// Access-control section of the server configuration.
#[derive(Clone, Debug)]
pub struct Access {
    pub name: &'static str,
    pub allow: Option<Vec<AccountId>>,
    pub deny: Option<Vec<AccountId>>,
}

impl Access {
    pub fn none() -> Self {
        Access { name: "none", allow: None, deny: None }
    }
    /// What the documentation of `AccessControlConfig` promises: an id on
    /// the deny list is refused (deny wins); with an allow list only listed
    /// ids are served.
    pub fn documented_allows(&self, id: &AccountId) -> bool {
        if let Some(d) = &self.deny {
            if d.contains(id) {
                return false;
            }
        }
        if let Some(a) = &self.allow {
            return a.contains(id);
        }
        true
    }
    fn to_config(&self) -> Option<AccessControlConfig> {
        if self.allow.is_none() && self.deny.is_none() {
            return None;
        }
        Some(AccessControlConfig {
            allow: self.allow.as_ref().map(|v| v.iter().copied().collect::<HashSet<_>>()),
            deny: self.deny.as_ref().map(|v| v.iter().copied().collect::<HashSet<_>>()),
        })
    }
}

/// A running in-process server.
pub struct TestServer {
    pub dir: PathBuf,
    pub addr: SocketAddr,
    pub url: url::Url,
    pub origin: Origin,
    pub handle: axum_server::Handle,
    pub task: Option<tokio::task::JoinHandle<Result<(), String>>>,
    pub backend: ServerBackend,
    pub state: ServerState,
    pub db: bool,
}

static CONFIG_SEQ: AtomicUsize = AtomicUsize::new(0);

impl TestServer {
    /// Start a server whose storage is `dir` (created when missing; existing
    /// accounts are loaded from it as a restarted server would).
    pub async fn start(dir: &Path, access: &Access, db: bool) -> anyhow::Result<TestServer> {
        std::fs::create_dir_all(dir)?;
        let dir = dir.canonicalize()?;
        // `ServerConfig::backend()` needs the path the config was loaded
        // from, so write a real config file next to the storage dir.
        let n = CONFIG_SEQ.fetch_add(1, Ordering::SeqCst);
        let cfg_dir = dir.parent().unwrap_or(&dir).join(format!("server-config-{}-{}", std::process::id(), n));
        std::fs::create_dir_all(&cfg_dir)?;
        let cfg_file = cfg_dir.join("config.toml");
        let text = format!("[storage]\npath = {:?}\n", dir.to_string_lossy());
        std::fs::write(&cfg_file, text)?;
        let mut config = ServerConfig::load(&cfg_file).await.map_err(|e| anyhow::anyhow!("config load: {e}"))?;
        config.storage.path = dir.clone();
        if db {
            let db_file = dir.join(sos_core::constants::DATABASE_FILE);
            config.storage.database_uri = Some(UriOrPath::Path(db_file));
        }
        config.access = access.to_config();
        config.set_bind_address("127.0.0.1:0".parse().unwrap());
        let backend = config.backend().await.map_err(|e| anyhow::anyhow!("server backend: {e}"))?;
        let backend: ServerBackend = Arc::new(RwLock::new(backend));
        let state: ServerState = Arc::new(RwLock::new(State::new(config)));
        let handle = axum_server::Handle::new();
        let server = Server::new().await.map_err(|e| anyhow::anyhow!("server new: {e}"))?;
        let (s2, b2, h2) = (state.clone(), backend.clone(), handle.clone());
        let task = tokio::spawn(async move { server.start(s2, b2, h2).await.map_err(|e| format!("{e}")) });
        // bounded wait for the listener
        let addr = match tokio::time::timeout(Duration::from_secs(30), handle.listening()).await {
            Ok(Some(a)) => a,
            Ok(None) => anyhow::bail!("server did not start listening"),
            Err(_) => anyhow::bail!("timeout waiting for the server to listen"),
        };
        let url = url::Url::parse(&format!("http://{}:{}", addr.ip(), addr.port()))?;
        Ok(TestServer { dir, addr, origin: url.clone().into(), url, handle, task: Some(task), backend, state, db })
    }

    /// Has the server task ended (it must not while we hold the handle)?
    pub fn died(&self) -> bool {
        self.task.as_ref().map(|t| t.is_finished()).unwrap_or(true)
    }

    pub async fn shutdown(mut self) {
        self.handle.graceful_shutdown(Some(Duration::from_millis(500)));
        if let Some(t) = self.task.take() {
            let _ = tokio::time::timeout(Duration::from_secs(10), t).await;
        }
    }

    /// Account ids the running server holds in memory.
    pub async fn account_ids(&self) -> Vec<AccountId> {
        let reader = self.backend.read().await;
        let accounts = reader.accounts();
        let accounts = accounts.read().await;
        let mut v: Vec<AccountId> = accounts.keys().copied().collect();
        v.sort_by_key(|a| a.to_string());
        v
    }

    /// Device keys the server currently trusts for an account (hex).
    pub async fn trusted_keys(&self, id: &AccountId) -> Option<Vec<String>> {
        let reader = self.backend.read().await;
        let accounts = reader.accounts();
        let accounts = accounts.read().await;
        let acc = accounts.get(id)?.clone();
        let acc = acc.read().await;
        let mut v: Vec<String> = acc.list_device_keys().into_iter().map(|k| hex::encode(k.as_ref())).collect();
        v.sort();
        Some(v)
    }

    /// Account-scoped server paths.
    pub fn account_paths(&self, id: &AccountId) -> Arc<sos_core::Paths> {
        sos_core::Paths::new_server(&self.dir).with_account_id(id)
    }
}

/// Fingerprint of the server: recursive listing of the storage directory
/// (relative path -> size + sha256; sqlite files are replaced by a logical
/// dump of every table so that checkpointing is not mistaken for a change),
/// plus what the running server holds in memory: per account the sync
/// status (root hash + every log's commit state) and the trusted device
/// keys, plus the number of registered websocket connections.
pub async fn fingerprint(server: &TestServer) -> BTreeMap<String, String> {
    let mut out = BTreeMap::new();
    walk(&server.dir, &server.dir, &mut out);
    if server.db {
        let db_file = server.dir.join(sos_core::constants::DATABASE_FILE);
        out.insert("db:dump".into(), dump_sqlite(&db_file).await);
    }
    {
        let reader = server.backend.read().await;
        let accounts = reader.accounts();
        let accounts = accounts.read().await;
        let mut ids: Vec<AccountId> = accounts.keys().copied().collect();
        ids.sort_by_key(|a| a.to_string());
        for id in ids {
            let acc = accounts.get(&id).unwrap().read().await;
            let st = match acc.sync_status().await {
                Ok(s) => format!("{:?}", status_key(&s)),
                Err(e) => format!("error: {e}"),
            };
            out.insert(format!("mem:{id}:status"), st);
            let mut keys: Vec<String> = acc.list_device_keys().into_iter().map(|k| hex::encode(k.as_ref())).collect();
            keys.sort();
            out.insert(format!("mem:{id}:devices"), keys.join(","));
        }
    }
    out
}

/// Stable rendering of a sync status.
pub fn status_key(s: &sos_sync::SyncStatus) -> Vec<String> {
    let mut v = vec![format!("root={}", s.root), format!("identity={}", s.identity.0), format!("account={}", s.account.0), format!("device={}", s.device.0), format!("files={:?}", s.files.as_ref().map(|f| f.0.to_string()))];
    let mut f: Vec<String> = s.folders.iter().map(|(k, c)| format!("folder:{k}={}", c.0)).collect();
    f.sort();
    v.extend(f);
    v
}

fn walk(root: &Path, dir: &Path, out: &mut BTreeMap<String, String>) {
    let Ok(rd) = std::fs::read_dir(dir) else { return };
    for e in rd.flatten() {
        let p = e.path();
        let rel = p.strip_prefix(root).unwrap_or(&p).to_string_lossy().to_string();
        let Ok(ft) = e.file_type() else { continue };
        if ft.is_dir() {
            // server log files are not state
            if rel == "logs" {
                continue;
            }
            out.insert(format!("dir:{rel}"), String::new());
            walk(root, &p, out);
        } else if ft.is_file() {
            let name = e.file_name().to_string_lossy().to_string();
            if name.ends_with(".db") || name.ends_with(".db-wal") || name.ends_with(".db-shm") || name.ends_with(".db-journal") {
                // judged through the logical dump
                continue;
            }
            match std::fs::read(&p) {
                Ok(b) => {
                    out.insert(format!("file:{rel}"), format!("{}:{}", b.len(), hex::encode(vkit::sha256(&b))));
                }
                Err(e) => {
                    out.insert(format!("file:{rel}"), format!("unreadable:{e}"));
                }
            }
        }
    }
}

async fn dump_sqlite(db_file: &Path) -> String {
    if !db_file.exists() {
        return "absent".into();
    }
    let client = match async_sqlite::ClientBuilder::new().path(db_file).flags(async_sqlite::rusqlite::OpenFlags::SQLITE_OPEN_READ_ONLY).open().await {
        Ok(c) => c,
        Err(e) => return format!("open error: {e}"),
    };
    let r = client
        .conn(|conn| {
            use async_sqlite::rusqlite::types::ValueRef;
            let mut names: Vec<String> = vec![];
            {
                let mut st = conn.prepare("SELECT name FROM sqlite_master WHERE type='table' ORDER BY name")?;
                let mut rows = st.query([])?;
                while let Some(r) = rows.next()? {
                    names.push(r.get::<_, String>(0)?);
                }
            }
            let mut parts = vec![];
            for t in names {
                if t.starts_with("sqlite_") || t.contains("audit") {
                    continue;
                }
                let mut h = vkit::Fnv::new();
                let mut n = 0u64;
                let mut st = conn.prepare(&format!("SELECT * FROM \"{}\"", t))?;
                let cols = st.column_count();
                let mut rows = st.query([])?;
                let mut lines: Vec<u64> = vec![];
                while let Some(r) = rows.next()? {
                    let mut rh = vkit::Fnv::new();
                    for i in 0..cols {
                        match r.get_ref(i)? {
                            ValueRef::Null => {
                                rh.bytes(&[0]);
                            }
                            ValueRef::Integer(v) => {
                                rh.bytes(&[1]).u64(v as u64);
                            }
                            ValueRef::Real(v) => {
                                rh.bytes(&[2]).u64(v.to_bits());
                            }
                            ValueRef::Text(b) => {
                                rh.bytes(&[3]).bytes(b).bytes(&[0xff]);
                            }
                            ValueRef::Blob(b) => {
                                rh.bytes(&[4]).bytes(b).bytes(&[0xff]);
                            }
                        }
                    }
                    lines.push(rh.finish());
                    n += 1;
                }
                lines.sort();
                for l in lines {
                    h.u64(l);
                }
                parts.push(format!("{t}:{n}:{:016x}", h.finish()));
            }
            Ok(parts.join(";"))
        })
        .await;
    let _ = client.close().await;
    match r {
        Ok(s) => s,
        Err(e) => format!("dump error: {e}"),
    }
}

/// Keys whose values differ between two fingerprints.
pub fn fp_diff(a: &BTreeMap<String, String>, b: &BTreeMap<String, String>) -> Vec<String> {
    let mut out = vec![];
    for (k, v) in a {
        match b.get(k) {
            Some(w) if w == v => {}
            Some(_) => out.push(format!("changed {k}")),
            None => out.push(format!("removed {k}")),
        }
    }
    for k in b.keys() {
        if !a.contains_key(k) {
            out.push(format!("added {k}"));
        }
    }
    out
}

// ---------------------------------------------------------------- signing

/// Bearer token exactly as the repo's client computes it: base58 of the
/// binary-encoded ed25519 signature over `bytes`.
pub async fn bearer_for(signer: &BoxedEd25519Signer, bytes: &[u8]) -> String {
    let sig = signer.sign(bytes).await.expect("ed25519 sign");
    let bin: BinaryEd25519Signature = sig.into();
    let enc = sos_core::encode(&bin).await.expect("encode signature");
    bs58::encode(enc).into_string()
}

pub fn fresh_signer() -> BoxedEd25519Signer {
    Box::new(SingleParty::new_random())
}

// ------------------------------------------------------------ raw requests

#[derive(Clone, Debug)]
pub struct RawReq {
    pub method: String,
    /// path with optional query string, e.g. `/api/v1/sync/account?connection_id=x`
    pub target: String,
    pub headers: Vec<(String, String)>,
    pub body: Option<Vec<u8>>,
}

#[derive(Clone, Debug)]
pub struct RawResp {
    pub status: u16,
    pub headers: Vec<(String, String)>,
    pub body: Vec<u8>,
}

#[derive(Debug)]
pub enum RawErr {
    Timeout,
    /// connection closed / reset without a response
    NoResponse(String),
}

pub fn raw_client() -> reqwest::Client {
    reqwest::Client::builder().connect_timeout(Duration::from_secs(5)).pool_max_idle_per_host(0).redirect(reqwest::redirect::Policy::none()).build().expect("reqwest client")
}

/// Send any request. The wait is bounded; a timeout is reported as such
/// (callers turn it into *inconclusive*, never into a violation).
pub async fn raw(client: &reqwest::Client, base: &url::Url, req: &RawReq, wait: Duration) -> Result<RawResp, RawErr> {
    let url = format!("{}{}", base.as_str().trim_end_matches('/'), req.target);
    let method = reqwest::Method::from_bytes(req.method.as_bytes()).expect("method");
    let mut rb = client.request(method, &url);
    for (k, v) in &req.headers {
        rb = rb.header(k.as_str(), v.as_str());
    }
    if let Some(b) = &req.body {
        rb = rb.body(b.clone());
    }
    let fut = async {
        let resp = rb.send().await?;
        let status = resp.status().as_u16();
        let headers = resp.headers().iter().map(|(k, v)| (k.to_string(), v.to_str().unwrap_or("").to_string())).collect();
        // a 101 upgrade has no body to wait for
        let body = if status == 101 { vec![] } else { resp.bytes().await.map(|b| b.to_vec()).unwrap_or_default() };
        Ok::<_, reqwest::Error>(RawResp { status, headers, body })
    };
    match tokio::time::timeout(wait, fut).await {
        Err(_) => Err(RawErr::Timeout),
        Ok(Err(e)) if e.is_timeout() => Err(RawErr::Timeout),
        Ok(Err(e)) => Err(RawErr::NoResponse(format!("{e:?}"))),
        Ok(Ok(r)) => Ok(r),
    }
}

// ----------------------------------------------------------------- devices

/// A device: a signed-in `LocalAccount` bridged to a server with the repo's
/// `RemoteBridge` (HttpClient + auto merge).
pub struct HttpDevice {
    pub dir: PathBuf,
    pub account: Arc<Mutex<LocalAccount>>,
    pub target: BackendTarget,
    pub account_id: AccountId,
    pub password: SecretString,
    pub signer: BoxedEd25519Signer,
    pub bridge: RemoteBridge,
}

impl HttpDevice {
    /// Open a copy of a pristine account in `dir` and bridge it to `origin`.
    pub async fn from_pristine(p: &Pristine, dir: &Path, origin: &Origin, connection_id: &str) -> anyhow::Result<HttpDevice> {
        let opened = setup::instantiate(p, dir).await?;
        let signer: BoxedEd25519Signer = opened.account.device_signer().await?.into();
        let account = Arc::new(Mutex::new(opened.account));
        let bridge = Self::bridge_for(account.clone(), p.account_id, &signer, origin, connection_id)?;
        Ok(HttpDevice { dir: dir.to_path_buf(), account, target: opened.target, account_id: p.account_id, password: p.password.clone(), signer, bridge })
    }

    pub fn bridge_for(account: Arc<Mutex<LocalAccount>>, account_id: AccountId, signer: &BoxedEd25519Signer, origin: &Origin, connection_id: &str) -> anyhow::Result<RemoteBridge> {
        let options = HttpClientOptions { account_id, origin: origin.clone(), device_signer: signer.clone(), connection_id: connection_id.to_string(), network_config: Default::default() };
        Ok(RemoteBridge::new(account, options)?)
    }

    /// Point this device at another server origin (same account, same key).
    pub fn rebridge(&mut self, origin: &Origin, connection_id: &str) -> anyhow::Result<()> {
        self.bridge = Self::bridge_for(self.account.clone(), self.account_id, &self.signer, origin, connection_id)?;
        Ok(())
    }

    pub fn client(&self) -> &HttpClient {
        self.bridge.client()
    }

    /// One full sync through the repo's own code (creates the account on
    /// the server when it does not exist there yet).
    pub async fn sync(&self) -> Result<(), String> {
        let r = self.bridge.sync().await;
        match r.result {
            Ok(_) => Ok(()),
            Err(e) => Err(format!("{e}")),
        }
    }

    pub async fn close(self) {
        {
            let mut a = self.account.lock().await;
            let _ = a.sign_out().await;
        }
        setup::close_target(self.target).await;
    }
}

/// Create a pristine account (signed out) under `dir`.
pub async fn pristine(dir: &Path, backend: Backend, rng: &mut vkit::Rng) -> anyhow::Result<Pristine> {
    let config = Config { backend, cipher: Default::default(), kdf: Default::default() };
    setup::create_pristine(dir, &config, rng).await
}

// ------------------------------------------------------------- panic watch

static PANICS: StdMutex<Vec<String>> = StdMutex::new(Vec::new());

/// Record every panic (also those swallowed by a connection task) with its
/// location; chains to the previous hook.
pub fn install_panic_watch() {
    static ONCE: std::sync::Once = std::sync::Once::new();
    ONCE.call_once(|| {
        let prev = std::panic::take_hook();
        std::panic::set_hook(Box::new(move |info| {
            let loc = info.location().map(|l| format!("{}:{}", l.file(), l.line())).unwrap_or_else(|| "?".into());
            let msg = info.payload().downcast_ref::<String>().cloned().or_else(|| info.payload().downcast_ref::<&str>().map(|s| s.to_string())).unwrap_or_default();
            if let Ok(mut p) = PANICS.lock() {
                p.push(format!("{loc}: {msg}"));
            }
            prev(info);
        }));
    });
}

pub fn panics_seen() -> usize {
    PANICS.lock().map(|p| p.len()).unwrap_or(0)
}
pub fn panics_since(n: usize) -> Vec<String> {
    PANICS.lock().map(|p| p[n.min(p.len())..].to_vec()).unwrap_or_default()
}

pub fn json_headers(h: &[(String, String)]) -> Value {
    json!(h.iter().map(|(k, v)| format!("{k}: {v}")).collect::<Vec<_>>())
}
