//! C19 — upgrading file-system accounts to the database loses nothing.
//!
//! Per generated data directory (an account with folders, flags, deleted
//! folders, attachments, synced to a loopback server and then edited
//! further in half of the cases; a second, never synced account in the
//! same directory; preferences and a server list): fingerprint the source
//! tree; DRY RUN => source tree unchanged and no database file; REAL run =>
//! per account the sync status (every log root + length), the decrypted
//! snapshot, trusted devices, preferences, server list and attachment
//! bytes are equal; the upgraded device then syncs with the server that
//! holds the pre-upgrade state without conflict. The server's own
//! file-system layout is upgraded too and its sync status compared.
use crate::loopback::{Bridge, LoopbackClient};
use crate::sched::Scheduler;
use crate::world::*;
use sos_sync::StorageEventLogs;
use serde_json::json;
use sos_account::{Account, LocalAccount};
use sos_backend::{BackendTarget, Preferences, ServerOrigins};
use sos_core::{AccountId, Origin, Paths, RemoteOrigins};
use sos_database_upgrader::{upgrade_accounts, UpgradeOptions};
use sos_preferences::PreferenceManager;
use sos_remote_sync::AutoMerge;
use sos_server_storage::ServerStorage;
use sos_sync::{SyncStatus, SyncStorage};
use std::collections::{BTreeMap, BTreeSet};
use std::path::Path;
use std::sync::Arc;
use tokio::sync::Mutex;
use vkit::{Args, Fnv, Reporter, Rng};
use vmodel::model::AccountModel;
use vmodel::ops::{Driver, Weights};
use vmodel::setup::{self, Backend, Config};
use vmodel::snapshot::{self, diff_views, AccountView};

fn tree(root: &Path) -> BTreeMap<String, (u64, [u8; 32])> {
    let mut out = BTreeMap::new();
    for e in walkdir::WalkDir::new(root).into_iter().flatten() {
        if e.file_type().is_file() {
            if let Ok(d) = std::fs::read(e.path()) {
                out.insert(e.path().strip_prefix(root).unwrap_or(e.path()).display().to_string(), (d.len() as u64, vkit::sha256(&d)));
            }
        }
    }
    out
}

struct Before {
    status: SyncStatus,
    view: AccountView,
    devices: BTreeSet<String>,
    prefs: BTreeMap<String, String>,
    servers: BTreeSet<String>,
    attachments: BTreeMap<sos_core::SecretId, Vec<u8>>,
    /// every blob the file log names: (folder, secret, name) -> sha256 of the stored (encrypted) bytes
    blobs: BTreeMap<String, Option<[u8; 32]>>,
}

/// Blobs named by the account's file log with a digest of what is on disc (None: missing).
async fn blob_digests(account: &LocalAccount) -> Result<BTreeMap<String, Option<[u8; 32]>>, String> {
    let files = account.canonical_files().await.map_err(|e| format!("canonical_files: {e}"))?;
    let paths = account.paths();
    let mut out = BTreeMap::new();
    for f in files {
        let p = paths.into_file_path(&f);
        out.insert(format!("{}/{}/{}", f.vault_id(), f.secret_id(), f.file_name()), std::fs::read(&p).ok().map(|b| vkit::sha256(&b)));
    }
    Ok(out)
}

async fn capture(account: &mut LocalAccount, target: &BackendTarget, account_id: &AccountId, attachments: BTreeMap<sos_core::SecretId, Vec<u8>>) -> Result<Before, String> {
    let status = account.sync_status().await.map_err(|e| format!("sync_status: {e}"))?;
    let (view, _) = snapshot::live(account).await.map_err(|e| format!("{} {}", e.class, e.detail))?;
    let devices = account.trusted_devices().await.map_err(|e| format!("{e}"))?.iter().map(|d| d.public_key().to_string()).collect();
    let prefs = {
        let p = Preferences::new(target.clone());
        let ident = account.public_identity().await.map_err(|e| format!("{e}"))?;
        p.load_account_preferences(&[ident]).await.map_err(|e| format!("prefs: {e}"))?;
        match p.account_preferences(account_id).await {
            Some(ap) => {
                let ap = ap.lock().await;
                ap.iter().map(|(k, v)| (k.clone(), v.to_string())).collect()
            }
            None => BTreeMap::new(),
        }
    };
    let servers = ServerOrigins::new(target.clone(), account_id).list_servers().await.map_err(|e| format!("servers: {e}"))?.iter().map(|o| o.url().to_string()).collect();
    let blobs = blob_digests(account).await?;
    Ok(Before { status, view, devices, prefs, servers, attachments, blobs })
}

pub async fn run(args: &Args, rep: &mut Reporter) {
    let cases = args.by_tier(4usize, 30usize);
    let mut rng = Rng::new(args.shard_seed() ^ 0xC19);
    let config = Config { backend: Backend::Fs, cipher: Default::default(), kdf: Default::default() };
    let pristine = match setup::create_pristine(&args.dir.join("pristine"), &config, &mut rng).await {
        Ok(p) => p,
        Err(e) => {
            rep.inconclusive(&format!("cannot create pristine account: {e}"));
            return;
        }
    };
    for c in 0..cases {
        let sched = Arc::new(Scheduler::free());
        let wdir = args.dir.join(format!("w{c}"));
        let mut w = match World::from_pristine(&wdir, &pristine, 1, false, sched.clone()).await {
            Ok(w) => w,
            Err(e) => {
                rep.inconclusive(&format!("cannot build world: {e}"));
                continue;
            }
        };
        let account_id = w.account_id;
        let mut hash = Fnv::new();
        let synced_then_edited = c % 2 == 1;
        // ---- history on the file-system account ----------------------------------------
        let mut weights = Weights::c01();
        weights.file_create = 6;
        weights.file_attach = 6;
        weights.delete_folder = 3;
        weights.create_folder = 5;
        weights.flags = 5;
        weights.resign = 0;
        let model = {
            let mut a = w.devices[0].account.lock().await;
            match snapshot::live(&mut a).await {
                Ok((v, _)) => AccountModel::from_view(v),
                Err(e) => {
                    rep.inconclusive(&format!("snapshot: {}", e.detail));
                    continue;
                }
            }
        };
        let mut driver = Driver::new(rng.fork(c as u64), weights, model, w.password.clone(), wdir.join("tmpfiles"));
        driver.allow_large = false;
        driver.max_file_bytes = 20_000;
        let steps = args.by_tier(24, 50);
        for st in 0..steps {
            w.clock_in(0);
            let out = {
                let mut a = w.devices[0].account.lock().await;
                driver.step(&mut a).await
            };
            w.clock_out(0);
            hash.str(&out.op);
            if st == steps * 2 / 3 {
                let r = w.sync(0).await;
                rep.count(&format!("pre_upgrade_sync:{}", r.class()), 1);
            }
        }
        if !synced_then_edited {
            let r = w.sync(0).await;
            rep.count(&format!("pre_upgrade_sync:{}", r.class()), 1);
        }
        // preferences + server list
        let target0 = w.devices[0].target.clone().with_account_id(&account_id);
        let mut primary_urls: Vec<url::Url> = vec![];
        {
            let p = Preferences::new(target0.clone());
            let _ = p.new_account(&account_id).await;
            if let Some(ap) = p.account_preferences(&account_id).await {
                let mut ap = ap.lock().await;
                let _ = ap.insert("verif.bool".into(), true.into()).await;
                let _ = ap.insert("verif.number".into(), (rng.below(1000) as f64).into()).await;
                let _ = ap.insert("verif.string".into(), format!("value {}", rng.token(8)).into()).await;
                let _ = ap.insert("verif.list".into(), vec![rng.token(4), rng.token(5)].into()).await;
            }
            let mut so = ServerOrigins::new(target0.clone(), &account_id);
            for i in 0..rng.range(1, 3) {
                let url = url::Url::parse(&format!("https://server{i}-{}.example.com:5053", rng.token(5).to_lowercase())).unwrap();
                primary_urls.push(url.clone());
                let origin: Origin = url.into();
                let _ = so.add_server(origin).await;
            }
        }
        // a second, never synced account in the same data directory
        let second = {
            let t = w.devices[0].target.clone();
            let pw = setup::new_password(&mut rng);
            match LocalAccount::new_account_with_builder(format!("second-{}", rng.token(4)), pw.clone(), t.clone(), |b| b.create_archive(true).create_file_password(true)).await {
                Ok(mut acc) => {
                    let id = *acc.account_id();
                    let _ = acc.sign_in(&setup::key_of(&pw)).await;
                    for _ in 0..rng.range(1, 4) {
                        let mut g = vmodel::secgen::Gen::new(&mut rng);
                        g.allow_large = false;
                        let (m, s) = g.secret_of_kind(0, 0);
                        let _ = acc.create_secret(m, s, Default::default()).await;
                    }
                    let t2 = t.with_account_id(&id);
                    // the second account lists the servers of the first one too, plus its own
                    {
                        let mut so2 = ServerOrigins::new(t2.clone(), &id);
                        for u in &primary_urls {
                            let origin: Origin = u.clone().into();
                            let _ = so2.add_server(origin).await;
                            rep.count("servers_shared_between_accounts", 1);
                        }
                        let own: Origin = url::Url::parse(&format!("https://own-{}.example.org", rng.token(5).to_lowercase())).unwrap().into();
                        let _ = so2.add_server(own).await;
                    }
                    let b = capture(&mut acc, &t2, &id, BTreeMap::new()).await.ok();
                    let _ = acc.sign_out().await;
                    b.map(|b| (id, pw, b))
                }
                Err(_) => None,
            }
        };
        // ---- capture "before" ------------------------------------------------------------------
        let before = {
            let mut a = w.devices[0].account.lock().await;
            // attachment plaintexts through the account API
            let mut att = BTreeMap::new();
            for (sid, plain) in &driver.file_plain {
                att.insert(*sid, plain.clone());
            }
            match capture(&mut a, &target0, &account_id, att).await {
                Ok(b) => b,
                Err(e) => {
                    rep.inconclusive(&format!("capture before: {e}"));
                    continue;
                }
            }
        };
        let device_dir = w.devices[0].dir.clone();
        let password = driver.password.clone();
        let ctx = json!({"case": c, "synced_then_edited": synced_then_edited, "last_ops": driver.log.iter().rev().take(10).rev().collect::<Vec<_>>()});
        // close the device (keep the server)
        {
            let mut a = w.devices[0].account.lock().await;
            let _ = a.sign_out().await;
        }
        let dev = w.devices.remove(0);
        let Device { account, target, bridge, .. } = dev;
        drop(bridge);
        drop(account);
        setup::close_target(target).await;

        // ---- dry run ------------------------------------------------------------------------------
        let src_before = tree(&device_dir);
        let paths = Paths::new_client(&device_dir);
        let dry = upgrade_accounts(device_dir.clone(), UpgradeOptions { paths: paths.clone(), dry_run: true, ..Default::default() }).await;
        rep.count("dry_runs", 1);
        if let Err(e) = &dry {
            rep.violation("C19:dry_run_failed", &format!("dry-run upgrade failed: {e}"), ctx.clone());
        }
        let src_after = tree(&device_dir);
        if src_after != src_before {
            let changed: Vec<&String> = src_after.keys().filter(|k| src_before.get(*k) != src_after.get(*k)).chain(src_before.keys().filter(|k| !src_after.contains_key(*k))).take(5).collect();
            rep.violation("C19:dry_run_changed_source", &format!("a dry-run upgrade changed the source data directory: {changed:?}"), ctx.clone());
        }
        if paths.database_file().exists() {
            rep.violation("C19:dry_run_created_database", "a dry-run upgrade left a database file", ctx.clone());
        }
        // ---- real run -------------------------------------------------------------------------------
        let real = upgrade_accounts(device_dir.clone(), UpgradeOptions { paths: paths.clone(), dry_run: false, ..Default::default() }).await;
        rep.count("real_runs", 1);
        match real {
            Err(e) => {
                rep.violation("C19:upgrade_failed", &format!("upgrade of a generated file-system account failed: {e}"), ctx.clone());
            }
            Ok(res) => {
                rep.count("accounts_upgraded", res.accounts.len() as u64);
                let mut checks: Vec<(AccountId, secrecy::SecretString, &Before, &str)> = vec![(account_id, password.clone(), &before, "primary")];
                if let Some((id, pw, b)) = &second {
                    checks.push((*id, pw.clone(), b, "second"));
                }
                for (id, pw, b, which) in checks {
                    match setup::open(&device_dir, Backend::Db, &id, &pw).await {
                        Ok(mut o) => {
                            let t = o.target.clone().with_account_id(&id);
                            match capture(&mut o.account, &t, &id, BTreeMap::new()).await {
                                Ok(after) => {
                                    rep.count("accounts_compared", 1);
                                    let sd = status_diff(&b.status, &after.status);
                                    if !sd.is_empty() {
                                        let classes: BTreeSet<String> = sd.iter().map(|s| s.split(':').next().unwrap().to_string()).collect();
                                        rep.violation(&format!("C19:{which}:sync_status_differs:{}", classes.into_iter().collect::<Vec<_>>().join("+")), &format!("after the upgrade the {which} account's sync status differs on {sd:?}"), ctx.clone());
                                    }
                                    for d in diff_views(&b.view, &after.view) {
                                        rep.violation(&format!("C19:{which}:content_differs:{}", d.class), &format!("after the upgrade: {}", d.detail), ctx.clone());
                                    }
                                    if b.devices != after.devices {
                                        rep.violation(&format!("C19:{which}:trusted_devices_differ"), &format!("trusted devices before {:?} after {:?}", b.devices, after.devices), ctx.clone());
                                    }
                                    if b.prefs != after.prefs {
                                        rep.violation(&format!("C19:{which}:preferences_differ"), &format!("preferences before {:?} after {:?}", b.prefs, after.prefs), ctx.clone());
                                    }
                                    if b.servers != after.servers {
                                        rep.violation(&format!("C19:{which}:server_list_differs"), &format!("server list before {:?} after {:?}", b.servers, after.servers), ctx.clone());
                                    }
                                    // every blob the file log names is there with the same bytes
                                    match blob_digests(&o.account).await {
                                        Ok(now) => {
                                            rep.count("blobs_compared", b.blobs.len() as u64);
                                            let mut per_secret: BTreeMap<&str, usize> = BTreeMap::new();
                                            for k in b.blobs.keys() {
                                                *per_secret.entry(&k[..73.min(k.len())]).or_insert(0) += 1;
                                            }
                                            rep.count("secrets_with_several_blobs", per_secret.values().filter(|n| **n > 1).count() as u64);
                                            for (k, d) in &b.blobs {
                                                let Some(d) = d else {
                                                    // not on disc before the upgrade either (not this property's question)
                                                    rep.count("blobs_missing_before_upgrade", 1);
                                                    continue;
                                                };
                                                match now.get(k) {
                                                    Some(Some(d2)) if d2 == d => {}
                                                    Some(Some(_)) => rep.violation(&format!("C19:{which}:blob_differs"), &format!("blob {k} has different bytes after the upgrade"), ctx.clone()),
                                                    Some(None) => rep.violation(&format!("C19:{which}:blob_missing"), &format!("blob {k} named by the file log is missing after the upgrade"), ctx.clone()),
                                                    None => rep.violation(&format!("C19:{which}:blob_not_in_file_log"), &format!("blob {k} is no longer named by the file log after the upgrade"), ctx.clone()),
                                                }
                                            }
                                            for k in now.keys() {
                                                if !b.blobs.contains_key(k) {
                                                    rep.violation(&format!("C19:{which}:blob_invented"), &format!("the upgraded account names a blob {k} the source did not"), ctx.clone());
                                                }
                                            }
                                        }
                                        Err(e) => rep.violation(&format!("C19:{which}:file_log_unreadable"), &format!("after the upgrade: {e}"), ctx.clone()),
                                    }
                                    // attachments
                                    for (fid, fv) in &after.view.folders {
                                        for sid in fv.secrets.keys() {
                                            if let Some(plain) = b.attachments.get(sid) {
                                                if let Ok((row, _)) = o.account.read_secret(sid, Some(fid)).await {
                                                    if let sos_vault::secret::Secret::File { content: sos_vault::secret::FileContent::External { checksum, .. }, .. } = row.secret() {
                                                        let name: sos_core::ExternalFileName = (*checksum).into();
                                                        rep.count("attachments_compared", 1);
                                                        match o.account.download_file(fid, sid, &name).await {
                                                            Ok(bytes) if &bytes == plain => {}
                                                            Ok(_) => rep.violation(&format!("C19:{which}:attachment_differs"), &format!("attachment of {sid} decrypts differently after the upgrade"), ctx.clone()),
                                                            Err(e) if e.to_string().contains("Excessive work parameter") => rep.count("decrypt_skipped_machine_too_loaded", 1),
                                                            Err(e) => rep.violation(&format!("C19:{which}:attachment_missing"), &format!("attachment of {sid} unreadable after the upgrade: {e}"), ctx.clone()),
                                                        }
                                                    }
                                                }
                                            }
                                        }
                                    }
                                }
                                Err(e) => rep.violation(&format!("C19:{which}:unreadable_after_upgrade"), &format!("cannot read the upgraded account: {e}"), ctx.clone()),
                            }
                            // ---- the upgraded primary device syncs with the pre-upgrade server ---------
                            if which == "primary" {
                                let account = Arc::new(Mutex::new(o.account));
                                let client = LoopbackClient::new(w.server.clone(), id, 0, sched.clone());
                                let bridge = Bridge::new(account.clone(), client);
                                let _ = sched.take_trace();
                                sched.reset_counts();
                                // a folder created offline needs a second round (the server
                                // only accepts folder patches for folders it already lists):
                                // same bounded-rounds rule as C04
                                let mut last_diff = vec![];
                                let mut failed = None;
                                let mut trace = vec![];
                                for _round in 0..3 {
                                    let r = bridge.execute_sync(&Default::default()).await;
                                    trace.extend(sched.take_trace());
                                    rep.count("post_upgrade_syncs", 1);
                                    if let Err(e) = r {
                                        failed = Some(format!("{e}"));
                                        break;
                                    }
                                    let ds = { account.lock().await.sync_status().await.ok() };
                                    let ss = w.server_status().await.ok();
                                    if let (Some(ds), Some(ss)) = (ds, ss) {
                                        last_diff = status_diff(&ds, &ss);
                                        if last_diff.is_empty() {
                                            break;
                                        }
                                    }
                                }
                                if let Some(e) = failed {
                                    rep.violation("C19:post_upgrade_sync_failed", &format!("the upgraded device cannot sync with its server: {e}"), ctx.clone());
                                } else {
                                    let conflicted = trace.iter().any(|(_, k)| *k == "scan" || *k == "patch");
                                    if conflicted {
                                        rep.violation("C19:post_upgrade_sync_conflict", &format!("the upgraded device needed conflict resolution to sync with its server: requests {trace:?}"), ctx.clone());
                                    }
                                    if !last_diff.is_empty() {
                                        rep.violation("C19:post_upgrade_sync_not_converged", &format!("after 3 syncs the upgraded device still differs from its server on {last_diff:?}"), ctx.clone());
                                    }
                                }
                                let mut a = account.lock().await;
                                let _ = a.sign_out().await;
                                drop(a);
                                setup::close_target(o.target).await;
                            } else {
                                o.close().await;
                            }
                        }
                        Err(e) => rep.violation(&format!("C19:{which}:sign_in_failed_after_upgrade"), &format!("the upgraded {which} account does not open: {e}"), ctx.clone()),
                    }
                }
            }
        }
        // ---- server layout ------------------------------------------------------------------------------
        let server_before = w.server_status().await.ok();
        let server_dir = w.server.dir.clone();
        let server_target = w.server.target.clone();
        drop(w);
        setup::close_target(server_target).await;
        if let Some(sb) = server_before {
            let spaths = Paths::new_server(&server_dir);
            let r = upgrade_accounts(server_dir.clone(), UpgradeOptions { paths: spaths.clone(), dry_run: false, ..Default::default() }).await;
            rep.count("server_upgrades", 1);
            match r {
                Ok(_) => {
                    if let Ok(mut client) = sos_database::open_file(spaths.database_file()).await {
                        let _ = sos_database::migrations::migrate_client(&mut client).await;
                        let t = BackendTarget::Database(spaths.clone(), client.clone());
                        match ServerStorage::new(t, &account_id).await {
                            Ok(st) => match st.sync_status().await {
                                Ok(sa) => {
                                    let sd = status_diff(&sb, &sa);
                                    if !sd.is_empty() {
                                        rep.violation("C19:server:sync_status_differs", &format!("after upgrading the server layout its sync status differs on {sd:?}"), ctx.clone());
                                    }
                                    rep.count("server_status_compared", 1);
                                }
                                Err(e) => rep.violation("C19:server:status_unreadable", &format!("{e}"), ctx.clone()),
                            },
                            Err(e) => rep.violation("C19:server:storage_unreadable", &format!("upgraded server storage does not open: {e}"), ctx.clone()),
                        }
                        let _ = client.close().await;
                    }
                }
                Err(e) => rep.violation("C19:server:upgrade_failed", &format!("upgrade of the server layout failed: {e}"), ctx.clone()),
            }
        }
        rep.case(hash.finish(), before.view.folders.values().map(|f| f.secrets.len()).sum::<usize>() > 2);
        if c == 0 {
            rep.sample(json!({"ops": driver.log.iter().take(10).collect::<Vec<_>>(), "synced_then_edited": synced_then_edited, "second_account": second.is_some()}));
        }
        let _ = std::fs::remove_dir_all(&wdir);
    }
    let _ = std::fs::remove_dir_all(&pristine.dir);
}
