//! C11 — placeholder, implemented by a dedicated module author.
use vkit::{Args, Reporter};
pub async fn run(_args: &Args, rep: &mut Reporter) {
    rep.inconclusive("c11 not implemented yet");
}
pub async fn run_c15_http(_args: &Args, rep: &mut Reporter) {
    rep.inconclusive("c15http not implemented yet");
}
