//! C10 — placeholder, implemented by a dedicated module author.
use vkit::{Args, Reporter};
pub fn run(_args: &Args, rep: &mut Reporter) {
    rep.inconclusive("c10 not implemented yet");
}
