#!/usr/bin/env python3
import json,sys
for l in open(sys.argv[1]):
    l=l.strip()
    if not l.startswith('{'): print(l[:300]); continue
    r=json.loads(l)
    if r['t']=='violation':
        print('V',r['sig'],'::',r['what'][:int(sys.argv[2]) if len(sys.argv)>2 else 500]); print()
    elif r['t']=='inconclusive': print('INC',r['why'][:500])
    elif r['t']=='summary':
        print({k:v for k,v in r['counters'].items()}, 'evals',r['evaluations'],'wall',round(r['wall_s'],1))
