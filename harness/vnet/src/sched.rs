//! Request scheduler: every `LoopbackClient` call passes `gate()` first.
//!
//! * Free mode: the permit is granted at once (sequential drivers).
//! * Explore mode (C09): each device's sync runs as its own task; a gate
//!   call reports `Parked(device, kind)` and waits. The controller keeps an
//!   explicit state per task (Running | Parked | Done), releases exactly one
//!   parked task according to a decision list, and waits for that task's
//!   next event before deciding again. Execution is therefore deterministic
//!   given the decision list, at request granularity.
//!
//! "Never a hang" is decided logically: a single sync call that issues more
//! than `REQUEST_BOUND` requests trips the bound (the gate panics inside
//! the task, which the driver observes as a JoinError).
use std::collections::BTreeMap;
use std::sync::Mutex;
use tokio::sync::{mpsc, oneshot};

pub const REQUEST_BOUND: u64 = 200;
pub const BOUND_PANIC: &str = "VERIF_REQUEST_BOUND_EXCEEDED";

pub enum Event {
    Parked { device: usize, kind: &'static str, permit: oneshot::Sender<()> },
}

pub struct Scheduler {
    explore: Mutex<Option<mpsc::UnboundedSender<Event>>>,
    /// requests issued by each device since `reset_counts`
    counts: Mutex<BTreeMap<usize, u64>>,
    /// total per kind (evidence)
    kinds: Mutex<BTreeMap<&'static str, u64>>,
    /// ordered trace of (device, kind) as the server saw them
    trace: Mutex<Vec<(usize, &'static str)>>,
}

impl Scheduler {
    pub fn free() -> Self {
        Scheduler { explore: Mutex::new(None), counts: Default::default(), kinds: Default::default(), trace: Default::default() }
    }

    /// Switch to explore mode: every gate call is reported on `tx` and waits
    /// for its permit.
    pub fn set_explore(&self, tx: mpsc::UnboundedSender<Event>) {
        *self.explore.lock().unwrap() = Some(tx);
    }

    /// Back to free mode.
    pub fn set_free(&self) {
        *self.explore.lock().unwrap() = None;
    }

    pub fn reset_counts(&self) {
        self.counts.lock().unwrap().clear();
    }
    pub fn reset_device(&self, device: usize) {
        self.counts.lock().unwrap().remove(&device);
    }
    pub fn count(&self, device: usize) -> u64 {
        self.counts.lock().unwrap().get(&device).copied().unwrap_or(0)
    }
    pub fn kinds(&self) -> BTreeMap<&'static str, u64> {
        self.kinds.lock().unwrap().clone()
    }
    pub fn take_trace(&self) -> Vec<(usize, &'static str)> {
        std::mem::take(&mut *self.trace.lock().unwrap())
    }

    pub async fn gate(&self, device: usize, kind: &'static str) {
        let n = {
            let mut c = self.counts.lock().unwrap();
            let e = c.entry(device).or_insert(0);
            *e += 1;
            *e
        };
        if n > REQUEST_BOUND {
            panic!("{}", BOUND_PANIC);
        }
        let tx = self.explore.lock().unwrap().clone();
        if let Some(tx) = tx {
            let (ptx, prx) = oneshot::channel();
            if tx.send(Event::Parked { device, kind, permit: ptx }).is_ok() {
                // a dropped permit means the schedule was abandoned: park forever
                if prx.await.is_err() {
                    std::future::pending::<()>().await;
                }
            }
        }
        *self.kinds.lock().unwrap().entry(kind).or_insert(0) += 1;
        self.trace.lock().unwrap().push((device, kind));
    }
}
