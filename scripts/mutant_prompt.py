#!/usr/bin/env python3
"""Print the prompt for a mutant-writing sub-agent for property <ID> (only the
property text and a scratch worktree path; nothing from /verif)."""
import json, sys
pid = sys.argv[1]
n = sys.argv[2] if len(sys.argv) > 2 else "a"
props = {json.loads(l)['id']: json.loads(l) for l in open('/verif/properties.jsonl')}
p = props[pid]
wt = f"/tmp/mut-{pid}{n}"
import glob, os
taken = []
for m in sorted(glob.glob(f"/verif/seeded/{pid}*/meta.json")):
    try:
        taken.append(json.load(open(m)).get("title", ""))
    except Exception:
        pass
avoid = ("\nIdeas already taken by others for this property (pick a DIFFERENT mechanism, in a different function if you can): " + " | ".join(t for t in taken if t) + "\n") if taken else ""
print(f"""You are a careful Rust engineer helping to evaluate a test suite by writing ONE realistic, subtle bug ("seeded change") into a copy of a repository.

Repository: saveoursecrets/sdk (Rust SDK, server and CLI for a local-first encrypted secrets database: event-sourced vault files with commit trees, binary encoding, multi-device sync). You work ONLY in your own scratch git worktree. Create it first:
    git -C /repo worktree add --detach {wt} HEAD
and use a private build directory so you do not disturb anyone: export CARGO_TARGET_DIR={wt}/target ; always pass --offline to cargo (there is no network). Never touch /repo itself, never look at or touch /verif, never commit anywhere. The machine is shared: use `cargo build -p <crate>` / `cargo nextest run -p <crate> ...` for the crates you touch rather than whole-workspace builds while iterating.

The property your change must BREAK (it holds on the current code):

    {pid} — {p['title']}
    {p['statement']}
    Quantified over: {p['quantifier']['text']}
    Code that is meant to make it hold: {'; '.join(m.get('name','')+' @ '+m.get('where','') for m in p['anchors']['mechanism'])}
    Relevant files: {', '.join(p['anchors']['files'])}

{avoid}
What to produce:
1. A small source change (a few lines, in non-test code under crates/) that makes the property FALSE for some inputs/histories/schedules, while the code still compiles and the EXISTING test suite still passes. The existing tests are in tests/unit and tests/integration (run the relevant ones, e.g. `cargo nextest run --offline -p sos-unit-tests` (fast) and the related integration test modules with `cargo nextest run --offline -p sos-integration-tests -E 'test(/<module>/)'`; three tests are known to fail on the untouched tree and do not count: sos-command-line-tests::main::command_line, not_authenticated_local_account, not_authenticated_network_account). The change must NOT be something ordinary use exposes at once: it should need something specific to manifest — a particular interleaving, a crash or fault at a particular point, a multi-step sequence of operations, an unusual input (boundary size, repeated value, particular flag), or two cooperating sites that each look fine alone. It should look like a plausible mistake or "optimisation" a developer could make, not sabotage (no `if id == X`, no random behaviour, no new panics/unwraps as the bug itself, no feature flags or env vars). Do not use the cfg(sos_verif) hooks (lines guarded by `#[cfg(sos_verif)]` are compiled out in normal builds; leave them alone).
2. A demonstration: a self-contained Rust test file (tokio test using the repo's public APIs; put it at tests/integration/tests/seeded_demo.rs and wire it with `mod seeded_demo;`-style inclusion in tests/integration/tests/main.rs, or as a unit test in tests/unit if it fits better) that FAILS with your change and PASSES without it. Show both runs.
3. Files to leave in the worktree root when you are done: `patch.diff` (output of `git diff -- crates/` — ONLY the seeded change to non-test code), `demo.diff` (the demonstration test + its wiring, as a separate diff), and `meta.json` with keys: property ("{pid}"), title (one line), what_it_breaks (2-3 sentences), needs_to_manifest (what specific input/sequence/interleaving/crash point is needed), files_changed, demo_cmd (the exact cargo command running the demonstration), tests_run (the exact commands of existing tests you ran and their pass/fail counts with the change applied).
Do not delete the worktree; I will collect the files and remove it. Keep the build directory size in check (you may delete {wt}/target at the very end).

In your final message report: the idea of the change, the diff, what it needs to manifest, the demonstration result with and without the change, and the existing tests you ran with results.""")
