#!/usr/bin/env python3
"""Rebuild seeded/INDEX.json from the seeded directories, their confirm.json and seeded/caught.json."""
import json, glob, os
caught = json.load(open('/verif/seeded/caught.json'))
idx = []
for d in sorted(glob.glob('/verif/seeded/*/')):
    n = os.path.basename(d.rstrip('/'))
    if not os.path.exists(d + 'meta.json'):
        continue
    m = json.load(open(d + 'meta.json'))
    c = json.load(open(d + 'confirm.json')) if os.path.exists(d + 'confirm.json') else None
    idx.append({"id": n, "property": m.get("property"), "title": m.get("title"), "status": m.get("verif_status", "valid"),
                "caught_by_quick": caught.get(n, {}).get("by", []), "check_strengthened_first": caught.get(n, {}).get("strengthened", False), "confirm": c})
json.dump(idx, open('/verif/seeded/INDEX.json', 'w'), indent=1)
print(len(idx), "seeded changes;", sum(1 for i in idx if i["caught_by_quick"]), "caught")
