"""Static description of every check: which worker jobs decide it, the
claimed level, the non-triviality rule, coverage floors and assumptions.
bin/check reads it to run; bin/gen_manifest reads it to write MANIFEST.json."""

def job(bin, name, q, t, wq=900, wt=5400, **kw):
    d = {"bin": bin, "name": name, "shards": {"quick": q, "thorough": t},
         "watchdog_s": {"quick": wq, "thorough": wt}}
    d.update(kw)
    return d

CHECKS = {}

CHECKS["C08"] = {
    "title": "Commit comparison tells the truth about who is ahead",
    "level": "exploration",
    "technique": "runtime oracle: CommitTree::compare/contains/verify_leaves run on exhaustively enumerated and random leaf-sequence pairs, results compared with list-prefix arithmetic; ancestor scan driven through the real scan code",
    "design_ref": "DESIGN.md §4 C08",
    "jobs": [job("vcore", "c08", 16, 16)],
    "rule": "pairs (local sequence, other sequence) over a 3-letter leaf alphabet, all lengths 1..L enumerated exhaustively (disjoint partitions per shard, so every pair is distinct) plus random pairs up to length 300 with planted prefixes/divergences (distinct by content hash); non-trivial = the two sequences differ",
    "exhaustive_note": "all ordered pairs of leaf sequences of length 1..7 (quick) / 1..8 (thorough) over 3 leaf values for compare/contains; single-leaf proofs at every index for lengths <= 6 (quick) / 7 (thorough)",
    "floors": {"quick": {"compare_equal": 100, "compare_contains": 100, "compare_unknown": 1000, "single_leaf_proofs_agree_diff_len": 1000}},
    "assumptions": ["SHA-256 collisions do not occur among the generated leaves",
                    "behaviour on sequences longer than the enumerated bound is sampled (random pairs up to 300), not enumerated"],
    "level_text": "Exhaustive small-scope enumeration plus random long pairs of the real comparison code against sequence arithmetic; held means no pair in the explored space was misclassified.",
    "level_note": "Trusts rs_merkle's hashing only through the observed answers; no claim beyond the enumerated bound and sampled long pairs.",
}
