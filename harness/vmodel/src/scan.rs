//! Multi-pattern byte scanner (C03; also used by C12 for stale
//! ciphertext): every marker in raw UTF-8, UTF-16LE/BE, lower/upper hex,
//! base64 (std and url alphabets, all three alignments) and base58.
use std::collections::HashMap;
use std::path::Path;

#[derive(Clone, Debug)]
pub struct Hit {
    pub marker: usize,
    pub form: &'static str,
    pub offset: usize,
}

pub struct Scanner {
    pats: Vec<(Vec<u8>, usize, &'static str)>,
    index: HashMap<[u8; 4], Vec<usize>>,
    pub markers: usize,
}

const B64_STD: &[u8; 64] = b"ABCDEFGHIJKLMNOPQRSTUVWXYZabcdefghijklmnopqrstuvwxyz0123456789+/";
const B64_URL: &[u8; 64] = b"ABCDEFGHIJKLMNOPQRSTUVWXYZabcdefghijklmnopqrstuvwxyz0123456789-_";
const B58: &[u8; 58] = b"123456789ABCDEFGHJKLMNPQRSTUVWXYZabcdefghijkmnopqrstuvwxyz";

fn b64_full_groups(data: &[u8], alpha: &[u8; 64]) -> Vec<u8> {
    let mut out = vec![];
    for c in data.chunks_exact(3) {
        let n = ((c[0] as u32) << 16) | ((c[1] as u32) << 8) | c[2] as u32;
        out.push(alpha[(n >> 18) as usize & 63]);
        out.push(alpha[(n >> 12) as usize & 63]);
        out.push(alpha[(n >> 6) as usize & 63]);
        out.push(alpha[n as usize & 63]);
    }
    out
}

pub fn base58(data: &[u8]) -> Vec<u8> {
    let mut digits: Vec<u8> = vec![0];
    for b in data {
        let mut carry = *b as u32;
        for d in digits.iter_mut() {
            carry += (*d as u32) << 8;
            *d = (carry % 58) as u8;
            carry /= 58;
        }
        while carry > 0 {
            digits.push((carry % 58) as u8);
            carry /= 58;
        }
    }
    let mut out: Vec<u8> = data.iter().take_while(|b| **b == 0).map(|_| b'1').collect();
    out.extend(digits.iter().rev().map(|d| B58[*d as usize]));
    out
}

pub fn forms(token: &[u8]) -> Vec<(&'static str, Vec<u8>)> {
    let mut v: Vec<(&'static str, Vec<u8>)> = vec![("raw", token.to_vec())];
    if let Ok(s) = std::str::from_utf8(token) {
        let le: Vec<u8> = s.encode_utf16().flat_map(|u| u.to_le_bytes()).collect();
        let be: Vec<u8> = s.encode_utf16().flat_map(|u| u.to_be_bytes()).collect();
        v.push(("utf16le", le));
        v.push(("utf16be", be));
    }
    v.push(("hex", hex::encode(token).into_bytes()));
    v.push(("HEX", hex::encode_upper(token).into_bytes()));
    for skip in 0..3 {
        if token.len() > skip + 6 {
            v.push((["b64@0", "b64@1", "b64@2"][skip], b64_full_groups(&token[skip..], B64_STD)));
            v.push((["b64url@0", "b64url@1", "b64url@2"][skip], b64_full_groups(&token[skip..], B64_URL)));
        }
    }
    v.push(("base58", base58(token)));
    v.retain(|(_, b)| b.len() >= 8);
    v
}

impl Scanner {
    pub fn new(tokens: &[Vec<u8>]) -> Self {
        let mut pats = vec![];
        for (i, t) in tokens.iter().enumerate() {
            if t.len() < 8 {
                continue;
            }
            for (form, bytes) in forms(t) {
                pats.push((bytes, i, form));
            }
        }
        let mut index: HashMap<[u8; 4], Vec<usize>> = HashMap::new();
        for (pi, (b, _, _)) in pats.iter().enumerate() {
            let key: [u8; 4] = b[..4].try_into().unwrap();
            index.entry(key).or_default().push(pi);
        }
        Scanner { pats, index, markers: tokens.len() }
    }

    pub fn patterns(&self) -> usize {
        self.pats.len()
    }

    pub fn scan(&self, hay: &[u8]) -> Vec<Hit> {
        let mut hits = vec![];
        if hay.len() < 4 {
            return hits;
        }
        for i in 0..=hay.len() - 4 {
            let key: [u8; 4] = hay[i..i + 4].try_into().unwrap();
            if let Some(cands) = self.index.get(&key) {
                for pi in cands {
                    let (b, m, form) = &self.pats[*pi];
                    if hay.len() - i >= b.len() && &hay[i..i + b.len()] == b.as_slice() {
                        hits.push(Hit { marker: *m, form, offset: i });
                    }
                }
            }
        }
        hits
    }

    /// Scan every regular file below `root`. Returns (files, bytes, hits with path).
    pub fn scan_dir(&self, root: &Path) -> (u64, u64, Vec<(String, Hit)>) {
        let mut files = 0u64;
        let mut bytes = 0u64;
        let mut hits = vec![];
        for e in walkdir::WalkDir::new(root).into_iter().flatten() {
            if e.file_type().is_file() {
                if let Ok(data) = std::fs::read(e.path()) {
                    files += 1;
                    bytes += data.len() as u64;
                    for h in self.scan(&data) {
                        hits.push((e.path().display().to_string(), h));
                    }
                }
            }
        }
        (files, bytes, hits)
    }
}
