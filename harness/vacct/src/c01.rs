//! C01 — read-your-writes, survives lock/unlock, re-sign-in and a cold reopen.
//!
//! Oracle after EVERY step of a generated history, on each of
//! backend {fs, sqlite} x cipher {AES-GCM-256, XChaCha20-Poly1305}:
//!   live snapshot (list_folders, folder_description, list_secret_ids,
//!   read_secret of every listed id) == reference model; listing clause
//!   (every listed id readable, no duplicates); deleted ids unreadable;
//! and at random prefixes + always at the end: the same after a cold
//! reopen (sign out, brand-new target + account object, sign in).
use crate::common::*;
use serde_json::json;
use sos_account::Account;
use vkit::{Args, Fnv, Reporter, Rng};
use vmodel::ops::Weights;
use vmodel::session::Session;
use vmodel::setup::{self, Config};
use vmodel::snapshot::diff_views;

pub async fn run(args: &Args, rep: &mut Reporter) {
    let histories_per_config = args.by_tier(2usize, 24usize);
    let steps = args.by_tier(40usize, 90usize);
    let mut rng = Rng::new(args.shard_seed() ^ 0xC01);
    let configs = Config::matrix();
    for (ci, config) in configs.iter().enumerate() {
        let pdir = args.dir.join(format!("pristine{ci}"));
        let pristine = match setup::create_pristine(&pdir, config, &mut rng).await {
            Ok(p) => p,
            Err(e) => {
                rep.inconclusive(&format!("cannot create pristine account for {}: {e}", config.name()));
                continue;
            }
        };
        for h in 0..histories_per_config {
            let hdir = args.dir.join(format!("h{ci}_{h}"));
            let weights = if h % 2 == 0 { Weights::c01().with_folder_api() } else { Weights::c01() };
            let with_folder_api = h % 2 == 0;
            let mut s = match Session::start(&pristine, &hdir, rng.fork(h as u64), weights).await {
                Ok(s) => s,
                Err(e) => {
                    rep.inconclusive(&format!("cannot start session: {e}"));
                    continue;
                }
            };
            s.driver.allow_large = h % 3 != 2;
            let backend = config.backend.name();
            let cname = config.name();
            let mut hash = Fnv::new();
            let mut mutations = 0u64;
            let mut reopens = 0u64;
            let mut stop = false;
            for st in 0..steps {
                if stop {
                    // one defect per history: later differences would be cascades
                    rep.count("histories_cut_short_after_violation", 1);
                    break;
                }
                let v0 = rep.violations();
                let out = s.step().await;
                hash.str(&out.op);
                rep.count("steps", 1);
                rep.count(&format!("op:{}", out.kind), 1);
                rep.count(&format!("config:{cname}"), 1);
                if matches!(out.kind, "update" | "delete" | "move" | "archive" | "unarchive" | "delete_folder" | "file_update") && out.result.is_ok() {
                    mutations += 1;
                }
                let ctx = json!({"config": cname, "history": h, "step": st, "folder_api": with_folder_api, "last_ops": tail(&s.driver.log, 12)});
                if let Err(e) = &out.result {
                    if out.legal {
                        rep.violation(
                            &format!("C01:{backend}:legal_op_failed:{}", out.kind),
                            &format!("operation the model says is legal failed: {} => {e}", out.op),
                            json!({"ctx": ctx, "op": out.op, "error": e}),
                        );
                    } else {
                        rep.count("illegal_ops_rejected", 1);
                    }
                } else if !out.legal {
                    rep.count("illegal_ops_accepted", 1);
                }
                // live == model
                match s.live_view().await {
                    Ok((view, listing)) => {
                        rep.count("live_snapshots", 1);
                        report_diffs(rep, "C01", backend, "listing", out.kind, &listing, &ctx);
                        let diffs = diff_views(&s.driver.model.view, &view);
                        report_diffs(rep, "C01", backend, "live", out.kind, &diffs, &ctx);
                        if !diffs.is_empty() {
                            // resync the model so one defect is reported once
                            s.driver.model.view = view;
                        }
                    }
                    Err(e) => report_snap_error(rep, "C01", backend, "live", out.kind, &e, &ctx),
                }
                // deleted ids stay unreadable
                let probes: Vec<_> = s.driver.model.deleted.iter().rev().take(3).cloned().collect();
                for (f, id) in probes {
                    if s.driver.model.folder(&f).is_none() || s.driver.model.folder(&f).unwrap().secrets.contains_key(&id) {
                        continue;
                    }
                    rep.count("deleted_probes", 1);
                    if s.account().read_secret(&id, Some(&f)).await.is_ok() {
                        rep.violation(&format!("C01:{backend}:deleted_secret_readable:after_{}", out.kind), &format!("secret {id} was deleted/moved out of folder {f} but read_secret still serves it"), json!({"ctx": ctx}));
                    }
                }
                // cold reopen at random prefixes and at the end
                if st + 1 == steps || s.driver.rng.chance(1, 9) {
                    match s.cold_reopen_view().await {
                        Ok((view, listing)) => {
                            reopens += 1;
                            rep.count("cold_reopens", 1);
                            report_diffs(rep, "C01", backend, "reopen_listing", "any", &listing, &ctx);
                            let diffs = diff_views(&s.driver.model.view, &view);
                            report_diffs(rep, "C01", backend, "reopen", "any", &diffs, &ctx);
                            if !diffs.is_empty() {
                                if let Ok((v, _)) = s.live_view().await {
                                    s.driver.model.view = v;
                                }
                            }
                        }
                        Err(e) => report_snap_error(rep, "C01", backend, "reopen", "any", &e, &ctx),
                    }
                }
                if rep.violations() > v0 {
                    stop = true;
                }
            }
            rep.case(hash.finish(), mutations > 0 && reopens > 0);
            rep.max("max:secrets_in_model", s.driver.model.total_secrets() as u64);
            if h == 0 && ci == 0 {
                rep.sample(json!({"config": cname, "steps": steps, "first_ops": s.driver.log.iter().take(10).collect::<Vec<_>>()}));
            }
            s.finish().await;
        }
        let _ = std::fs::remove_dir_all(&pdir);
    }
}
