//! Reference model of an account: a deterministic map
//! folder id -> {name, flags, description, secret id -> (meta, value)}.
use crate::snapshot::{AccountView, FolderView};
use serde_json::Value;
use sos_core::{SecretId, VaultId};

pub type FolderModel = FolderView;

#[derive(Clone, Debug, Default)]
pub struct AccountModel {
    pub view: AccountView,
    /// ids of secrets that were deleted (for negative probes)
    pub deleted: Vec<(VaultId, SecretId)>,
    /// folders that were deleted
    pub deleted_folders: Vec<VaultId>,
}

impl AccountModel {
    pub fn from_view(view: AccountView) -> Self {
        AccountModel { view, deleted: vec![], deleted_folders: vec![] }
    }
    pub fn folder(&self, id: &VaultId) -> Option<&FolderModel> {
        self.view.folders.get(id)
    }
    pub fn folder_mut(&mut self, id: &VaultId) -> Option<&mut FolderModel> {
        self.view.folders.get_mut(id)
    }
    pub fn put(&mut self, folder: &VaultId, id: SecretId, meta: Value, secret: Value) {
        if let Some(f) = self.view.folders.get_mut(folder) {
            f.secrets.insert(id, (meta, secret));
        }
    }
    pub fn remove(&mut self, folder: &VaultId, id: &SecretId) -> Option<(Value, Value)> {
        let r = self.view.folders.get_mut(folder).and_then(|f| f.secrets.remove(id));
        if r.is_some() {
            self.deleted.push((*folder, *id));
        }
        r
    }
    /// Live secrets ordered by (folder name, label): both are generated from
    /// the seed, so the order does not depend on the random uuids.
    pub fn live_secrets(&self) -> Vec<(VaultId, SecretId)> {
        let mut out: Vec<(String, String, VaultId, SecretId)> = vec![];
        for (fid, f) in &self.view.folders {
            for (sid, (m, _)) in &f.secrets {
                out.push((f.name.clone(), m.get("label").and_then(|l| l.as_str()).unwrap_or("").to_string(), *fid, *sid));
            }
        }
        out.sort();
        out.into_iter().map(|(_, _, f, s)| (f, s)).collect()
    }

    /// Folder ids ordered by (name, flags).
    pub fn folder_ids_sorted(&self) -> Vec<VaultId> {
        let mut v: Vec<(&str, u64, VaultId)> = self.view.folders.iter().map(|(id, f)| (f.name.as_str(), f.flags, *id)).collect();
        v.sort();
        v.into_iter().map(|(_, _, id)| id).collect()
    }
    pub fn total_secrets(&self) -> usize {
        self.view.folders.values().map(|f| f.secrets.len()).sum()
    }
}
