//! Worker command line: `<bin> <check> --tier quick|thorough --seed N
//! --shard i/n --out FILE --dir DIR [--replay FILE] [--budget-s S]`.
use std::path::PathBuf;

#[derive(Clone, Debug)]
pub struct Args {
    pub check: String,
    pub tier: String,
    pub seed: u64,
    pub shard: usize,
    pub shards: usize,
    pub out: Option<PathBuf>,
    pub dir: PathBuf,
    pub replay: Option<PathBuf>,
    pub budget_s: u64,
    pub extra: Vec<String>,
}

impl Args {
    pub fn parse() -> Args {
        let mut it = std::env::args().skip(1);
        let check = it.next().unwrap_or_else(|| {
            eprintln!("usage: <check> [options]");
            std::process::exit(2)
        });
        let mut a = Args {
            check,
            tier: "quick".into(),
            seed: 1,
            shard: 0,
            shards: 1,
            out: None,
            dir: std::env::temp_dir(),
            replay: None,
            budget_s: 0,
            extra: vec![],
        };
        while let Some(k) = it.next() {
            let mut val = || it.next().unwrap_or_default();
            match k.as_str() {
                "--tier" => a.tier = val(),
                "--seed" => a.seed = val().parse().unwrap_or(1),
                "--shard" => {
                    let v = val();
                    let mut p = v.split('/');
                    a.shard = p.next().and_then(|x| x.parse().ok()).unwrap_or(0);
                    a.shards = p.next().and_then(|x| x.parse().ok()).unwrap_or(1);
                }
                "--out" => a.out = Some(PathBuf::from(val())),
                "--dir" => a.dir = PathBuf::from(val()),
                "--replay" => a.replay = Some(PathBuf::from(val())),
                "--budget-s" => a.budget_s = val().parse().unwrap_or(0),
                other => a.extra.push(other.to_string()),
            }
        }
        a
    }
    pub fn thorough(&self) -> bool {
        self.tier == "thorough"
    }
    /// Pick a bound by tier.
    pub fn by_tier<T>(&self, quick: T, thorough: T) -> T {
        if self.thorough() {
            thorough
        } else {
            quick
        }
    }
    /// Seed for this shard's stream.
    pub fn shard_seed(&self) -> u64 {
        self.seed
            .wrapping_mul(0x9E3779B97F4A7C15)
            .wrapping_add((self.shard as u64).wrapping_mul(0xD1B54A32D192ED03))
    }
}
