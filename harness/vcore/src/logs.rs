//! C06 / C07 at the `EventLog` level.
//!
//! A *world* is 2 accounts x {identity, account, device, files, folder x2}
//! co-resident in one directory (file system) or one sqlite file
//! (database). A script is a list of operations on randomly chosen logs of
//! the world; the same script is executed on both backends. Reference
//! model: `Vec<Rec{time, commit, bytes}>` per log.
//!
//! After every step, for EVERY log of the world (not only the touched one):
//!  * forward record stream == model; reverse stream == reversed forward;
//!  * a fresh instance + `load_tree()` has the leaves / root / len of the
//!    live tree and of the model;
//!  * every record's commit == SHA-256(event bytes);
//!  * an independent reader (raw file parse / plain SQL) sees the same rows.
//! C07 clauses on the touched log: checked patch applied iff the checkpoint
//! was taken from exactly the current sequence; every refused / failed
//! request leaves the log exactly as before.
use futures::{pin_mut, StreamExt};
use serde_json::{json, Value};
use sos_backend::{
    AccountEventLog, BackendEventLog, BackendTarget, DeviceEventLog,
    FileEventLog, FolderEventLog,
};
use sos_core::{
    commit::{CommitHash, CommitProof, CommitTree},
    device::{DevicePublicKey, TrustedDevice},
    encode,
    events::{
        patch::{CheckedPatch, Diff, Patch},
        AccountEvent, DeviceEvent, EventLog, EventRecord, FileEvent,
        WriteEvent,
    },
    AccountId, ExternalFileName, Paths, SecretPath, UtcDateTime, VaultCommit,
    VaultFlags, VaultId,
};
use sos_database::{
    async_sqlite::Client,
    entity::{AccountEntity, AccountRow, FolderEntity, FolderRow},
};
use sos_vault::Vault;
use std::path::{Path, PathBuf};
use std::sync::Arc;
use uuid::Uuid;
use vkit::{Args, Fnv, Reporter, Rng};

#[derive(Clone, PartialEq, Eq, Debug)]
pub struct Rec {
    pub time_ns: i128,
    pub commit: [u8; 32],
    pub bytes: Vec<u8>,
}

impl Rec {
    fn from_record(r: &EventRecord) -> Rec {
        Rec {
            time_ns: time::OffsetDateTime::from(r.time().clone()).unix_timestamp_nanos(),
            commit: r.commit().0,
            bytes: r.event_bytes().to_vec(),
        }
    }
    fn to_record(&self) -> EventRecord {
        EventRecord::new(
            UtcDateTime::from(
                time::OffsetDateTime::from_unix_timestamp_nanos(self.time_ns)
                    .unwrap(),
            ),
            Default::default(),
            CommitHash(self.commit),
            self.bytes.clone(),
        )
    }
    fn short(&self) -> String {
        format!("{}@{}", hex::encode(&self.commit[..3]), self.time_ns)
    }
}

fn show(recs: &[Rec]) -> Vec<String> {
    recs.iter().map(|r| r.short()).collect()
}

// ---------------------------------------------------------------------
// typed event generation (deterministic from a seed => byte-identical
// events for equal seeds, across logs and accounts)

pub trait EvKind:
    Default
    + binary_stream::futures::Encodable
    + binary_stream::futures::Decodable
    + Send
    + Sync
    + 'static
{
    fn make(seed: u64) -> Self;
}

fn uuid_of(seed: u64) -> Uuid {
    let mut b = [0u8; 16];
    b[..8].copy_from_slice(&seed.to_le_bytes());
    b[8..].copy_from_slice(&seed.wrapping_mul(0x9E3779B97F4A7C15).to_le_bytes());
    uuid::Builder::from_random_bytes(b).into_uuid()
}
fn bytes32(seed: u64) -> [u8; 32] {
    vkit::sha256(&seed.to_le_bytes())
}

impl EvKind for WriteEvent {
    fn make(seed: u64) -> Self {
        match seed % 5 {
            0 => WriteEvent::SetVaultName(format!("name-{}", seed)),
            1 => WriteEvent::DeleteSecret(uuid_of(seed)),
            2 => WriteEvent::SetVaultFlags(VaultFlags::from_bits_truncate(seed % 64)),
            3 => WriteEvent::CreateSecret(uuid_of(seed), VaultCommit(CommitHash(bytes32(seed)), Default::default())),
            _ => WriteEvent::UpdateSecret(uuid_of(seed / 7), VaultCommit(CommitHash(bytes32(seed)), Default::default())),
        }
    }
}
impl EvKind for AccountEvent {
    fn make(seed: u64) -> Self {
        match seed % 4 {
            0 => AccountEvent::RenameFolder(uuid_of(seed / 3), format!("folder-{}", seed)),
            1 => AccountEvent::DeleteFolder(uuid_of(seed)),
            2 => AccountEvent::RenameAccount(format!("acct-{}", seed)),
            _ => AccountEvent::CreateFolder(uuid_of(seed), bytes32(seed).to_vec()),
        }
    }
}
impl EvKind for DeviceEvent {
    fn make(seed: u64) -> Self {
        let pk: DevicePublicKey = bytes32(seed).into();
        if seed % 2 == 0 {
            DeviceEvent::Revoke(pk)
        } else {
            DeviceEvent::Trust(TrustedDevice::new(
                pk,
                None,
                Some(time::OffsetDateTime::from_unix_timestamp(1_700_000_000 + (seed % 1000) as i64).unwrap()),
            ))
        }
    }
}
impl EvKind for FileEvent {
    fn make(seed: u64) -> Self {
        let name: ExternalFileName = bytes32(seed).into();
        let p = SecretPath(uuid_of(seed % 3), uuid_of(seed));
        match seed % 3 {
            0 => FileEvent::CreateFile(p, name),
            1 => FileEvent::DeleteFile(p, name),
            _ => FileEvent::MoveFile { name, from: p, dest: SecretPath(uuid_of(seed % 5 + 9), uuid_of(seed + 1)) },
        }
    }
}

// ---------------------------------------------------------------------

pub enum AnyLog {
    Folder(FolderEventLog),
    Account(AccountEventLog),
    Device(DeviceEventLog),
    File(FileEventLog),
}

macro_rules! each_log {
    ($any:expr, $l:ident => $body:expr) => {
        match $any {
            AnyLog::Folder($l) => $body,
            AnyLog::Account($l) => $body,
            AnyLog::Device($l) => $body,
            AnyLog::File($l) => $body,
        }
    };
}

#[derive(Clone, Copy, Debug, PartialEq, Eq)]
pub enum Kind {
    Identity,
    Account,
    Device,
    Files,
    Folder(usize),
}
impl Kind {
    fn name(&self) -> String {
        match self {
            Kind::Identity => "identity".into(),
            Kind::Account => "account".into(),
            Kind::Device => "device".into(),
            Kind::Files => "files".into(),
            Kind::Folder(i) => format!("folder{}", i),
        }
    }
    fn class(&self) -> &'static str {
        match self {
            Kind::Identity => "identity",
            Kind::Account => "account",
            Kind::Device => "device",
            Kind::Files => "files",
            Kind::Folder(_) => "folder",
        }
    }
}

pub struct Slot {
    pub account: usize,
    pub kind: Kind,
    pub account_id: AccountId,
    pub folder_id: Option<VaultId>,
    pub live: AnyLog,
    pub model: Vec<Rec>,
}

impl Slot {
    fn label(&self) -> String {
        format!("a{}:{}", self.account, self.kind.name())
    }
}

#[derive(Clone)]
pub enum Store {
    Fs(Arc<Paths>),
    Db(Arc<Paths>, Client, PathBuf),
}

pub struct World {
    pub backend: &'static str,
    pub store: Store,
    pub slots: Vec<Slot>,
}

fn target_of(store: &Store) -> BackendTarget {
    match store {
        Store::Fs(p) => BackendTarget::FileSystem(p.clone()),
        Store::Db(p, c, _) => BackendTarget::Database(p.clone(), c.clone()),
    }
}

async fn open_log(
    store: &Store,
    kind: Kind,
    account_id: &AccountId,
    folder_id: Option<&VaultId>,
) -> Result<AnyLog, String> {
    let t = target_of(store);
    let e = |e: sos_backend::Error| format!("{e}");
    Ok(match kind {
        Kind::Identity => AnyLog::Folder(FolderEventLog::new_login_folder(t, account_id).await.map_err(e)?),
        Kind::Account => AnyLog::Account(AccountEventLog::new_account(t, account_id).await.map_err(e)?),
        Kind::Device => AnyLog::Device(DeviceEventLog::new_device(t, account_id).await.map_err(e)?),
        Kind::Files => AnyLog::File(FileEventLog::new_file(t, account_id).await.map_err(e)?),
        Kind::Folder(_) => AnyLog::Folder(FolderEventLog::new_folder(t, account_id, folder_id.unwrap()).await.map_err(e)?),
    })
}

pub async fn build_world(
    dir: &Path,
    db: bool,
    account_ids: &[AccountId],
    folder_ids: &[[VaultId; 3]],
) -> Result<World, String> {
    std::fs::create_dir_all(dir).map_err(|e| e.to_string())?;
    Paths::scaffold(&dir.to_path_buf()).await.map_err(|e| e.to_string())?;
    let base = Paths::new_client(dir);
    let store = if db {
        let file = dir.join("world.sqlite");
        let mut client = sos_database::open_file(&file).await.map_err(|e| e.to_string())?;
        sos_database::migrations::migrate_client(&mut client).await.map_err(|e| e.to_string())?;
        Store::Db(base.clone(), client, file)
    } else {
        Store::Fs(base.clone())
    };
    let mut slots = vec![];
    for (ai, account_id) in account_ids.iter().enumerate() {
        let fids = &folder_ids[ai];
        match &store {
            Store::Fs(p) => {
                p.with_account_id(account_id).ensure().await.map_err(|e| e.to_string())?;
            }
            Store::Db(_, client, _) => {
                let row = AccountRow::new_insert(account_id, format!("acct{}", ai)).map_err(|e| e.to_string())?;
                let mut frows = vec![];
                for (k, fid) in fids.iter().enumerate() {
                    let mut vault = Vault::default();
                    *vault.header_mut().id_mut() = *fid;
                    vault.set_name(format!("f{}", k));
                    if k == 0 {
                        *vault.flags_mut() = VaultFlags::IDENTITY;
                    }
                    frows.push((k == 0, FolderRow::new_insert(&vault).await.map_err(|e| e.to_string())?));
                }
                client
                    .conn_mut(move |conn| {
                        let account = AccountEntity::new(&conn);
                        let aid = account.insert(&row)?;
                        let folder = FolderEntity::new(&conn);
                        for (is_id, fr) in &frows {
                            let fid = folder.insert_folder(aid, fr)?;
                            if *is_id {
                                account.insert_login_folder(aid, fid)?;
                            }
                        }
                        Ok(())
                    })
                    .await
                    .map_err(|e| e.to_string())?;
            }
        }
        for kind in [Kind::Identity, Kind::Account, Kind::Device, Kind::Files, Kind::Folder(1), Kind::Folder(2)] {
            let folder_id = match kind {
                Kind::Identity => Some(fids[0]),
                Kind::Folder(i) => Some(fids[i]),
                _ => None,
            };
            let live = open_log(&store, kind, account_id, folder_id.as_ref()).await?;
            slots.push(Slot { account: ai, kind, account_id: *account_id, folder_id, live, model: vec![] });
        }
    }
    Ok(World { backend: if db { "db" } else { "fs" }, store, slots })
}

// ---------------------------------------------------------------------
// observation helpers

async fn stream_of<T: EvKind>(log: &BackendEventLog<T>, reverse: bool) -> Result<Vec<Rec>, String> {
    let stream = log.record_stream(reverse).await;
    pin_mut!(stream);
    let mut out = vec![];
    while let Some(r) = stream.next().await {
        match r {
            Ok(r) => out.push(Rec::from_record(&r)),
            Err(e) => return Err(format!("{e}")),
        }
    }
    Ok(out)
}

async fn any_stream(log: &AnyLog, reverse: bool) -> Result<Vec<Rec>, String> {
    each_log!(log, l => stream_of(l, reverse).await)
}

fn any_tree(log: &AnyLog) -> &CommitTree {
    each_log!(log, l => l.tree())
}

fn tree_from(commits: &[[u8; 32]]) -> CommitTree {
    let mut t = CommitTree::new();
    let mut v = commits.to_vec();
    t.append(&mut v);
    t.commit();
    t
}

fn model_commits(m: &[Rec]) -> Vec<[u8; 32]> {
    m.iter().map(|r| r.commit).collect()
}

/// Independent reader: raw file parse or plain SQL.
async fn raw_read(store: &Store, slot: &Slot) -> Result<Vec<Rec>, String> {
    match store {
        Store::Fs(base) => {
            let p = base.with_account_id(&slot.account_id);
            let (path, header) = match slot.kind {
                Kind::Identity => (p.identity_events(), 4usize),
                Kind::Account => (p.account_events(), 6),
                Kind::Device => (p.device_events(), 6),
                Kind::Files => (p.file_events(), 6),
                Kind::Folder(_) => (p.event_log_path(slot.folder_id.as_ref().unwrap()), 4),
            };
            let data = std::fs::read(&path).map_err(|e| format!("raw read {}: {e}", path.display()))?;
            parse_event_file(&data, header)
        }
        Store::Db(_, client, _) => {
            let (table, col, key_sql, key) = match slot.kind {
                Kind::Account => ("account_events", "account_id", "SELECT account_id FROM accounts WHERE identifier=?1", slot.account_id.to_string()),
                Kind::Device => ("device_events", "account_id", "SELECT account_id FROM accounts WHERE identifier=?1", slot.account_id.to_string()),
                Kind::Files => ("file_events", "account_id", "SELECT account_id FROM accounts WHERE identifier=?1", slot.account_id.to_string()),
                _ => ("folder_events", "folder_id", "SELECT folder_id FROM folders WHERE identifier=?1", slot.folder_id.unwrap().to_string()),
            };
            let q = format!("SELECT created_at, commit_hash, event FROM {table} WHERE {col}=?1 ORDER BY event_id ASC");
            let rows: Vec<(String, Vec<u8>, Vec<u8>)> = client
                .conn(move |conn| {
                    let id: i64 = conn.query_row(key_sql, [key], |r| r.get(0))?;
                    let mut stmt = conn.prepare(&q)?;
                    let rows = stmt.query_map([id], |r| Ok((r.get(0)?, r.get(1)?, r.get(2)?)))?;
                    let mut out = vec![];
                    for r in rows {
                        out.push(r?);
                    }
                    Ok(out)
                })
                .await
                .map_err(|e| format!("raw sql: {e}"))?;
            let mut out = vec![];
            for (t, c, b) in rows {
                let t = time::OffsetDateTime::parse(&t, &time::format_description::well_known::Rfc3339).map_err(|e| format!("raw sql time {t}: {e}"))?;
                let commit: [u8; 32] = c.as_slice().try_into().map_err(|_| "raw sql: commit not 32 bytes".to_string())?;
                out.push(Rec { time_ns: t.unix_timestamp_nanos(), commit, bytes: b });
            }
            Ok(out)
        }
    }
}

/// Harness-side reader of the event log file format (little endian):
/// identity(4) [version u16] then rows
/// `u32 len | i64 secs | u32 nanos | 32 last | 32 commit | u32 n | n bytes | u32 len`.
pub fn parse_event_file(data: &[u8], header: usize) -> Result<Vec<Rec>, String> {
    if data.len() < header {
        return Err("file shorter than header".into());
    }
    let mut pos = header;
    let mut out = vec![];
    let mut last = [0u8; 32];
    let rd32 = |p: usize| -> Result<u32, String> {
        data.get(p..p + 4).map(|b| u32::from_le_bytes(b.try_into().unwrap())).ok_or_else(|| format!("truncated at {p}"))
    };
    while pos < data.len() {
        let len = rd32(pos)? as usize;
        let body = pos + 4;
        if body + len + 4 > data.len() {
            return Err(format!("row at {pos} overruns the file"));
        }
        let secs = i64::from_le_bytes(data[body..body + 8].try_into().unwrap());
        let nanos = u32::from_le_bytes(data[body + 8..body + 12].try_into().unwrap());
        let prev: [u8; 32] = data[body + 12..body + 44].try_into().unwrap();
        let commit: [u8; 32] = data[body + 44..body + 76].try_into().unwrap();
        let n = rd32(body + 76)? as usize;
        if 80 + n != len {
            return Err(format!("row at {pos}: row len {len} != 80 + data len {n}"));
        }
        let bytes = data[body + 80..body + 80 + n].to_vec();
        let trailer = rd32(body + len)? as usize;
        if trailer != len {
            return Err(format!("row at {pos}: leading len {len} != trailing len {trailer}"));
        }
        if prev != last {
            return Err(format!("row at {pos}: last-commit field does not chain to the previous row"));
        }
        last = commit;
        out.push(Rec { time_ns: secs as i128 * 1_000_000_000 + nanos as i128, commit, bytes });
        pos = body + len + 4;
    }
    Ok(out)
}

// ---------------------------------------------------------------------
// operations

#[derive(Clone, Debug)]
pub enum Op {
    Apply(Vec<u64>),
    ApplyRecords(Vec<(u64, i128)>),
    PatchUnchecked(Vec<(u64, i128)>),
    /// checkpoint kind, records
    PatchChecked(Checkpoint, Vec<(u64, i128)>),
    Rewind(RewindTarget),
    Clear,
    ReplaceAll(Vec<(u64, i128)>, bool),
    Reopen,
}

#[derive(Clone, Debug)]
pub enum Checkpoint {
    Exact,
    /// head of model[..k], k < len
    Earlier(usize),
    /// model with its last leaf replaced
    Sibling(u64),
    /// exact proof with a forged root
    ForgedRoot,
    /// head of another slot of the world
    OtherLog(usize),
}

#[derive(Clone, Debug)]
pub enum RewindTarget {
    Index(usize),
    Absent(u64),
}

fn gen_recs(rng: &mut Rng, max: usize) -> Vec<(u64, i128)> {
    let n = rng.range(1, max as u64) as usize;
    (0..n).map(|_| (gen_seed(rng), gen_time(rng))).collect()
}
fn gen_seed(rng: &mut Rng) -> u64 {
    if rng.chance(2, 5) {
        rng.below(4) // shared pool: byte-identical events within/across logs
    } else {
        1000 + rng.below(1 << 40)
    }
}
fn gen_time(rng: &mut Rng) -> i128 {
    // 2001..2100, arbitrary nanos; some ties and round values
    let secs = rng.range(1_000_000_000, 4_100_000_000) as i128;
    let nanos = match rng.below(4) {
        0 => 0,
        1 => 999_999_999,
        2 => (rng.below(1000) * 1_000_000) as i128,
        _ => rng.below(1_000_000_000) as i128,
    };
    if rng.chance(1, 8) {
        1_700_000_000i128 * 1_000_000_000
    } else {
        secs * 1_000_000_000 + nanos
    }
}

pub fn gen_op(rng: &mut Rng, world: &World, si: usize, refusal_heavy: bool) -> Op {
    let m = &world.slots[si].model;
    let w: [u32; 8] = if refusal_heavy { [2, 2, 1, 8, 6, 1, 6, 1] } else { [5, 4, 2, 4, 3, 1, 2, 2] };
    match rng.weighted(&w) {
        0 => Op::Apply((0..rng.range(1, 3)).map(|_| gen_seed(rng)).collect()),
        1 => Op::ApplyRecords(gen_recs(rng, 3)),
        2 => Op::PatchUnchecked(gen_recs(rng, 3)),
        3 => {
            let cp = if m.is_empty() {
                if rng.bool() { Checkpoint::Exact } else { Checkpoint::OtherLog(rng.usize(world.slots.len())) }
            } else {
                match rng.below(if refusal_heavy { 8 } else { 6 }) {
                    0 | 1 => Checkpoint::Exact,
                    2 | 6 => if m.len() > 1 { Checkpoint::Earlier(rng.range(1, m.len() as u64 - 1) as usize) } else { Checkpoint::Exact },
                    3 | 7 => Checkpoint::Sibling(gen_seed(rng)),
                    4 => Checkpoint::ForgedRoot,
                    _ => Checkpoint::OtherLog(rng.usize(world.slots.len())),
                }
            };
            Op::PatchChecked(cp, gen_recs(rng, 3))
        }
        4 => {
            if m.is_empty() || rng.chance(1, 4) {
                Op::Rewind(RewindTarget::Absent(rng.next()))
            } else {
                Op::Rewind(RewindTarget::Index(rng.usize(m.len())))
            }
        }
        5 => Op::Clear,
        // sometimes an empty replacement (either outcome is acceptable, a refusal must change nothing)
        6 => Op::ReplaceAll(if rng.chance(1, 6) { vec![] } else { gen_recs(rng, 4) }, rng.chance(if refusal_heavy { 1 } else { 3 }, 4)),
        _ => Op::Reopen,
    }
}

fn recs_of<T: EvKind>(specs: &[(u64, i128)]) -> impl std::future::Future<Output = Vec<Rec>> + '_ {
    async move {
        let mut out = vec![];
        for (seed, t) in specs {
            let ev = T::make(*seed);
            let bytes = encode(&ev).await.expect("encode event");
            out.push(Rec { time_ns: *t, commit: CommitTree::hash(&bytes), bytes });
        }
        out
    }
}

#[derive(Debug, Clone, PartialEq)]
pub enum Outcome {
    Ok,
    Success,
    Conflict,
    Err(String),
}
impl Outcome {
    fn class(&self) -> &'static str {
        match self {
            Outcome::Ok => "ok",
            Outcome::Success => "success",
            Outcome::Conflict => "conflict",
            Outcome::Err(_) => "err",
        }
    }
}

pub struct Expect {
    /// state if the request is applied
    pub applied: Option<Vec<Rec>>,
    /// must it be applied (Some(true)), refused (Some(false)) or either (None)
    pub must_apply: Option<bool>,
}

async fn exec_typed<T: EvKind>(
    log: &mut BackendEventLog<T>,
    model: &[Rec],
    other_heads: &dyn Fn(usize) -> Option<CommitProof>,
    op: &Op,
) -> (Outcome, Expect) {
    let oc = |r: Result<(), sos_backend::Error>| match r {
        Ok(()) => Outcome::Ok,
        Err(e) => Outcome::Err(format!("{e}")),
    };
    match op {
        Op::Apply(seeds) => {
            let events: Vec<T> = seeds.iter().map(|s| T::make(*s)).collect();
            let mut applied = model.to_vec();
            for ev in &events {
                let bytes = encode(ev).await.expect("encode");
                // time is "now" = the logical clock set by the driver
                let now = sos_core::verif::clock_peek().unwrap_or(i128::MIN);
                applied.push(Rec { time_ns: now, commit: CommitTree::hash(&bytes), bytes });
            }
            (oc(log.apply(&events).await), Expect { applied: Some(applied), must_apply: Some(true) })
        }
        Op::ApplyRecords(specs) | Op::PatchUnchecked(specs) => {
            let recs = recs_of::<T>(specs).await;
            let mut applied = model.to_vec();
            applied.extend(recs.iter().cloned());
            let records: Vec<EventRecord> = recs.iter().map(|r| r.to_record()).collect();
            let out = if matches!(op, Op::ApplyRecords(_)) {
                oc(log.apply_records(records).await)
            } else {
                oc(log.patch_unchecked(&Patch::<T>::new(records)).await)
            };
            (out, Expect { applied: Some(applied), must_apply: Some(true) })
        }
        Op::PatchChecked(cp, specs) => {
            let recs = recs_of::<T>(specs).await;
            let mut applied = model.to_vec();
            applied.extend(recs.iter().cloned());
            let commits = model_commits(model);
            // the sequence the sender computed the patch against
            let (proof, base_equal): (Option<CommitProof>, bool) = match cp {
                Checkpoint::Exact => (tree_from(&commits).head().ok(), true),
                Checkpoint::Earlier(k) => (tree_from(&commits[..*k]).head().ok(), false),
                Checkpoint::Sibling(seed) => {
                    let mut c = commits.clone();
                    let alt = bytes32(*seed ^ 0x5151);
                    let same = c.last() == Some(&alt);
                    if let Some(l) = c.last_mut() {
                        *l = alt;
                    }
                    (tree_from(&c).head().ok(), same)
                }
                Checkpoint::ForgedRoot => {
                    let mut p = tree_from(&commits).head().ok();
                    if let Some(p) = p.as_mut() {
                        p.root = CommitHash(bytes32(0xF0F0));
                    }
                    (p, false)
                }
                Checkpoint::OtherLog(i) => {
                    let p = other_heads(*i);
                    // equal base iff the other log holds the same sequence
                    (p, false)
                }
            };
            let Some(proof) = proof else {
                // empty base: no proof can be formed; send a default proof
                let p = CommitProof::default();
                let r = log.patch_checked(&p, &Patch::<T>::new(recs.iter().map(|r| r.to_record()).collect())).await;
                let out = match r {
                    Ok(CheckedPatch::Success(_)) => Outcome::Success,
                    Ok(CheckedPatch::Conflict { .. }) => Outcome::Conflict,
                    Err(e) => Outcome::Err(format!("{e}")),
                };
                return (out, Expect { applied: Some(applied), must_apply: Some(false) });
            };
            let must = if let Checkpoint::OtherLog(_) = cp {
                // decided by root equality of the sequences
                let me = tree_from(&commits).root();
                Some(me.is_some() && me.as_ref() == Some(&proof.root))
            } else {
                Some(base_equal)
            };
            let r = log.patch_checked(&proof, &Patch::<T>::new(recs.iter().map(|r| r.to_record()).collect())).await;
            let out = match r {
                Ok(CheckedPatch::Success(_)) => Outcome::Success,
                Ok(CheckedPatch::Conflict { .. }) => Outcome::Conflict,
                Err(e) => Outcome::Err(format!("{e}")),
            };
            (out, Expect { applied: Some(applied), must_apply: must })
        }
        Op::Rewind(t) => {
            let (commit, present) = match t {
                RewindTarget::Index(i) => (model[*i].commit, true),
                RewindTarget::Absent(s) => (bytes32(*s ^ 0xABAB), false),
            };
            let r = log.rewind(&CommitHash(commit)).await;
            let out = match r {
                Ok(_) => Outcome::Ok,
                Err(e) => Outcome::Err(format!("{e}")),
            };
            // applied state is "some prefix ending in the target"; resolved by the caller
            (out, Expect { applied: None, must_apply: Some(present) })
        }
        Op::Clear => (oc(log.clear().await), Expect { applied: Some(vec![]), must_apply: Some(true) }),
        Op::ReplaceAll(specs, good) => {
            let recs = recs_of::<T>(specs).await;
            let commits = model_commits(&recs);
            let checkpoint = if commits.is_empty() {
                CommitProof::default()
            } else if *good {
                tree_from(&commits).head().unwrap()
            } else {
                let mut c = commits.clone();
                c.push(bytes32(0xBAD));
                tree_from(&c).head().unwrap()
            };
            let diff = Diff::<T> {
                last_commit: None,
                patch: Patch::<T>::new(recs.iter().map(|r| r.to_record()).collect()),
                checkpoint,
            };
            let out = oc(log.replace_all_events(&diff).await);
            let must = if recs.is_empty() { None } else { Some(*good) };
            (out, Expect { applied: Some(recs), must_apply: must })
        }
        Op::Reopen => unreachable!(),
    }
}

fn same_modulo_wildcard(expect: &[Rec], got: &[Rec]) -> bool {
    expect.len() == got.len()
        && expect.iter().zip(got).all(|(e, g)| {
            e.commit == g.commit && e.bytes == g.bytes && (e.time_ns == i128::MIN || e.time_ns == g.time_ns)
        })
}

pub struct StepResult {
    pub outcome: Outcome,
    pub after: Vec<Rec>,
}

/// Execute one op on slot `si` of `world`, check every clause, update the
/// model adaptively (the model follows what is actually stored so that one
/// defect does not cascade), and return the outcome for the parity check.
pub async fn step(
    world: &mut World,
    si: usize,
    op: &Op,
    rep: &mut Reporter,
    prop: &str,
    ctx: &Value,
) -> Result<StepResult, String> {
    let backend = world.backend;
    let class = world.slots[si].kind.class();
    let label = world.slots[si].label();
    let opname = match op {
        Op::Apply(_) => "apply",
        Op::ApplyRecords(_) => "apply_records",
        Op::PatchUnchecked(_) => "patch_unchecked",
        Op::PatchChecked(..) => "patch_checked",
        Op::Rewind(_) => "rewind",
        Op::Clear => "clear",
        Op::ReplaceAll(..) => "replace_all",
        Op::Reopen => "reopen",
    };
    rep.count(&format!("op:{opname}"), 1);
    let before = world.slots[si].model.clone();

    if let Op::Reopen = op {
        let s = &world.slots[si];
        let mut fresh = open_log(&world.store, s.kind, &s.account_id, s.folder_id.as_ref()).await?;
        each_log!(&mut fresh, l => l.load_tree().await.map_err(|e| format!("load_tree: {e}"))?);
        world.slots[si].live = fresh;
        verify_all(world, Some(si), rep, prop, opname, ctx).await?;
        return Ok(StepResult { outcome: Outcome::Ok, after: before });
    }

    // heads of the other logs, for OtherLog checkpoints
    let heads: Vec<Option<CommitProof>> = world.slots.iter().map(|s| any_tree(&s.live).head().ok()).collect();
    let other = |i: usize| heads.get(i).cloned().flatten();

    let model = before.clone();
    let (outcome, expect) = {
        let slot = &mut world.slots[si];
        each_log!(&mut slot.live, l => exec_typed(l, &model, &other, op).await)
    };
    rep.count(&format!("outcome:{opname}:{}", outcome.class()), 1);

    // what is actually stored now (through the live instance)
    let actual = any_stream(&world.slots[si].live, false).await.map_err(|e| format!("stream after {opname}: {e}"))?;

    let applied_ok = |applied: &Vec<Rec>| same_modulo_wildcard(applied, &actual);
    let unchanged = actual == before;
    let succeeded = matches!(outcome, Outcome::Ok | Outcome::Success);

    // resolve "applied" for rewind: any prefix of `before` ending in the target
    let mut applied_state = expect.applied.clone();
    if let Op::Rewind(t) = op {
        if let RewindTarget::Index(i) = t {
            let target = before[*i].commit;
            if actual.len() <= before.len() && before[..actual.len()] == actual[..] && actual.last().map(|r| r.commit) == Some(target) {
                applied_state = Some(actual.clone());
            } else {
                // canonical expectation: cut after the last occurrence
                let last = before.iter().rposition(|r| r.commit == target).unwrap();
                applied_state = Some(before[..=last].to_vec());
            }
        } else {
            applied_state = Some(before.clone());
        }
    }
    let applied_state = applied_state.unwrap();
    let is_applied = applied_ok(&applied_state);

    let witness = |what: &str| {
        json!({"ctx": ctx, "backend": backend, "log": label, "op": format!("{op:?}"), "outcome": format!("{outcome:?}"), "what": what,
               "before": show(&before), "after": show(&actual), "expected_if_applied": show(&applied_state)})
    };

    // ---- C07 clauses ---------------------------------------------------
    if prop == "C07" {
        let refusable = matches!(op, Op::PatchChecked(..) | Op::Rewind(_) | Op::ReplaceAll(..));
        if refusable {
            rep.count("c07_requests", 1);
            if !succeeded {
                rep.count("c07_refusals_observed", 1);
                rep.count(&format!("c07_refusal:{backend}:{class}:{opname}"), 1);
                if !unchanged {
                    rep.violation(
                        &format!("C07:{backend}:{opname}:refused_but_changed"),
                        &format!("{opname} on {label} ({backend}) returned {outcome:?} but the log changed: before {:?} after {:?}", show(&before), show(&actual)),
                        witness("refused request changed the log"),
                    );
                }
            }
            match expect.must_apply {
                Some(true) if !succeeded => {
                    rep.violation(
                        &format!("C07:{backend}:{opname}:agreed_base_refused"),
                        &format!("{opname} on {label} ({backend}) was refused ({outcome:?}) although the checkpoint/target matches the current log"),
                        witness("matching request refused"),
                    );
                }
                Some(false) if succeeded => {
                    rep.violation(
                        &format!("C07:{backend}:{opname}:stale_base_accepted"),
                        &format!("{opname} on {label} ({backend}) succeeded although its checkpoint/target does not match the current log"),
                        witness("non-matching request accepted"),
                    );
                }
                _ => {}
            }
            if succeeded && !is_applied {
                rep.violation(
                    &format!("C07:{backend}:{opname}:success_wrong_state"),
                    &format!("{opname} on {label} ({backend}) reported success but the log is not the expected result"),
                    witness("success with unexpected content"),
                );
            }
        }
    }

    // ---- C06 clause on the touched log: state is before or after -----------
    if prop == "C06" {
        if !is_applied && !unchanged {
            rep.violation(
                &format!("C06:{backend}:{opname}:neither_before_nor_after"),
                &format!("after {opname} ({outcome:?}) on {label} ({backend}) the stored records are neither the previous nor the requested sequence"),
                witness("log content is neither before nor after"),
            );
        }
        if succeeded && !is_applied && !matches!(op, Op::PatchChecked(..) | Op::ReplaceAll(..) | Op::Rewind(_)) {
            rep.violation(
                &format!("C06:{backend}:{opname}:ok_but_not_stored"),
                &format!("{opname} on {label} ({backend}) returned Ok but the stored records differ from what was appended"),
                witness("append reported ok but storage differs"),
            );
        }
    }

    // adaptive model
    world.slots[si].model = actual.clone();
    verify_all(world, Some(si), rep, prop, opname, ctx).await?;
    Ok(StepResult { outcome, after: actual })
}

/// The per-step oracle over every log of the world.
pub async fn verify_all(
    world: &mut World,
    touched: Option<usize>,
    rep: &mut Reporter,
    prop: &str,
    opname: &str,
    ctx: &Value,
) -> Result<(), String> {
    let backend = world.backend;
    let n = world.slots.len();
    for i in 0..n {
        let is_touched = touched == Some(i);
        let label = world.slots[i].label();
        let touched_label = touched.map(|t| world.slots[t].label()).unwrap_or_default();
        let model = world.slots[i].model.clone();
        let fwd = any_stream(&world.slots[i].live, false).await.map_err(|e| format!("fwd stream {label}: {e}"))?;
        rep.count("logs_checked", 1);
        let w = |what: &str, extra: Value| json!({"ctx": ctx, "backend": backend, "log": label, "after_op": opname, "on": touched_label, "what": what, "detail": extra});
        if fwd != model {
            if !is_touched {
                let sig = if prop == "C07" { format!("C07:{backend}:{opname}:other_log_changed") } else { format!("C06:{backend}:{opname}:other_log_changed") };
                rep.violation(&sig, &format!("{opname} on {touched_label} changed another log {label} ({backend}): {:?} -> {:?}", show(&model), show(&fwd)), w("another log changed", json!({"before": show(&model), "after": show(&fwd)})));
                world.slots[i].model = fwd.clone();
                // re-open the damaged log so that one defect is not
                // reported again under other signatures
                let s = &world.slots[i];
                let mut fresh = open_log(&world.store, s.kind, &s.account_id, s.folder_id.as_ref()).await?;
                each_log!(&mut fresh, l => l.load_tree().await.map_err(|e| format!("load_tree: {e}"))?);
                world.slots[i].live = fresh;
            } else {
                return Err(format!("internal: touched log model out of date for {label}"));
            }
        }
        if prop != "C06" {
            // C07 still needs the tree clause on every log ("same tree")
            let leaves = any_tree(&world.slots[i].live).leaves().unwrap_or_default();
            if leaves != model_commits(&fwd) {
                let which = if is_touched { "touched" } else { "other" };
                rep.violation(&format!("C07:{backend}:{opname}:tree_differs_from_records:{which}"), &format!("after {opname} on {touched_label}: in-memory tree of {label} ({backend}) has {} leaves, stored records {}", leaves.len(), fwd.len()), w("tree != records", json!({"tree_len": leaves.len(), "records": show(&fwd)})));
            }
            continue;
        }
        let which = if is_touched { "touched" } else { "other" };
        // hashes
        for r in &fwd {
            if vkit::sha256(&r.bytes) != r.commit {
                rep.violation(&format!("C06:{backend}:hash_mismatch"), &format!("record {} of {label} ({backend}) has commit != sha256(event bytes)", r.short()), w("commit != sha256(bytes)", json!({})));
            }
        }
        // reverse == mirror
        let rev = any_stream(&world.slots[i].live, true).await.map_err(|e| format!("rev stream {label}: {e}"))?;
        let mut mirrored = rev.clone();
        mirrored.reverse();
        if mirrored != fwd {
            rep.violation(&format!("C06:{backend}:{opname}:reverse_not_mirror:{which}"), &format!("reverse iteration of {label} ({backend}) is not the mirror of forward iteration"), w("reverse != mirror(forward)", json!({"forward": show(&fwd), "reverse": show(&rev)})));
        }
        // live tree vs records
        let live_tree = any_tree(&world.slots[i].live);
        let live_leaves = live_tree.leaves().unwrap_or_default();
        let commits = model_commits(&fwd);
        if live_leaves != commits {
            rep.violation(&format!("C06:{backend}:{opname}:live_tree_differs_from_records:{which}"), &format!("after {opname} on {touched_label}: in-memory tree of {label} ({backend}) has {} leaves but storage holds {} records", live_leaves.len(), fwd.len()), w("live tree != stored records", json!({"tree": live_leaves.iter().map(|l| hex::encode(&l[..3])).collect::<Vec<_>>(), "records": show(&fwd)})));
        }
        let model_tree = tree_from(&commits);
        if live_tree.root() != model_tree.root() || live_tree.len() != commits.len() {
            rep.violation(&format!("C06:{backend}:{opname}:live_root_differs:{which}"), &format!("root/len of the in-memory tree of {label} ({backend}) differ from a tree built over the stored records"), w("live root != root(records)", json!({})));
        }
        if !commits.is_empty() && live_tree.last_commit().map(|c| c.0) != commits.last().copied() {
            rep.violation(&format!("C06:{backend}:{opname}:last_commit_differs:{which}"), &format!("last_commit() of {label} ({backend}) is not the commit of the last stored record"), w("last_commit != last record", json!({})));
        }
        // fresh instance
        {
            let s = &world.slots[i];
            let mut fresh = open_log(&world.store, s.kind, &s.account_id, s.folder_id.as_ref()).await?;
            let r = each_log!(&mut fresh, l => l.load_tree().await);
            match r {
                Ok(()) => {
                    let fl = any_tree(&fresh).leaves().unwrap_or_default();
                    rep.count("fresh_reloads", 1);
                    if fl != live_leaves || any_tree(&fresh).root() != live_tree.root() {
                        rep.violation(&format!("C06:{backend}:{opname}:reload_differs_from_live:{which}"), &format!("after {opname} on {touched_label}: re-opening {label} ({backend}) gives {} leaves, live tree has {}", fl.len(), live_leaves.len()), w("reloaded tree != live tree", json!({"reloaded": fl.len(), "live": live_leaves.len(), "records": show(&fwd)})));
                    }
                    let ffwd = any_stream(&fresh, false).await.map_err(|e| format!("fresh stream: {e}"))?;
                    if ffwd != fwd {
                        rep.violation(&format!("C06:{backend}:{opname}:reload_records_differ:{which}"), &format!("a fresh instance of {label} ({backend}) streams different records than the live one"), w("fresh stream != live stream", json!({})));
                    }
                }
                Err(e) => {
                    rep.violation(&format!("C06:{backend}:{opname}:reload_failed:{which}"), &format!("load_tree on a fresh instance of {label} ({backend}) failed: {e}"), w("reload failed", json!({"error": e.to_string()})));
                }
            }
        }
        // independent reader
        match raw_read(&world.store, &world.slots[i]).await {
            Ok(raw) => {
                rep.count("raw_reads", 1);
                if raw != fwd {
                    let time_only = raw.len() == fwd.len() && raw.iter().zip(&fwd).all(|(a, b)| a.commit == b.commit && a.bytes == b.bytes);
                    let kind = if time_only { "raw_time_differs" } else { "raw_rows_differ" };
                    rep.violation(&format!("C06:{backend}:{kind}"), &format!("independent reader of {label} ({backend}) sees different rows than the log's own stream ({kind})"), w("raw rows != stream", json!({"raw": show(&raw), "stream": show(&fwd)})));
                }
            }
            Err(e) => {
                rep.violation(&format!("C06:{backend}:{opname}:raw_format_broken:{which}"), &format!("independent reader cannot parse the storage of {label} ({backend}) after {opname} on {touched_label}: {e}"), w("raw format broken", json!({"error": e})));
            }
        }
    }
    Ok(())
}

// ---------------------------------------------------------------------

pub fn run(args: &Args, rep: &mut Reporter, prop: &'static str) {
    let rt = tokio::runtime::Builder::new_multi_thread().worker_threads(2).enable_all().build().unwrap();
    rt.block_on(run_async(args, rep, prop));
}

async fn run_async(args: &Args, rep: &mut Reporter, prop: &'static str) {
    let scripts = if prop == "C06" { args.by_tier(6u64, 150u64) } else { args.by_tier(6u64, 150u64) };
    let steps = args.by_tier(30usize, 40usize);
    let mut rng = Rng::new(args.shard_seed() ^ if prop == "C06" { 6 } else { 7 });
    for sc in 0..scripts {
        let dir = args.dir.join(format!("w{}", sc));
        let account_ids = [AccountId::random(), AccountId::random()];
        let folder_ids = [
            [Uuid::new_v4(), Uuid::new_v4(), Uuid::new_v4()],
            [Uuid::new_v4(), Uuid::new_v4(), Uuid::new_v4()],
        ];
        let mut fs = match build_world(&dir.join("fs"), false, &account_ids, &folder_ids).await {
            Ok(w) => w,
            Err(e) => {
                rep.inconclusive(&format!("cannot build fs world: {e}"));
                return;
            }
        };
        let mut db = match build_world(&dir.join("db"), true, &account_ids, &folder_ids).await {
            Ok(w) => w,
            Err(e) => {
                rep.inconclusive(&format!("cannot build db world: {e}"));
                return;
            }
        };
        let mut script_hash = Fnv::new();
        let mut script_ops: Vec<String> = vec![];
        let mut refusals = 0u64;
        let mut diverged = false;
        for st in 0..steps {
            // few logs are hit repeatedly: bias to 4 of the 12 slots
            let si = if rng.chance(3, 4) { [4usize, 5, 10, 1][rng.usize(4)] } else { rng.usize(fs.slots.len()) };
            let op = gen_op(&mut rng, &fs, si, prop == "C07");
            let opdesc = format!("{}:{:?}", fs.slots[si].label(), op);
            script_hash.str(&opdesc);
            script_ops.push(opdesc.clone());
            let ctx = json!({"script": sc, "step": st, "ops": script_ops});
            // logical clock (hook H1): constant during the step, so `apply`
            // stamps the same, predictable time on both backends
            let now_ns: i128 = 1_800_000_000i128 * 1_000_000_000 + ((sc as i128) * 1000 + st as i128) * 1_000_000_007;
            sos_core::verif::clock_set(now_ns, 0);
            let a = step(&mut fs, si, &op, rep, prop, &ctx).await;
            sos_core::verif::clock_set(now_ns, 0);
            let b = if diverged { None } else { Some(step(&mut db, si, &op, rep, prop, &ctx).await) };
            sos_core::verif::clock_clear();
            rep.count("steps", 1);
            match (a, b) {
                (Ok(a), Some(Ok(b))) => {
                    if !matches!(a.outcome, Outcome::Ok | Outcome::Success) {
                        refusals += 1;
                    }
                    let times_differ = a.after.len() == b.after.len()
                        && a.after.iter().zip(&b.after).all(|(x, y)| x.commit == y.commit && x.bytes == y.bytes);
                    let is_apply = matches!(op, Op::Apply(_));
                    if a.outcome.class() != b.outcome.class() || (a.after != b.after && !(times_differ && is_apply)) {
                        if prop == "C06" {
                            let opn = format!("{op:?}");
                            let opn = opn.split('(').next().unwrap_or("op").to_string();
                            let what = if a.outcome.class() != b.outcome.class() { "outcome" } else { "content" };
                            rep.violation(
                                &format!("C06:parity:{opn}:{what}"),
                                &format!("same script, different answers: fs {:?} -> {:?}; db {:?} -> {:?}", a.outcome, show(&a.after), b.outcome, show(&b.after)),
                                json!({"ctx": ctx, "op": opdesc, "fs": {"outcome": format!("{:?}", a.outcome), "after": show(&a.after)}, "db": {"outcome": format!("{:?}", b.outcome), "after": show(&b.after)}}),
                            );
                        }
                        if a.after != b.after && !(times_differ && is_apply) {
                            // models differ from here on: later ops are generated from the fs model only
                            diverged = true;
                            rep.count("scripts_diverged", 1);
                        }
                    } else if times_differ && is_apply && a.after != b.after {
                        // `apply` stamps "now" on each backend separately; align the db model's
                        // notion with its own observed times (already adaptive) – nothing to do
                    }
                }
                (Err(e), _) | (_, Some(Err(e))) => {
                    rep.inconclusive(&format!("harness error in script {sc} step {st}: {e}"));
                    return;
                }
                (Ok(_), None) => {}
            }
        }
        rep.case(script_hash.finish(), refusals > 0);
        if sc == 0 {
            rep.sample(json!({"script": script_ops.iter().take(12).collect::<Vec<_>>(), "steps": steps, "logs_in_world": fs.slots.len()}));
        }
        drop(fs);
        drop(db);
        let _ = std::fs::remove_dir_all(&dir);
    }
}
