//! C08 (scan part) — the ancestor the client's proof scan reports is the true
//! longest common prefix of the client's log and the server's log.
//!
//! The repo's own `AutoMerge::scan_proofs` runs on a real account (fs / db)
//! against the real `server_helpers::event_scan` through the loopback
//! client. Before each case both copies of one log (identity, account or a
//! folder log) are rewound to their shared base and extended with two
//! sequences over a three-event alphabet (repeats allowed, so equal leaves at
//! equal positions over different prefixes occur), all pairs up to a length
//! bound exhaustively plus random longer pairs that exceed the server's page
//! size. Oracle: list arithmetic on the raw commit sequences.
use crate::sched::Scheduler;
use crate::world::*;
use serde_json::json;
use sos_core::commit::{CommitHash, CommitTree};
use sos_core::events::{AccountEvent, EventLog, EventLogType, WriteEvent};
use sos_core::VaultId;
use sos_protocol::ScanRequest;
use sos_remote_sync::AutoMerge;
use sos_sync::StorageEventLogs;
use std::sync::Arc;
use vkit::{Args, Fnv, Reporter, Rng};
use vmodel::setup::{self, Backend, Config};

#[derive(Clone, Copy, Debug, PartialEq)]
pub(crate) enum Which {
    Identity,
    Account,
    Device,
    Folder(VaultId),
}

impl Which {
    pub(crate) fn name(&self) -> &'static str {
        match self {
            Which::Identity => "identity",
            Which::Account => "account",
            Which::Device => "device",
            Which::Folder(_) => "folder",
        }
    }
    pub(crate) fn log_type(&self) -> EventLogType {
        match self {
            Which::Identity => EventLogType::Identity,
            Which::Account => EventLogType::Account,
            Which::Device => EventLogType::Device,
            Which::Folder(id) => EventLogType::Folder(*id),
        }
    }
}

pub(crate) const ALPHABET: [&str; 3] = ["alpha", "beta", "gamma"];

/// Rewind the log to `base` and append the events `seq` names; returns the leaves.
pub(crate) async fn set_log<S: StorageEventLogs>(s: &S, which: Which, base: &CommitHash, seq: &[u8]) -> Result<Vec<[u8; 32]>, String> {
    macro_rules! go {
        ($log:expr, $mk:expr) => {{
            let log = $log.map_err(|e| e.to_string())?;
            let mut w = log.write().await;
            w.rewind(base).await.map_err(|e| e.to_string())?;
            if !seq.is_empty() {
                let evs: Vec<_> = seq.iter().map(|x| $mk(ALPHABET[*x as usize].to_string())).collect();
                w.apply(&evs).await.map_err(|e| e.to_string())?;
            }
            Ok(w.tree().leaves().unwrap_or_default())
        }};
    }
    match which {
        Which::Identity => go!(s.identity_log().await, WriteEvent::SetVaultName),
        Which::Account => go!(s.account_log().await, AccountEvent::RenameAccount),
        Which::Device => go!(s.device_log().await, device_event),
        Which::Folder(id) => go!(s.folder_log(&id).await, WriteEvent::SetVaultName),
    }
}

/// The device-log letter: trusting one of three fixed (never used) device keys. A trusted
/// device carries its creation time, so each letter is built once and re-used byte for byte.
pub(crate) fn device_event(name: String) -> sos_core::events::DeviceEvent {
    static LETTERS: std::sync::OnceLock<std::sync::Mutex<std::collections::BTreeMap<u8, sos_core::events::DeviceEvent>>> = std::sync::OnceLock::new();
    let b = name.as_bytes()[0];
    let map = LETTERS.get_or_init(Default::default);
    let mut map = map.lock().unwrap();
    map.entry(b)
        .or_insert_with(|| {
            let pk: sos_core::device::DevicePublicKey = [b; 32].into();
            sos_core::events::DeviceEvent::Trust(sos_core::device::TrustedDevice::new(pk, None, None))
        })
        .clone()
}

pub(crate) async fn head<S: StorageEventLogs>(s: &S, which: Which) -> Result<CommitHash, String> {
    macro_rules! go {
        ($log:expr) => {{
            let log = $log.map_err(|e| e.to_string())?;
            let r = log.read().await;
            r.tree().last_commit().ok_or_else(|| "empty log".to_string())
        }};
    }
    match which {
        Which::Identity => go!(s.identity_log().await),
        Which::Account => go!(s.account_log().await),
        Which::Device => go!(s.device_log().await),
        Which::Folder(id) => go!(s.folder_log(&id).await),
    }
}

fn seq_of(mut code: usize, len: usize) -> Vec<u8> {
    let mut v = vec![];
    for _ in 0..len {
        v.push((code % 3) as u8);
        code /= 3;
    }
    v
}

/// All sequences of length 0..=max over the alphabet.
pub(crate) fn all_seqs(max: usize) -> Vec<Vec<u8>> {
    let mut out = vec![];
    for len in 0..=max {
        for code in 0..3usize.pow(len as u32) {
            out.push(seq_of(code, len));
        }
    }
    out
}

pub async fn run(args: &Args, rep: &mut Reporter) {
    let max_len = args.by_tier(4usize, 5usize);
    let random_pairs = args.by_tier(12usize, 120usize);
    let mut rng = Rng::new(args.shard_seed() ^ 0xC085);
    let backend = if args.shard % 2 == 0 { Backend::Fs } else { Backend::Db };
    let server_db = (args.shard / 2) % 2 == 1;
    let config = Config { backend, cipher: Default::default(), kdf: Default::default() };
    let pristine = match setup::create_pristine(&args.dir.join("pristine"), &config, &mut rng).await {
        Ok(p) => p,
        Err(e) => {
            rep.inconclusive(&format!("cannot create pristine account: {e}"));
            return;
        }
    };
    let sched = Arc::new(Scheduler::free());
    let mut w = match World::from_pristine(&args.dir.join("w"), &pristine, 1, server_db, sched.clone()).await {
        Ok(w) => w,
        Err(e) => {
            rep.inconclusive(&format!("cannot build world: {e}"));
            return;
        }
    };
    let folder = {
        let a = w.devices[0].account.lock().await;
        let mut ids: Vec<VaultId> = match a.folder_details().await {
            Ok(f) => f.iter().map(|s| *s.id()).collect(),
            Err(e) => {
                rep.inconclusive(&format!("folder list: {e}"));
                return;
            }
        };
        ids.sort();
        ids[0]
    };
    let bname = format!("{}-{}", backend.name(), if server_db { "dbserver" } else { "fsserver" });
    rep.count(&format!("world:{bname}"), 1);
    let srv = w.server.account(&w.account_id).await.expect("server account");

    // cases: (which log, local suffix, server suffix, page limit)
    let seqs = all_seqs(max_len);
    let whichs = [Which::Folder(folder), Which::Account, Which::Identity, Which::Device];
    let mut cases: Vec<(Which, Vec<u8>, Vec<u8>, u16)> = vec![];
    let mut k = 0usize;
    for (wi, which) in whichs.iter().enumerate() {
        for a in &seqs {
            for b in &seqs {
                // the folder log gets the full enumeration, the others every third pair
                if wi > 0 && (k % 3 != 0) {
                    k += 1;
                    continue;
                }
                let mix = (k as u64).wrapping_mul(0x9E37_79B9_7F4A_7C15) >> 20;
                if (mix % args.shards as u64) as usize == args.shard {
                    let limit = [32u16, 1, 2, 3][((mix / args.shards as u64) % 4) as usize];
                    cases.push((*which, a.clone(), b.clone(), limit));
                }
                k += 1;
            }
        }
    }
    let enumerated = cases.len();
    // random longer pairs: common prefix, then diverging tails with planted coincidences; lengths beyond the page size
    for i in 0..random_pairs {
        let which = whichs[i % 4];
        let common = rng.range(0, 40) as usize;
        let pre: Vec<u8> = (0..common).map(|_| rng.usize(3) as u8).collect();
        let ta = rng.range(0, 45) as usize;
        let tb = rng.range(0, 45) as usize;
        let mut a = pre.clone();
        let mut b = pre.clone();
        // low-entropy tails so that equal letters at equal positions are frequent
        let bias = rng.usize(3) as u8;
        for _ in 0..ta {
            a.push(if rng.chance(2, 3) { bias } else { rng.usize(3) as u8 });
        }
        for _ in 0..tb {
            b.push(if rng.chance(1, 2) { bias } else { rng.usize(3) as u8 });
        }
        let limit = [32u16, 32, 7, 1, 64][rng.usize(5)];
        cases.push((which, a, b, limit));
    }

    let mut bases: Vec<(Which, CommitHash, CommitHash)> = vec![];
    for which in whichs {
        let (dl, sl) = {
            let a = w.devices[0].account.lock().await;
            let s = srv.read().await;
            (head(&*a, which).await, head(&*s, which).await)
        };
        match (dl, sl) {
            (Ok(d), Ok(s)) if d == s => bases.push((which, d, s)),
            other => {
                rep.inconclusive(&format!("device and server {} logs do not start equal: {other:?}", which.name()));
                return;
            }
        }
    }

    for (ci, (which, la, sa, limit)) in cases.iter().enumerate() {
        let base = bases.iter().find(|b| b.0 == *which).unwrap().1;
        let local = {
            let a = w.devices[0].account.lock().await;
            set_log(&*a, *which, &base, la).await
        };
        let server = {
            let s = srv.read().await;
            set_log(&*s, *which, &base, sa).await
        };
        let (local, server) = match (local, server) {
            (Ok(l), Ok(s)) => (l, s),
            other => {
                rep.inconclusive(&format!("cannot prepare logs: {:?}", (other.0.err(), other.1.err())));
                break;
            }
        };
        let lcp = local.iter().zip(server.iter()).take_while(|(a, b)| a == b).count();
        if lcp == 0 {
            rep.inconclusive("logs share no first event");
            break;
        }
        let mut h = Fnv::new();
        h.str(which.name()).bytes(la).bytes(&[0xff]).bytes(sa).u64(*limit as u64);
        let diverged = lcp < local.len() && lcp < server.len();
        rep.case(h.finish(), la != sa);
        rep.count(&format!("log:{}", which.name()), 1);
        rep.count(&format!("limit:{limit}"), 1);
        rep.count(if la == sa { "relation:equal" } else if !diverged && local.len() > server.len() { "relation:local_ahead" } else if !diverged { "relation:server_ahead" } else { "relation:diverged" }, 1);
        let coincidence = diverged && local.iter().zip(server.iter()).skip(lcp).any(|(a, b)| a == b);
        if coincidence {
            rep.count("diverged_with_equal_leaf_at_equal_index_later", 1);
        }
        if server.len() > *limit as usize {
            rep.count("server_log_longer_than_page", 1);
        }
        sched.reset_device(0);
        let req = ScanRequest { log_type: which.log_type(), offset: 0, limit: *limit };
        let bridge = w.devices[0].bridge.clone();
        let got = tokio::spawn(async move { bridge.scan_proofs(req).await }).await;
        rep.max("max_scan_requests", sched.count(0));
        let ctx = json!({"job": "c08scan", "world": bname, "log": which.name(), "local_suffix": la, "server_suffix": sa, "limit": limit, "base_len": local.len() - la.len(), "lcp": lcp});
        let sigp = format!("C08:scan:{}", which.name());
        match got {
            Err(je) => {
                rep.violation(&format!("{sigp}:panic"), &format!("scan_proofs panicked: {je}"), ctx);
            }
            Ok(Err(e)) => {
                rep.violation(&format!("{sigp}:error"), &format!("scan_proofs failed although the logs share a prefix of {lcp}: {e}"), ctx);
            }
            Ok(Ok(None)) => {
                rep.violation(&format!("{sigp}:exhausted"), &format!("scan_proofs found no ancestor although the logs share a prefix of {lcp}"), ctx);
            }
            Ok(Ok(Some((commit, proof)))) => {
                rep.count("ancestors_returned", 1);
                let ix = proof.length.saturating_sub(1);
                // expected checkpoint: head proof of the local prefix [0..lcp)
                let mut t = CommitTree::new();
                let mut pre = local[..lcp].to_vec();
                t.append(&mut pre);
                t.commit();
                let want = t.head().ok();
                if ix == lcp - 1 {
                    rep.count("ancestor_is_longest_common_prefix", 1);
                    if commit.as_ref() != &local[lcp - 1][..] {
                        rep.violation(&format!("{sigp}:ancestor_hash_wrong"), "the reported ancestor commit is not the local leaf at the reported position", ctx);
                    } else if want.as_ref().map(|p| p.root != proof.root || p.length != proof.length || p.indices != proof.indices).unwrap_or(true) {
                        rep.violation(&format!("{sigp}:checkpoint_proof_wrong"), "the checkpoint proof returned with the ancestor is not the head proof of the common prefix", ctx);
                    }
                } else if ix >= lcp && ix < local.len() && ix < server.len() && local[ix] == server[ix] {
                    rep.count("ancestor_beyond_common_prefix", 1);
                    rep.violation(
                        &format!("{sigp}:equal_leaf_beyond_common_prefix"),
                        &format!("logs share a prefix of {lcp} events and diverge, but an equal event sits at index {ix} on both sides; the scan reports index {ix} as the common ancestor, so the events between are never exchanged"),
                        ctx,
                    );
                } else if ix < lcp - 1 {
                    rep.violation(&format!("{sigp}:ancestor_too_early"), &format!("scan reports index {ix} as ancestor, the logs share a prefix of {lcp}"), ctx);
                } else {
                    rep.violation(&format!("{sigp}:ancestor_not_common"), &format!("scan reports index {ix} as ancestor, where the two logs hold different events (common prefix {lcp})"), ctx);
                }
            }
        }
        if ci == 0 || ci == enumerated {
            rep.sample(json!({"log": which.name(), "local_suffix": la, "server_suffix": sa, "limit": limit, "lcp": lcp, "world": bname}));
        }
    }
    // leave the logs at their base so that close() works on a consistent account
    for (which, base, _) in &bases {
        let a = w.devices[0].account.lock().await;
        let _ = set_log(&*a, *which, base, &[]).await;
        let s = srv.read().await;
        let _ = set_log(&*s, *which, base, &[]).await;
    }
    w.close().await;
    let _ = std::fs::remove_dir_all(&pristine.dir);
}
