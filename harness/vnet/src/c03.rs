//! C03 — secret material never reaches storage or the network unencrypted.
//!
//! Every generated label, tag, field value, comment, attachment content,
//! folder description is built around a fresh high-entropy marker; the real
//! secrets of the account (primary password, every folder password, the
//! device signing key) are markers too. After a history on device 0
//! (all 15 secret kinds, attachments, descriptions), syncs through the
//! loopback server to a second device, compaction, a folder password
//! change and a backup export, the byte scanner hunts every marker in raw
//! UTF-8, UTF-16LE/BE, hex (both cases), base64 (std/url, all alignments)
//! and base58 in: both client data directories (incl. sqlite file / WAL,
//! audit log), the server data directory, every recorded wire buffer, and
//! the backup archive (zipped and every inflated entry).
use crate::sched::Scheduler;
use crate::world::*;
use secrecy::ExposeSecret;
use serde_json::json;
use sos_account::Account;
use sos_login::DelegatedAccess;
use std::collections::BTreeMap;
use std::sync::atomic::Ordering;
use std::sync::Arc;
use vkit::{Args, Fnv, Reporter, Rng};
use vmodel::model::AccountModel;
use vmodel::ops::{Driver, Weights};
use vmodel::scan::Scanner;
use vmodel::secgen::KINDS;
use vmodel::setup::{self, Backend, Config};
use vmodel::snapshot;

pub async fn run(args: &Args, rep: &mut Reporter) {
    let cases = args.by_tier(1usize, 10usize);
    let mut rng = Rng::new(args.shard_seed() ^ 0xC03);
    crate::loopback::KEEP_WIRE_DEFAULT.store(true, Ordering::Relaxed);
    // the application's own file logger at its default level (the log file is in scope of C03)
    let app_logs = args.dir.join("app-logs");
    let _ = std::fs::create_dir_all(&app_logs);
    std::env::remove_var("RUST_LOG");
    if let Err(e) = sos_logs::Logger::new_dir(app_logs.clone(), sos_logs::LOG_FILE_NAME.to_string()).init_file_subscriber(None) {
        rep.inconclusive(&format!("cannot install the application logger: {e}"));
        return;
    }
    let mut app_log_offset: u64 = 0;
    for c in 0..cases {
        let backend = if (c + args.shard) % 2 == 0 { Backend::Fs } else { Backend::Db };
        let config = Config { backend, cipher: Default::default(), kdf: Default::default() };
        let pristine = match setup::create_pristine(&args.dir.join(format!("pristine{c}")), &config, &mut rng).await {
            Ok(p) => p,
            Err(e) => {
                rep.inconclusive(&format!("cannot create pristine account: {e}"));
                continue;
            }
        };
        let sched = Arc::new(Scheduler::free());
        let wdir = args.dir.join(format!("w{c}"));
        let mut w = match World::from_pristine(&wdir, &pristine, 2, (c + args.shard) % 4 >= 2, sched.clone()).await {
            Ok(w) => w,
            Err(e) => {
                rep.inconclusive(&format!("cannot build world: {e}"));
                continue;
            }
        };
        w.server.keep_wire.store(true, Ordering::Relaxed);
        let bname = backend.name();
        // ---- history on device 0 ---------------------------------------------------------
        let model = {
            let mut a = w.devices[0].account.lock().await;
            match snapshot::live(&mut a).await {
                Ok((v, _)) => AccountModel::from_view(v),
                Err(e) => {
                    rep.inconclusive(&format!("snapshot: {}", e.detail));
                    continue;
                }
            }
        };
        let mut weights = Weights::c01();
        weights.create = 40;
        weights.file_create = 8;
        weights.describe = 8;
        weights.compact = 2;
        weights.change_folder_pw = 2;
        weights.resign = 0;
        weights.illegal = 0;
        let mut driver = Driver::new(rng.fork(c as u64), weights, model, w.password.clone(), wdir.join("tmpfiles"));
        driver.allow_large = true;
        driver.max_file_bytes = args.by_tier(60_000, 400_000);
        driver.max_secrets_per_folder = 14;
        let steps = args.by_tier(70, 160);
        let mut hash = Fnv::new();
        // make sure every kind is created at least once: first 15 creates cycle the kinds
        for st in 0..steps {
            w.clock_in(0);
            let out = {
                let mut a = w.devices[0].account.lock().await;
                driver.step(&mut a).await
            };
            w.clock_out(0);
            hash.str(&out.op);
            if st % 20 == 19 {
                let _ = w.sync(0).await;
                let _ = w.sync(1).await;
            }
        }
        for _ in 0..2 {
            let _ = w.sync(0).await;
            let _ = w.sync(1).await;
        }
        // ---- conflicting offline edits on both devices, then merges (every merge branch:
        // update/update, delete then later update, create/create, rename, description) -------
        let mut extra_markers = vec![];
        for round in 0..args.by_tier(3usize, 8usize) {
            let view = {
                let mut a = w.devices[0].account.lock().await;
                snapshot::live(&mut a).await.ok().map(|v| v.0)
            };
            let Some(view) = view else { break };
            let mut targets: Vec<(sos_core::VaultId, sos_core::SecretId)> = vec![];
            let mut fsorted: Vec<_> = view.folders.iter().collect();
            fsorted.sort_by(|a, b| a.1.name.cmp(&b.1.name));
            for (f, fv) in fsorted {
                if fv.flags & 0xff != 0 {
                    continue;
                }
                let mut ids: Vec<_> = fv.secrets.keys().copied().collect();
                ids.sort();
                for id in ids.into_iter().take(3) {
                    targets.push((*f, id));
                }
            }
            if targets.len() < 3 {
                break;
            }
            let pick = |i: usize| targets[(round * 3 + i) % targets.len()];
            let opts = |f: &sos_core::VaultId| sos_client_storage::AccessOptions { folder: Some(*f), ..Default::default() };
            // device 0 (earlier clock): delete t0, update t1, describe folder
            {
                w.clock_in(0);
                let mut a = w.devices[0].account.lock().await;
                let mut g = vmodel::secgen::Gen::new(&mut rng);
                g.allow_large = false;
                let (f0, s0) = pick(0);
                let (f1, s1) = pick(1);
                let _ = a.delete_secret(&s0, opts(&f0)).await;
                let (m, sec) = g.secret_of_kind(0, 0);
                let _ = a.update_secret(&s1, m, Some(sec), opts(&f1)).await;
                let (m, sec) = g.secret_of_kind(round % KINDS.len(), 0);
                if KINDS[round % KINDS.len()] != "file" {
                    let _ = a.create_secret(m, sec, opts(&f0)).await;
                }
                let d = g.text("folder.description");
                let _ = a.set_folder_description(&f1, d).await;
                extra_markers.extend(g.markers);
                drop(a);
                w.clock_out(0);
            }
            // device 1 (later clock): update t0 (deleted on device 0), update t1, create, update t2
            {
                if w.devices[1].now_ns <= w.devices[0].now_ns {
                    w.devices[1].now_ns = w.devices[0].now_ns + 5 * MS;
                }
                w.clock_in(1);
                let mut a = w.devices[1].account.lock().await;
                let mut g = vmodel::secgen::Gen::new(&mut rng);
                g.allow_large = false;
                let (f0, s0) = pick(0);
                let (f1, s1) = pick(1);
                let (f2, s2) = pick(2);
                let (m, sec) = g.secret_of_kind(0, 0);
                let _ = a.update_secret(&s0, m, Some(sec), opts(&f0)).await;
                let (m, sec) = g.secret_of_kind(1, 0);
                let _ = a.update_secret(&s1, m, Some(sec), opts(&f1)).await;
                let (m, sec) = g.secret_of_kind(2, 0);
                let _ = a.update_secret(&s2, m, Some(sec), opts(&f2)).await;
                let (m, sec) = g.secret_of_kind((round + 5) % KINDS.len(), 0);
                if KINDS[(round + 5) % KINDS.len()] != "file" {
                    let _ = a.create_secret(m, sec, opts(&f2)).await;
                }
                extra_markers.extend(g.markers);
                drop(a);
                w.clock_out(1);
            }
            rep.count("conflict_rounds", 1);
            for _ in 0..3 {
                for d in if round % 2 == 0 { [0usize, 1] } else { [1usize, 0] } {
                    match w.sync(d).await {
                        SyncResult::Ok(_) => rep.count("conflict_syncs_ok", 1),
                        _ => rep.count("conflict_syncs_not_ok", 1),
                    }
                }
            }
        }
        driver.markers.extend(extra_markers);
        // ---- real secrets of the account -----------------------------------------------------
        let mut tokens: Vec<(String, Vec<u8>)> = vec![];
        for m in &driver.markers {
            // key material is recorded as hex by the generator: hunt the raw bytes (the
            // scanner derives the hex / base64 / base58 forms itself)
            let bytes = if m.place.ends_with("(hex)") { hex::decode(&m.token).unwrap_or_else(|_| m.token.clone().into_bytes()) } else { m.token.clone().into_bytes() };
            tokens.push((m.place.clone(), bytes));
        }
        tokens.push(("account.primary_password".into(), w.password.expose_secret().as_bytes().to_vec()));
        for old in &driver.old_account_passwords {
            tokens.push(("account.old_primary_password".into(), old.expose_secret().as_bytes().to_vec()));
        }
        let archive = wdir.join("backup.zip");
        {
            let a = w.devices[0].account.lock().await;
            if let Ok(folders) = a.list_folders().await {
                for f in folders {
                    if let Ok(Some(sos_core::crypto::AccessKey::Password(p))) = a.find_folder_password(f.id()).await {
                        tokens.push(("folder.password".into(), p.expose_secret().as_bytes().to_vec()));
                    }
                }
            }
            if let Ok(signer) = a.device_signer().await {
                tokens.push(("device.signing_key".into(), signer.to_bytes().to_vec()));
            }
            if let Err(e) = a.export_backup_archive(&archive).await {
                rep.inconclusive(&format!("export_backup_archive: {e}"));
            }
        }
        for (_, k) in &driver.old_folder_keys {
            if let sos_core::crypto::AccessKey::Password(p) = k {
                tokens.push(("folder.old_password".into(), p.expose_secret().as_bytes().to_vec()));
            }
        }
        let mut by_place: BTreeMap<String, u64> = BTreeMap::new();
        for (p, _) in &tokens {
            *by_place.entry(p.clone()).or_insert(0) += 1;
        }
        for (p, n) in &by_place {
            rep.count(&format!("markers:{p}"), *n);
        }
        rep.count("markers_total", tokens.len() as u64);
        let scanner = Scanner::new(&tokens.iter().map(|(_, t)| t.clone()).collect::<Vec<_>>());
        rep.max("max:patterns", scanner.patterns() as u64);
        let ctx = json!({"backend": bname, "case": c, "last_ops": driver.log.iter().rev().take(8).rev().collect::<Vec<_>>()});
        let mut report = |rep: &mut Reporter, place: &str, wherein: &str, file: &str, form: &str, offset: usize| {
            let field = place.to_string();
            rep.violation(
                &format!("C03:{wherein}:{field}:{form}"),
                &format!("plaintext of {field} found ({form} form) in {wherein} at {file}+{offset}"),
                json!({"ctx": ctx, "where": wherein, "file": file, "offset": offset, "field": field, "form": form}),
            );
        };
        // ---- quiesce: sign out so everything is flushed, then scan the directories ----------------
        let dirs: Vec<(String, std::path::PathBuf)> = vec![("client_dir".into(), w.devices[0].dir.clone()), ("client2_dir".into(), w.devices[1].dir.clone()), ("server_dir".into(), w.server.dir.clone())];
        for d in 0..2 {
            let mut a = w.devices[d].account.lock().await;
            let _ = a.sign_out().await;
        }
        for (wherein, dir) in &dirs {
            let (files, bytes, hits) = scanner.scan_dir(dir);
            rep.count(&format!("files_scanned:{wherein}"), files);
            rep.count(&format!("bytes_scanned:{wherein}"), bytes);
            for (file, h) in hits {
                let rel = file.rsplit('/').next().unwrap_or("").to_string();
                let kind = if rel.ends_with(".vault") { "vault_file" } else if rel.ends_with(".events") { "event_log" } else if rel.contains(".db") || rel.contains("sqlite") { "sqlite" } else if rel.contains("audit") { "audit_log" } else { "other_file" };
                report(rep, &tokens[h.marker].0, &format!("{wherein}:{kind}"), &file, h.form, h.offset);
            }
        }
        // ---- the application log written during this case -----------------------------------------
        {
            let mut n = 0u64;
            if let Ok(rd) = std::fs::read_dir(&app_logs) {
                for e in rd.flatten() {
                    if let Ok(data) = std::fs::read(e.path()) {
                        let from = (app_log_offset as usize).min(data.len());
                        n += (data.len() - from) as u64;
                        for h in scanner.scan(&data[from..]) {
                            report(rep, &tokens[h.marker].0, "app_log", &e.path().display().to_string(), h.form, h.offset + from);
                        }
                        app_log_offset = data.len() as u64;
                    }
                }
            }
            rep.count("app_log_bytes_scanned", n);
        }
        // ---- wire buffers ---------------------------------------------------------------------------
        {
            let wire = w.server.wire.lock().unwrap();
            rep.count("wire_buffers_scanned", wire.len() as u64);
            for rec in wire.iter() {
                rep.count("wire_bytes_scanned", rec.bytes.len() as u64);
                rep.count(&format!("wire:{}:{}", rec.kind, rec.direction), 1);
                for h in scanner.scan(&rec.bytes) {
                    report(rep, &tokens[h.marker].0, &format!("wire:{}:{}", rec.kind, rec.direction), "wire", h.form, h.offset);
                }
            }
        }
        // ---- backup archive: zipped and inflated --------------------------------------------------------
        if let Ok(data) = std::fs::read(&archive) {
            rep.count("archive_bytes_scanned", data.len() as u64);
            for h in scanner.scan(&data) {
                report(rep, &tokens[h.marker].0, "backup_archive:zipped", "backup.zip", h.form, h.offset);
            }
            if let Ok(f) = sos_vfs::File::open(&archive).await {
                if let Ok(mut zip) = sos_archive::ZipReader::new(tokio::io::BufReader::new(f)).await {
                    let names: Vec<String> = zip.inner().file().entries().iter().filter_map(|e| e.filename().as_str().ok().map(|s| s.to_string())).collect();
                    for n in names {
                        if let Ok(Some(buf)) = zip.by_name(&n).await {
                            rep.count("archive_entries_scanned", 1);
                            for h in scanner.scan(&buf) {
                                report(rep, &tokens[h.marker].0, "backup_archive:entry", &n, h.form, h.offset);
                            }
                        }
                    }
                }
            }
        }
        // positive control: the scanner must find a marker planted in a scratch file
        let control = wdir.join("control.bin");
        let _ = std::fs::write(&control, [b"xx".as_slice(), hex::encode(&tokens[0].1).as_bytes(), b"yy"].concat());
        let found = std::fs::read(&control).map(|d| !scanner.scan(&d).is_empty()).unwrap_or(false);
        if !found {
            rep.inconclusive("scanner self-test failed: planted marker not found");
        } else {
            rep.count("scanner_self_tests", 1);
        }
        let kinds_seen = KINDS.iter().filter(|k| by_place.keys().any(|p| p.starts_with(&format!("{k}.")))).count();
        rep.max("max:secret_kinds_with_markers", kinds_seen as u64);
        rep.case(hash.finish(), kinds_seen >= 10);
        if c == 0 {
            rep.sample(json!({"backend": bname, "markers": tokens.len(), "places": by_place.keys().take(30).collect::<Vec<_>>(), "ops": driver.log.iter().take(8).collect::<Vec<_>>()}));
        }
        for dev in w.devices.drain(..) {
            setup::close_target(dev.target).await;
        }
        setup::close_target(w.server.target.clone()).await;
        let _ = std::fs::remove_dir_all(&wdir);
        let _ = std::fs::remove_dir_all(&pristine.dir);
    }
}
