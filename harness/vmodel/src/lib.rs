//! Account-level pieces shared by the vacct and vnet monitors: value
//! generators with planted markers, the reference model, snapshotters of
//! the live / persisted / replayed account, the operation generator and
//! executor, and account set-up helpers.
pub mod index;
pub mod logs;
pub mod model;
pub mod ops;
pub mod secgen;
pub mod session;
pub mod setup;
pub mod snapshot;
pub mod scan;

pub use model::{AccountModel, FolderModel};
pub use snapshot::{AccountView, FolderView};
