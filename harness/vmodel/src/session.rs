//! A history in progress: an opened copy of a pristine account plus the
//! operation driver and its model.
use crate::model::AccountModel;
use crate::ops::{Driver, StepOutcome, Weights};
use crate::setup::{self, Config, Opened, Pristine};
use crate::snapshot::{self, AccountView, Diff, SnapError};
use std::path::{Path, PathBuf};
use vkit::Rng;

pub struct Session {
    pub opened: Option<Opened>,
    pub driver: Driver,
    pub dir: PathBuf,
    pub config: Config,
    pub pristine: Pristine,
    pub steps: usize,
}

impl Session {
    pub async fn start(p: &Pristine, dir: &Path, rng: Rng, weights: Weights) -> anyhow::Result<Session> {
        let mut opened = setup::instantiate(p, &dir.join("data")).await?;
        let (view, _) = snapshot::live(&mut opened.account).await.map_err(|e| anyhow::anyhow!("initial snapshot: {} {}", e.class, e.detail))?;
        let model = AccountModel::from_view(view);
        let driver = Driver::new(rng, weights, model, p.password.clone(), dir.join("tmpfiles"));
        Ok(Session { opened: Some(opened), driver, dir: dir.to_path_buf(), config: p.config.clone(), pristine: p.clone(), steps: 0 })
    }

    pub fn data_dir(&self) -> PathBuf {
        self.dir.join("data")
    }

    pub fn account(&mut self) -> &mut sos_account::LocalAccount {
        &mut self.opened.as_mut().unwrap().account
    }

    pub async fn step(&mut self) -> StepOutcome {
        self.steps += 1;
        let opened = self.opened.as_mut().unwrap();
        self.driver.step(&mut opened.account).await
    }

    pub fn choose(&mut self) -> usize {
        self.driver.choose()
    }

    pub async fn run_choice(&mut self, choice: usize) -> StepOutcome {
        self.steps += 1;
        let opened = self.opened.as_mut().unwrap();
        self.driver.run_choice(choice, &mut opened.account).await
    }

    pub async fn live_view(&mut self) -> Result<(AccountView, Vec<Diff>), SnapError> {
        snapshot::live(&mut self.opened.as_mut().unwrap().account).await
    }

    /// Sign out, open the same storage with a brand new target + account
    /// object, sign in, snapshot, close; then sign the live object in again.
    pub async fn cold_reopen_view(&mut self) -> Result<(AccountView, Vec<Diff>), SnapError> {
        use sos_account::Account;
        let key = self.driver.key();
        {
            let opened = self.opened.as_mut().unwrap();
            opened.account.sign_out().await.map_err(|e| SnapError { class: "sign_out_failed", detail: format!("{e}") })?;
        }
        let res = match setup::open(&self.data_dir(), self.config.backend, &self.pristine.account_id, &self.driver.password).await {
            Ok(mut cold) => {
                let r = snapshot::live(&mut cold.account).await;
                cold.close().await;
                r
            }
            Err(e) => Err(SnapError { class: "cold_open_failed", detail: format!("{e}") }),
        };
        let opened = self.opened.as_mut().unwrap();
        opened.account.sign_in(&key).await.map_err(|e| SnapError { class: "sign_in_failed", detail: format!("{e}") })?;
        res
    }

    pub async fn finish(mut self) {
        if let Some(o) = self.opened.take() {
            o.close().await;
        }
        let _ = std::fs::remove_dir_all(&self.dir);
    }
}
