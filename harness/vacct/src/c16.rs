//! C16 — integrity reports flag every corruption and nothing else.
//!
//! Soundness: accounts produced by generated histories (both backends,
//! incl. after compaction, moves, re-used ids) yield NO failure from
//! `account_integrity` and `file_integrity`.
//! Completeness: one corruption at a time — a byte of the stored checksum
//! or of the encrypted content of a vault row, of an event record's commit
//! hash or payload, of a blob; or removal of a vault / log / blob / folder
//! row — must produce a failure naming the affected folder / file.
//! Framing bytes (length fields, ids, timestamps, last-commit) are mutated
//! too but only recorded (informational), not judged.
use crate::common::*;
use futures::StreamExt;
use serde_json::json;
use sos_account::Account;
use sos_backend::BackendTarget;
use sos_core::{AccountId, ExternalFile, VaultId};
use sos_integrity::{account_integrity, file_integrity, FileIntegrityEvent, FolderIntegrityEvent};
use sos_sync::StorageEventLogs;
use sos_vault::Summary;
use std::path::{Path, PathBuf};
use std::time::Duration;
use vkit::{Args, Fnv, Reporter, Rng};
use vmodel::ops::Weights;
use vmodel::session::Session;
use vmodel::setup::{self, Backend, Config};

#[derive(Debug, Default)]
pub struct Report {
    pub failures: Vec<(VaultId, String)>,
    pub completed: bool,
    pub events: usize,
}

/// Run the folder integrity report; bounded wait (a timeout is reported as
/// `completed == false`, which the caller turns into *inconclusive*).
pub async fn folder_report(target: &BackendTarget, account_id: &AccountId, folders: Vec<Summary>) -> Result<Report, String> {
    let (mut rx, _cancel) = account_integrity(target, account_id, folders, 2).await.map_err(|e| format!("{e}"))?;
    let mut rep = Report::default();
    loop {
        match tokio::time::timeout(Duration::from_secs(30), rx.recv()).await {
            Ok(Some(ev)) => {
                rep.events += 1;
                match ev {
                    FolderIntegrityEvent::Failure(id, f) => rep.failures.push((id, format!("{f:?}").chars().take(200).collect())),
                    FolderIntegrityEvent::Complete => {
                        rep.completed = true;
                        break;
                    }
                    _ => {}
                }
            }
            Ok(None) => break,
            Err(_) => break,
        }
    }
    Ok(rep)
}

pub async fn files_report(target: &BackendTarget, files: indexmap::IndexSet<ExternalFile>) -> Result<(Vec<(ExternalFile, String)>, bool), String> {
    if files.is_empty() {
        return Ok((vec![], true));
    }
    let (mut rx, _cancel) = file_integrity(target, files, 2).await.map_err(|e| format!("{e}"))?;
    let mut failures = vec![];
    let mut completed = false;
    loop {
        match tokio::time::timeout(Duration::from_secs(30), rx.recv()).await {
            Ok(Some(FileIntegrityEvent::Failure(f, why))) => failures.push((f, format!("{why:?}").chars().take(200).collect())),
            Ok(Some(FileIntegrityEvent::Complete)) => {
                completed = true;
                break;
            }
            Ok(Some(_)) => {}
            _ => break,
        }
    }
    Ok((failures, completed))
}

#[derive(Debug, Clone)]
struct Site {
    file: PathBuf,
    offset: u64,
    class: &'static str,
    enforced: bool,
}

fn rd32(d: &[u8], p: usize) -> Option<usize> {
    d.get(p..p + 4).map(|b| u32::from_le_bytes(b.try_into().unwrap()) as usize)
}

/// Byte sites of a vault file: rows `u32 len | id 16 | commit 32 | u32 vlen | value | u32 len`.
async fn vault_sites(path: &Path, rng: &mut Rng, dense: bool) -> Vec<Site> {
    let mut out = vec![];
    let Ok(data) = std::fs::read(path) else { return out };
    let Ok(content) = sos_vault::Header::read_content_offset(path).await else { return out };
    let mut pos = content as usize;
    while pos + 8 <= data.len() {
        let Some(len) = rd32(&data, pos) else { break };
        let body = pos + 4;
        if body + len + 4 > data.len() || len < 52 {
            break;
        }
        let vlen = rd32(&data, body + 48).unwrap_or(0);
        let mut add = |start: usize, n: usize, class: &'static str, enforced: bool, rng: &mut Rng| {
            if n == 0 {
                return;
            }
            // dense: every byte of the short fields, 16 evenly spaced bytes (and the last) of long ones
            let picks: Vec<usize> = if n <= 4 || (dense && n <= 32) {
                (0..n).collect()
            } else if dense {
                let mut v: Vec<usize> = (0..16).map(|i| i * n / 16).collect();
                v.push(n - 1);
                v
            } else {
                vec![0, n - 1, rng.usize(n), rng.usize(n)]
            };
            for i in picks {
                out.push(Site { file: path.to_path_buf(), offset: (start + i) as u64, class, enforced });
            }
        };
        add(pos, 4, "vault_row_len", false, rng);
        add(body, 16, "vault_row_id", false, rng);
        add(body + 16, 32, "vault_row_commit", true, rng);
        add(body + 48, 4, "vault_row_value_len", false, rng);
        add(body + 52, vlen.min(len - 52), "vault_row_content", true, rng);
        pos = body + len + 4;
    }
    out
}

/// Byte sites of an event log: rows `u32 len | time 12 | last 32 | commit 32 | u32 n | data | u32 len`.
fn event_sites(path: &Path, header: usize, rng: &mut Rng, dense: bool) -> Vec<Site> {
    let mut out = vec![];
    let Ok(data) = std::fs::read(path) else { return out };
    let mut pos = header;
    while pos + 8 <= data.len() {
        let Some(len) = rd32(&data, pos) else { break };
        let body = pos + 4;
        if body + len + 4 > data.len() || len < 80 {
            break;
        }
        let n = rd32(&data, body + 76).unwrap_or(0);
        let mut add = |start: usize, cnt: usize, class: &'static str, enforced: bool, rng: &mut Rng| {
            if cnt == 0 {
                return;
            }
            let picks: Vec<usize> = if cnt <= 4 || (dense && cnt <= 32) {
                (0..cnt).collect()
            } else if dense {
                let mut v: Vec<usize> = (0..16).map(|i| i * cnt / 16).collect();
                v.push(cnt - 1);
                v
            } else {
                vec![0, cnt - 1, rng.usize(cnt), rng.usize(cnt)]
            };
            for i in picks {
                out.push(Site { file: path.to_path_buf(), offset: (start + i) as u64, class, enforced });
            }
        };
        add(pos, 4, "event_row_len", false, rng);
        add(body, 12, "event_time", false, rng);
        add(body + 12, 32, "event_last_commit", false, rng);
        add(body + 44, 32, "event_commit", true, rng);
        add(body + 76, 4, "event_data_len", false, rng);
        add(body + 80, n.min(len - 80), "event_payload", true, rng);
        pos = body + len + 4;
    }
    out
}

fn flip(path: &Path, offset: u64, mask: u8) -> std::io::Result<()> {
    use std::io::{Read, Seek, SeekFrom, Write};
    let mut f = std::fs::OpenOptions::new().read(true).write(true).open(path)?;
    f.seek(SeekFrom::Start(offset))?;
    let mut b = [0u8; 1];
    f.read_exact(&mut b)?;
    b[0] ^= mask;
    f.seek(SeekFrom::Start(offset))?;
    f.write_all(&b)?;
    f.flush()
}

pub async fn run(args: &Args, rep: &mut Reporter) {
    let histories = args.by_tier(1usize, 4usize);
    let steps = args.by_tier(28usize, 60usize);
    // exhaustive byte enumeration with one full report per mutated byte does not fit a time box on
    // folders of 40+ rows: the thorough tier runs more and longer histories with the same sampling
    let dense = false;
    let mut rng = Rng::new(args.shard_seed() ^ 0xC16);
    for (ci, config) in Config::matrix().iter().enumerate().filter(|(i, _)| i % 2 == 0) {
        let pdir = args.dir.join(format!("pristine{ci}"));
        let pristine = match setup::create_pristine(&pdir, config, &mut rng).await {
            Ok(p) => p,
            Err(e) => {
                rep.inconclusive(&format!("cannot create pristine account: {e}"));
                continue;
            }
        };
        for h in 0..histories {
            let hdir = args.dir.join(format!("h{ci}_{h}"));
            let mut w = Weights::c01().with_folder_api();
            w.compact = 3;
            w.file_create = 6;
            w.delete_folder = 0;
            // rewrites re-encrypt every row and re-compute every stored checksum
            w.change_folder_pw = 2;
            w.change_account_pw = 1;
            w.change_cipher = 1;
            let mut s = match Session::start(&pristine, &hdir, rng.fork(h as u64), w).await {
                Ok(s) => s,
                Err(e) => {
                    rep.inconclusive(&format!("cannot start session: {e}"));
                    continue;
                }
            };
            s.driver.allow_large = false;
            s.driver.max_file_bytes = 4000;
            let backend = config.backend.name();
            let mut hash = Fnv::new();
            for _ in 0..steps {
                let out = s.step().await;
                hash.str(&out.op);
                rep.count("history_steps", 1);
            }
            // one folder with many rows: more than any bounded channel / page / batch size the
            // report machinery may use (8, 16, 32 ...)
            if let Some(o) = s.opened.as_mut() {
                if let Some(f) = o.account.default_folder().await.map(|f| *f.id()) {
                    let n = args.by_tier(40usize, 50usize);
                    let mut g = vmodel::secgen::Gen::new(&mut rng);
                    g.allow_large = false;
                    for k in 0..n {
                        let (m, sct) = g.secret_of_kind(if k % 3 == 0 { 0 } else { 1 }, 0);
                        if o.account.create_secret(m, sct, sos_client_storage::AccessOptions { folder: Some(f), ..Default::default() }).await.is_ok() {
                            rep.count("big_folder_rows", 1);
                        }
                    }
                }
            }
            let account_id = pristine.account_id;
            let summaries = s.account().list_folders().await.unwrap_or_default();
            let files = s.account().canonical_files().await.unwrap_or_default();
            let data_dir = s.data_dir();
            let ops = tail(&s.driver.log, 10);
            // close the account; the reports read storage only
            if let Some(o) = s.opened.take() {
                o.close().await;
            }
            let target = match setup::target_for(&data_dir, config.backend).await {
                Ok(t) => t.with_account_id(&account_id),
                Err(e) => {
                    rep.inconclusive(&format!("cannot open target: {e}"));
                    continue;
                }
            };
            let ctx = json!({"config": config.name(), "history": h, "last_ops": ops});

            // ---- soundness -----------------------------------------------------------
            match folder_report(&target, &account_id, summaries.clone()).await {
                Ok(r) => {
                    rep.count("sound_reports", 1);
                    rep.count("sound_report_events", r.events as u64);
                    if !r.completed {
                        rep.inconclusive("folder integrity report did not reach Complete within the watchdog on an untampered account");
                    }
                    for (f, why) in &r.failures {
                        let kind = why.split(|c| c == '(' || c == ' ' || c == '{').next().unwrap_or("failure").to_string();
                        rep.violation(&format!("C16:{backend}:sound:failure_on_untampered_account:{kind}"), &format!("untampered account: integrity report flags folder {f}: {why}"), ctx.clone());
                    }
                }
                Err(e) => rep.inconclusive(&format!("folder_report: {e}")),
            }
            match files_report(&target, files.clone()).await {
                Ok((fails, done)) => {
                    rep.count("sound_file_reports", 1);
                    rep.count("blobs_in_reports", files.len() as u64);
                    if !done {
                        rep.inconclusive("file integrity report did not complete within the watchdog on an untampered account");
                    }
                    for (f, why) in &fails {
                        rep.violation(&format!("C16:{backend}:sound:file_failure_on_untampered_account"), &format!("untampered account: file integrity report flags {f:?}: {why}"), ctx.clone());
                    }
                }
                Err(e) => rep.inconclusive(&format!("files_report: {e}")),
            }
            rep.case(hash.finish(), summaries.len() > 2);
            if h == 0 {
                rep.sample(json!({"kind": "untampered account", "config": config.name(), "folders": summaries.len(), "blobs": files.len(), "last_ops": ops.clone()}));
            }

            // ---- completeness ------------------------------------------------------------
            let paths = target.paths();
            match config.backend {
                Backend::Fs => {
                    for summary in &summaries {
                        let fid = *summary.id();
                        let vault_path = paths.vault_path(&fid);
                        let events_path = paths.event_log_path(&fid);
                        let mut sites = vault_sites(&vault_path, &mut rng, dense).await;
                        sites.extend(event_sites(&events_path, 4, &mut rng, dense));
                        if !dense && sites.len() > 60 {
                            rng.shuffle(&mut sites);
                            // keep every class represented
                            sites.sort_by_key(|s| s.class);
                            let mut kept = vec![];
                            let mut per: std::collections::BTreeMap<&str, usize> = Default::default();
                            for s in sites {
                                let e = per.entry(s.class).or_insert(0);
                                if *e < 8 {
                                    *e += 1;
                                    kept.push(s);
                                }
                            }
                            sites = kept;
                        }
                        for site in sites {
                            let mask = 1u8 << rng.below(8);
                            if flip(&site.file, site.offset, mask).is_err() {
                                continue;
                            }
                            let r = folder_report(&target, &account_id, vec![summary.clone()]).await;
                            let _ = flip(&site.file, site.offset, mask);
                            let Ok(r) = r else { continue };
                            let flagged = r.failures.iter().any(|(f, _)| *f == fid);
                            rep.count(&format!("mutations:{}", site.class), 1);
                            if site.enforced && rep.counter(&format!("mutations:{}", site.class)) == 1 {
                                rep.sample(json!({"kind": "corruption", "class": site.class, "file": site.file.file_name().map(|f| f.to_string_lossy().to_string()), "offset": site.offset, "mask": mask, "flagged": flagged}));
                            }
                            let mut hh = Fnv::new();
                            hh.str(&site.file.display().to_string()).u64(site.offset).u64(mask as u64);
                            rep.case(hh.finish(), true);
                            if flagged {
                                rep.count(&format!("flagged:{}", site.class), 1);
                            } else if site.enforced {
                                if !r.completed {
                                    rep.inconclusive(&format!("report did not complete after corrupting {} (watchdog)", site.class));
                                } else {
                                    rep.violation(
                                        &format!("C16:fs:complete:not_flagged:{}", site.class),
                                        &format!("flipping bit {mask:#04x} of byte {} ({}) in {} is not reported as a failure of folder {fid}", site.offset, site.class, site.file.file_name().unwrap().to_string_lossy()),
                                        json!({"ctx": ctx, "site": format!("{site:?}"), "mask": mask}),
                                    );
                                }
                            } else {
                                rep.count(&format!("informational_not_flagged:{}", site.class), 1);
                            }
                        }
                        // removal of the vault / of the log
                        for (which, p) in [("vault_removed", &vault_path), ("event_log_removed", &events_path)] {
                            let bak = p.with_extension("verif-bak");
                            if std::fs::rename(p, &bak).is_ok() {
                                let r = folder_report(&target, &account_id, vec![summary.clone()]).await;
                                let _ = std::fs::rename(&bak, p);
                                rep.count(&format!("mutations:{which}"), 1);
                                if let Ok(r) = r {
                                    if !r.failures.iter().any(|(f, _)| *f == fid) {
                                        rep.violation(&format!("C16:fs:complete:not_flagged:{which}"), &format!("removing the {which} of folder {fid} is not reported"), ctx.clone());
                                    } else {
                                        rep.count(&format!("flagged:{which}"), 1);
                                    }
                                }
                            }
                        }
                    }
                }
                Backend::Db => {
                    if let BackendTarget::Database(_, client) = &target {
                        for summary in &summaries {
                            let fid = *summary.id();
                            let fid_s = fid.to_string();
                            // (table, key column, blob column, class, enforced)
                            let specs: [(&str, &str, &str, &str); 5] = [
                                ("folder_secrets", "secret_id", "commit_hash", "db_secret_commit"),
                                ("folder_secrets", "secret_id", "meta", "db_secret_meta"),
                                ("folder_secrets", "secret_id", "secret", "db_secret_value"),
                                ("folder_events", "event_id", "commit_hash", "db_event_commit"),
                                ("folder_events", "event_id", "event", "db_event_payload"),
                            ];
                            for (table, keycol, col, class) in specs {
                                let q = format!("SELECT {keycol}, {col} FROM {table} WHERE folder_id=(SELECT folder_id FROM folders WHERE identifier=?1)");
                                let fs = fid_s.clone();
                                let rows: Vec<(i64, Vec<u8>)> = client
                                    .conn(move |conn| {
                                        let mut stmt = conn.prepare(&q)?;
                                        let rows = stmt.query_map([fs], |r| Ok((r.get(0)?, r.get(1)?)))?;
                                        let mut out = vec![];
                                        for r in rows {
                                            out.push(r?);
                                        }
                                        Ok(out)
                                    })
                                    .await
                                    .unwrap_or_default();
                                // quick tier: rows spread over the whole table, and the rows right after
                                // the usual buffer sizes
                                let n = rows.len();
                                let mut pick: std::collections::BTreeSet<usize> = Default::default();
                                if dense {
                                    pick.extend(0..n);
                                } else if n > 0 {
                                    for i in [0, 1, n / 4, n / 2, 3 * n / 4, n.saturating_sub(2), n - 1, 8, 9, 16, 17, 32, 33] {
                                        if i < n {
                                            pick.insert(i);
                                        }
                                    }
                                    pick.insert(rng.usize(n));
                                }
                                rep.max(&format!("max:rows_in_a_table:{class}"), n as u64);
                                for (ri, (rowid, blob)) in rows.into_iter().enumerate() {
                                    if !pick.contains(&ri) {
                                        continue;
                                    }
                                    if ri >= 8 {
                                        rep.count("db_rows_mutated_beyond_8th", 1);
                                    }
                                    if blob.is_empty() {
                                        continue;
                                    }
                                    let positions: Vec<usize> = if dense { (0..blob.len()).step_by((blob.len() / 8).max(1)).collect() } else { vec![0, blob.len() - 1, rng.usize(blob.len())] };
                                    for p in positions {
                                        let mut bad = blob.clone();
                                        let mask = 1u8 << rng.below(8);
                                        bad[p] ^= mask;
                                        let uq = format!("UPDATE {table} SET {col}=?1 WHERE {keycol}=?2");
                                        let uq2 = uq.clone();
                                        let good = blob.clone();
                                        let ok = client.conn(move |conn| conn.execute(&uq, (bad, rowid))).await.is_ok();
                                        if !ok {
                                            continue;
                                        }
                                        let r = folder_report(&target, &account_id, vec![summary.clone()]).await;
                                        let _ = client.conn(move |conn| conn.execute(&uq2, (good, rowid))).await;
                                        let Ok(r) = r else { continue };
                                        rep.count(&format!("mutations:{class}"), 1);
                                        let mut hh = Fnv::new();
                                        hh.str(class).u64(rowid as u64).u64(p as u64).u64(mask as u64).str(&fid_s);
                                        rep.case(hh.finish(), true);
                                        if r.failures.iter().any(|(f, _)| *f == fid) {
                                            rep.count(&format!("flagged:{class}"), 1);
                                        } else if !r.completed {
                                            rep.inconclusive(&format!("report did not complete after corrupting {class} (watchdog)"));
                                        } else {
                                            rep.violation(
                                                &format!("C16:db:complete:not_flagged:{class}"),
                                                &format!("flipping bit {mask:#04x} of byte {p} of {table}.{col} (row {rowid}) is not reported as a failure of folder {fid}"),
                                                json!({"ctx": ctx, "table": table, "column": col, "row": rowid, "byte": p}),
                                            );
                                        }
                                    }
                                }
                            }
                        }
                    }
                }
            }
            // blobs (both backends keep blobs as files)
            for file in &files {
                let p = paths.into_file_path(file);
                let Ok(meta) = std::fs::metadata(&p) else { continue };
                let n = meta.len() as usize;
                let one = {
                    let mut s = indexmap::IndexSet::new();
                    s.insert(*file);
                    s
                };
                if n > 0 {
                    let positions: Vec<usize> = if dense { (0..n).step_by((n / 32).max(1)).collect() } else { vec![0, n - 1, rng.usize(n)] };
                    for pos in positions {
                        let mask = 1u8 << rng.below(8);
                        if flip(&p, pos as u64, mask).is_err() {
                            continue;
                        }
                        let r = files_report(&target, one.clone()).await;
                        let _ = flip(&p, pos as u64, mask);
                        rep.count("mutations:blob_byte", 1);
                        let mut hh = Fnv::new();
                        hh.str(&p.display().to_string()).u64(pos as u64).u64(mask as u64);
                        rep.case(hh.finish(), true);
                        if let Ok((fails, done)) = r {
                            if fails.iter().any(|(f, _)| f == file) {
                                rep.count("flagged:blob_byte", 1);
                            } else if !done {
                                rep.inconclusive("file report did not complete after corrupting a blob (watchdog)");
                            } else {
                                rep.violation(&format!("C16:{backend}:complete:not_flagged:blob_byte"), &format!("flipping a bit of byte {pos} of blob {file:?} is not reported"), ctx.clone());
                            }
                        }
                    }
                }
                let bak = p.with_extension("verif-bak");
                if std::fs::rename(&p, &bak).is_ok() {
                    let r = files_report(&target, one.clone()).await;
                    let _ = std::fs::rename(&bak, &p);
                    rep.count("mutations:blob_removed", 1);
                    if let Ok((fails, _)) = r {
                        if fails.iter().any(|(f, _)| f == file) {
                            rep.count("flagged:blob_removed", 1);
                        } else {
                            rep.violation(&format!("C16:{backend}:complete:not_flagged:blob_removed"), &format!("removing blob {file:?} is not reported"), ctx.clone());
                        }
                    }
                }
            }
            setup::close_target(target).await;
            s.finish().await;
        }
        let _ = std::fs::remove_dir_all(&pdir);
    }
}
