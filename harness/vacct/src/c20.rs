//! C20 (local part) — the search index always matches what the folders contain.
//!
//! After EVERY step of a generated history the live `SearchIndex` is
//! compared with (1) a recount from the reference model: exactly one
//! document per live secret carrying its current label / tags / kind /
//! favourite, counters per folder, kind (archive excluded, as the index
//! documents), tag and favourites; (2) an index rebuilt from scratch with
//! `add_folder` over the same unlocked folders; (3) queries for label
//! marker tokens: sound (every hit really contains the token) and complete
//! (every live secret whose label has the token as a word is hit); tokens
//! of deleted / relabelled secrets return nothing.
use crate::common::*;
use serde_json::{json, Value};
use sos_account::Account;
use sos_core::{SecretId, VaultFlags, VaultId};
use sos_search::SearchIndex;
use std::collections::{BTreeMap, BTreeSet};
use vkit::{Args, Fnv, Reporter, Rng};
use vmodel::model::AccountModel;
use vmodel::ops::Weights;
use vmodel::session::Session;
use vmodel::setup::{self, Config};

pub use vmodel::index::*;

/// Label tokens that belonged to secrets but are in no live label now.
pub fn stale_label_tokens(all_label_tokens: &BTreeSet<String>, model: &AccountModel) -> Vec<String> {
    let mut live = BTreeSet::new();
    for f in model.view.folders.values() {
        for (meta, _) in f.secrets.values() {
            let hay = format!("{} {}", meta.get("label").and_then(|l| l.as_str()).unwrap_or(""), meta.get("tags").map(|t| t.to_string()).unwrap_or_default());
            for t in all_label_tokens {
                if hay.contains(t.as_str()) {
                    live.insert(t.clone());
                }
            }
        }
    }
    all_label_tokens.difference(&live).cloned().collect()
}

pub async fn run(args: &Args, rep: &mut Reporter) {
    let histories_per_config = args.by_tier(3usize, 30usize);
    let steps = args.by_tier(40usize, 90usize);
    let mut rng = Rng::new(args.shard_seed() ^ 0xC20);
    // the index is backend independent; both backends still run (merge/replay paths differ)
    for (ci, config) in Config::matrix().iter().enumerate().filter(|(i, _)| i % 2 == 0) {
        let pdir = args.dir.join(format!("pristine{ci}"));
        let pristine = match setup::create_pristine(&pdir, config, &mut rng).await {
            Ok(p) => p,
            Err(e) => {
                rep.inconclusive(&format!("cannot create pristine account: {e}"));
                continue;
            }
        };
        for h in 0..histories_per_config {
            let hdir = args.dir.join(format!("h{ci}_{h}"));
            let mut w = Weights::c01();
            w.archive = 8;
            w.unarchive = 8;
            w.mov = 10;
            w.delete_folder = 3;
            w.create_folder = 4;
            w.update = 24;
            w.compact = 1;
            // on sqlite a copied folder takes the rows of its source (open finding under C02),
            // so the index question is only asked on the file system backend
            w.copy_folder = if config.backend.name() == "fs" { 3 } else { 0 };
            w.change_folder_pw = 1;
            let mut s = match Session::start(&pristine, &hdir, rng.fork(h as u64), w).await {
                Ok(s) => s,
                Err(e) => {
                    rep.inconclusive(&format!("cannot start session: {e}"));
                    continue;
                }
            };
            s.driver.allow_large = false;
            s.driver.init_search = true;
            if let Err(e) = s.account().initialize_search_index().await {
                rep.inconclusive(&format!("initialize_search_index: {e}"));
                s.finish().await;
                continue;
            }
            let backend = config.backend.name();
            let mut hash = Fnv::new();
            let mut label_tokens: BTreeSet<String> = BTreeSet::new();
            let mut stop = false;
            let mut mutations = 0;
            for st in 0..steps {
                if stop {
                    rep.count("histories_cut_short_after_violation", 1);
                    break;
                }
                let v0 = rep.violations();
                let out = s.step().await;
                hash.str(&out.op);
                rep.count("steps", 1);
                rep.count(&format!("op:{}", out.kind), 1);
                if matches!(out.kind, "update" | "delete" | "move" | "archive" | "unarchive" | "delete_folder") && out.result.is_ok() {
                    mutations += 1;
                }
                for m in &s.driver.markers {
                    if m.place.ends_with(".label") {
                        label_tokens.insert(m.token.clone());
                    }
                }
                s.driver.markers.clear();
                let ctx = json!({"config": config.name(), "history": h, "step": st, "last_ops": tail(&s.driver.log, 12)});
                let stale = stale_label_tokens(&label_tokens, &s.driver.model);
                let model = s.driver.model.clone();
                check_index(rep, s.account(), &model, &stale, backend, out.kind, &ctx).await;
                if rep.violations() > v0 {
                    stop = true;
                }
            }
            rep.case(hash.finish(), mutations >= 3);
            if h == 0 {
                rep.sample(json!({"config": config.name(), "steps": steps, "first_ops": s.driver.log.iter().take(10).collect::<Vec<_>>()}));
            }
            s.finish().await;
        }
        let _ = std::fs::remove_dir_all(&pdir);
    }
}
