//! JSON-lines reporter: the only channel from a worker to `bin/check`.
//!
//! Line kinds (`t`): `violation` (flushed at once), `inconclusive`,
//! and one final `summary` carrying counters, coverage tables, case
//! counts, distinct non-trivial case hashes and samples.
use serde_json::{json, Map, Value};
use std::collections::{BTreeMap, BTreeSet};
use std::fs::OpenOptions;
use std::io::Write;
use std::path::PathBuf;
use std::time::Instant;

pub struct Reporter {
    out: Option<PathBuf>,
    pub property: String,
    counters: BTreeMap<String, u64>,
    evaluations: u64,
    distinct: BTreeSet<u64>,
    distinct_overflow: u64,
    samples: Vec<Value>,
    max_samples: usize,
    violations: u64,
    violation_sigs: BTreeSet<String>,
    inconclusive: u64,
    extra: Map<String, Value>,
    started: Instant,
    exhaustive: Option<bool>,
}

const DISTINCT_CAP: usize = 400_000;

impl Reporter {
    pub fn new(property: &str, out: Option<PathBuf>) -> Self {
        Reporter {
            out,
            property: property.to_string(),
            counters: BTreeMap::new(),
            evaluations: 0,
            distinct: BTreeSet::new(),
            distinct_overflow: 0,
            samples: vec![],
            max_samples: 4,
            violations: 0,
            violation_sigs: BTreeSet::new(),
            inconclusive: 0,
            extra: Map::new(),
            started: Instant::now(),
            exhaustive: None,
        }
    }

    fn emit(&self, v: &Value) {
        let line = serde_json::to_string(v).unwrap();
        match &self.out {
            Some(p) => {
                if let Ok(mut f) =
                    OpenOptions::new().create(true).append(true).open(p)
                {
                    let _ = writeln!(f, "{}", line);
                }
            }
            None => println!("{}", line),
        }
    }

    /// Add to a named counter (observation / coverage evidence).
    pub fn count(&mut self, key: &str, n: u64) {
        *self.counters.entry(key.to_string()).or_insert(0) += n;
    }
    pub fn counter(&self, key: &str) -> u64 {
        self.counters.get(key).copied().unwrap_or(0)
    }
    /// Keep the max of a named gauge.
    pub fn max(&mut self, key: &str, n: u64) {
        let e = self.counters.entry(key.to_string()).or_insert(0);
        if n > *e {
            *e = n;
        }
    }

    /// One case was evaluated; `hash` is its content hash and
    /// `nontrivial` whether it met the check's non-triviality rule.
    pub fn case(&mut self, hash: u64, nontrivial: bool) {
        self.evaluations += 1;
        if nontrivial {
            if self.distinct.len() < DISTINCT_CAP {
                self.distinct.insert(hash);
            } else if !self.distinct.contains(&hash) {
                // beyond the cap we can no longer de-duplicate: count
                // conservatively (not at all) and say so.
                self.distinct_overflow += 1;
            }
        }
    }
    /// Bulk variant for enumerations whose cases are distinct by
    /// construction (disjoint partitions of a finite space).
    pub fn cases_enumerated(&mut self, evaluations: u64, nontrivial: u64) {
        self.evaluations += evaluations;
        *self.counters.entry("enumerated_nontrivial".into()).or_insert(0) +=
            nontrivial;
    }

    pub fn sample(&mut self, v: Value) {
        if self.samples.len() < self.max_samples {
            self.samples.push(v);
        }
    }
    pub fn set_max_samples(&mut self, n: usize) {
        self.max_samples = n;
    }
    pub fn set_extra(&mut self, key: &str, v: Value) {
        self.extra.insert(key.to_string(), v);
    }
    pub fn set_exhaustive(&mut self, v: bool) {
        self.exhaustive = Some(v);
    }

    /// Report a violation. `sig` is the shape signature (no random
    /// ids); `replay` is everything needed to re-execute the case.
    /// Only the first occurrence of a signature carries its replay.
    pub fn violation(&mut self, sig: &str, what: &str, replay: Value) {
        self.violations += 1;
        *self.counters.entry(format!("violation:{}", sig)).or_insert(0) += 1;
        if self.violation_sigs.insert(sig.to_string()) {
            self.emit(&json!({
                "t": "violation",
                "property": self.property,
                "sig": sig,
                "what": what,
                "replay": replay,
            }));
        }
    }
    pub fn violations(&self) -> u64 {
        self.violations
    }
    pub fn has_sig(&self, sig: &str) -> bool {
        self.violation_sigs.contains(sig)
    }

    pub fn inconclusive(&mut self, why: &str) {
        self.inconclusive += 1;
        self.emit(&json!({"t": "inconclusive", "property": self.property, "why": why}));
    }

    pub fn elapsed_s(&self) -> f64 {
        self.started.elapsed().as_secs_f64()
    }

    /// Final line; call exactly once at the end of the worker.
    pub fn finish(self) {
        let hashes: Vec<String> =
            self.distinct.iter().map(|h| format!("{:016x}", h)).collect();
        let v = json!({
            "t": "summary",
            "property": self.property,
            "evaluations": self.evaluations,
            "distinct_hashes": hashes,
            "distinct_overflow": self.distinct_overflow,
            "counters": self.counters,
            "samples": self.samples,
            "violations": self.violations,
            "inconclusive": self.inconclusive,
            "extra": self.extra,
            "exhaustive": self.exhaustive,
            "wall_s": self.started.elapsed().as_secs_f64(),
        });
        self.emit(&v);
    }
}
