//! C15 — malformed bytes are rejected with an error, never a crash.
//!
//! Corpus: valid encodings produced by `gen.rs` (binary and protobuf) plus
//! small valid event-log files, vault files and backup archives written
//! with the repository's own writers. Mutators: bit flips, truncation at
//! every offset, u32 windows {0, 1, 0x7fffffff, 0xffffffff, original±1},
//! byte sweeps over the first bytes, u16 windows over all event kinds and
//! undefined values, splices of two valid encodings, extreme timestamps and
//! short random strings (see `plan`).
//!
//! Monitors per input:
//!  (a) panic sentinel: `catch_unwind` + a silent panic hook recording the
//!      location. A panic that the repository turns into an `Err` itself
//!      (e.g. `spawn_blocking` + `JoinError`) is *not* a violation
//!      (`panic_caught_by_repo:<entry>`); a panic that unwinds to the
//!      caller, or that kills a task spawned by the repository while the
//!      caller is handed a normal-looking value, is;
//!  (b) counting allocator: peak bytes requested during the call must stay
//!      below 3 x 16 MiB + 64 x input length;
//!  (c) per-input wall-clock timeout (20 s, reported as inconclusive) and an
//!      item cap on every iteration loop (`no_progress`);
//!  (d) `current_input.txt` is rewritten before every call.
//!
//! Process structure: allocation failure aborts a Rust process and cannot
//! be caught, and some decoders reserve memory from a length read off the
//! input. The check therefore runs its inputs in a *child* process (this
//! same binary with `--c15-child`); the parent merges the child's progress
//! file, turns a child death into a violation attributed through
//! `current_input.txt`, and restarts the child just after the fatal input.
use crate::gen::Gen;
use binary_stream::futures::{Decodable, Encodable};
use futures::{future::LocalBoxFuture, pin_mut, StreamExt};
use serde_json::{json, Value};
use sos_core::{
    commit::{CommitHash, CommitProof, CommitState, Comparison},
    constants::{
        ACCOUNT_EVENT_LOG_IDENTITY, DEVICE_EVENT_LOG_IDENTITY,
        FILE_EVENT_LOG_IDENTITY, FOLDER_EVENT_LOG_IDENTITY, VAULT_IDENTITY,
    },
    crypto::{AeadPack, Cipher, KeyDerivation},
    decode, encode,
    events::{
        patch::{CheckedPatch, FolderDiff, FolderPatch},
        AccountEvent, DeviceEvent, EventKind, EventLog, EventLogType,
        EventRecord, FileEvent, WriteEvent,
    },
    AccountId, ExternalFile, Origin, Paths, UtcDateTime, VaultCommit,
    VaultEntry, VaultFlags,
};
use sos_filesystem::formats::{
    EventLogRecord, FileItem, FormatStream, FormatStreamIterator, VaultRecord,
};
use sos_protocol::{
    transfer::{FileSet, FileTransfersSet},
    DiffRequest, DiffResponse, NetworkChangeEvent, PatchRequest,
    PatchResponse, ProtoMessage, RelayHeader, RelayPacket, RelayPayload,
    ScanRequest, ScanResponse, WireEncodeDecode,
};
use sos_signer::ed25519::BinaryEd25519Signature;
use sos_sync::{
    CreateSet, MaybeDiff, MergeOutcome, SyncCompare, SyncDiff, SyncPacket,
    SyncStatus, TrackedAccountChange, TrackedChanges, TrackedDeviceChange,
    TrackedFileChange, TrackedFolderChange, UpdateSet,
};
use sos_vault::{
    secret::{Secret, SecretMeta, SecretRow},
    Header, SharedAccess, Summary, Vault, VaultMeta,
};
use std::collections::BTreeMap;
use std::io::Write;
use std::panic::{catch_unwind, AssertUnwindSafe};
use std::path::{Path, PathBuf};
use std::rc::Rc;
use std::str::FromStr;
use std::sync::{mpsc, Arc, Mutex};
use std::time::{Duration, Instant};
use vkit::{Args, Fnv, Reporter, Rng};

type FsErr = sos_filesystem::Error;

// ---------------------------------------------------------------------
// panic sentinel

static PANICS: Mutex<Vec<(String, String)>> = Mutex::new(Vec::new());

/// Shorten a panic location to something stable across machines.
fn norm_file(file: &str) -> String {
    if let Some(i) = file.find("/repo/") {
        return file[i + 6..].to_string();
    }
    if let Some(i) = file.find("/registry/src/") {
        let rest = &file[i + 14..];
        return rest.split_once('/').map(|x| x.1).unwrap_or(rest).to_string();
    }
    if let Some(i) = file.find("/library/") {
        return format!("rust{}", &file[i..]);
    }
    file.to_string()
}

/// Install a silent panic hook that records `file:line` + message.
pub fn install_panic_hook() {
    std::panic::set_hook(Box::new(|info| {
        let loc = info
            .location()
            .map(|l| format!("{}:{}", norm_file(l.file()), l.line()))
            .unwrap_or_else(|| "unknown".to_string());
        let msg = info
            .payload()
            .downcast_ref::<String>()
            .cloned()
            .or_else(|| {
                info.payload().downcast_ref::<&str>().map(|s| s.to_string())
            })
            .unwrap_or_default();
        if let Ok(mut p) = PANICS.lock() {
            if p.len() < 16 {
                p.push((loc, msg));
            }
        }
    }));
}

pub fn take_panics() -> Vec<(String, String)> {
    PANICS.lock().map(|mut p| std::mem::take(&mut *p)).unwrap_or_default()
}

// ---------------------------------------------------------------------
// mutations

#[derive(Clone, Debug)]
enum Mut {
    Identity,
    BitFlip(usize, u8),
    Truncate(usize),
    U32(usize, u32),
    U16(usize, u16),
    Byte(usize, u8),
    Time(usize, i64, u32),
    Splice(usize, usize, usize),
    Random(usize, u64),
    Append(usize, u64),
}

impl Mut {
    fn apply(&self, orig: &[u8], others: &[Arc<Vec<u8>>]) -> Vec<u8> {
        let mut v = orig.to_vec();
        let put = |v: &mut Vec<u8>, at: usize, b: &[u8]| {
            for (i, x) in b.iter().enumerate() {
                if at + i < v.len() {
                    v[at + i] = *x;
                }
            }
        };
        match self {
            Mut::Identity => {}
            Mut::BitFlip(at, bit) => v[*at] ^= 1 << bit,
            Mut::Truncate(n) => v.truncate(*n),
            Mut::U32(at, x) => put(&mut v, *at, &x.to_le_bytes()),
            Mut::U16(at, x) => put(&mut v, *at, &x.to_le_bytes()),
            Mut::Byte(at, x) => put(&mut v, *at, &[*x]),
            Mut::Time(at, secs, nanos) => {
                put(&mut v, *at, &secs.to_le_bytes());
                put(&mut v, *at + 8, &nanos.to_le_bytes());
            }
            Mut::Splice(other, a, b) => {
                let o = &others[*other % others.len().max(1)];
                v.truncate(*a);
                v.extend_from_slice(&o[(*b).min(o.len())..]);
            }
            Mut::Random(len, seed) => {
                v = Rng::new(*seed).bytes(*len);
            }
            Mut::Append(n, seed) => {
                v.extend_from_slice(&Rng::new(*seed).bytes(*n));
            }
        }
        v
    }
    fn desc(&self) -> String {
        match self {
            Mut::Identity => "identity".into(),
            Mut::BitFlip(at, bit) => format!("bitflip@{at}.{bit}"),
            Mut::Truncate(n) => format!("truncate@{n}"),
            Mut::U32(at, x) => format!("u32@{at}={x:#x}"),
            Mut::U16(at, x) => format!("u16@{at}={x}"),
            Mut::Byte(at, x) => format!("byte@{at}={x}"),
            Mut::Time(at, s, n) => format!("time@{at}={s}s+{n}ns"),
            Mut::Splice(o, a, b) => format!("splice(self[..{a}]+other{o}[{b}..])"),
            Mut::Random(len, _) => format!("random({len})"),
            Mut::Append(n, _) => format!("append({n})"),
        }
    }
    fn class(&self) -> &'static str {
        match self {
            Mut::Identity => "identity",
            Mut::BitFlip(..) => "bitflip",
            Mut::Truncate(..) => "truncate",
            Mut::U32(..) => "u32",
            Mut::U16(..) => "u16",
            Mut::Byte(..) => "byte",
            Mut::Time(..) => "time",
            Mut::Splice(..) => "splice",
            Mut::Random(..) => "random",
            Mut::Append(..) => "append",
        }
    }
}

/// All event kinds that are defined plus 64 that are not.
fn u16_values() -> Vec<u16> {
    let mut v: Vec<u16> = (0..=34).collect();
    debug_assert!(EventKind::try_from(34u16).is_ok());
    v.extend(35..=90u16);
    v.extend([255, 256, 1000, 0x7fff, 0x8000, 0xfffe, 0xffff, 0x0100]);
    v
}

const TIMES: &[(i64, u32)] = &[
    (i64::MAX, u32::MAX),
    (i64::MIN, u32::MAX),
    (crate::gen::MAX_SECS, u32::MAX),
    (crate::gen::MAX_SECS, 999_999_999),
    (crate::gen::MIN_SECS, u32::MAX),
    (crate::gen::MAX_SECS + 1, 0),
    (0, u32::MAX),
];

/// The mutation list for one corpus item: a priority part that is always
/// kept (up to half of the budget) and a uniformly sampled remainder.
fn plan(orig: &[u8], n_others: usize, rng: &mut Rng, budget: usize) -> Vec<Mut> {
    let len = orig.len();
    let mut must: Vec<Mut> = vec![];
    let mut rest: Vec<Mut> = vec![];
    // truncation at every offset (priority for inputs <= 512 bytes)
    for n in 0..len {
        if len <= 512 || n < 24 || n + 12 > len {
            must.push(Mut::Truncate(n));
        } else {
            rest.push(Mut::Truncate(n));
        }
    }
    // leading u16: every defined event kind (0 = Noop) and a few beyond
    for k in 0..=40u16 {
        must.push(Mut::U16(0, k));
    }
    for at in 0..len.saturating_sub(1) {
        let vals = u16_values();
        if at < 8 {
            for x in vals {
                rest.push(Mut::U16(at, x));
            }
        } else {
            for _ in 0..3 {
                rest.push(Mut::U16(at, *rng.pick(&vals)));
            }
        }
    }
    // u32 windows, aligned and unaligned
    for at in 0..len.saturating_sub(3) {
        let o = u32::from_le_bytes(orig[at..at + 4].try_into().unwrap());
        if len <= 192 || at < 16 {
            must.push(Mut::U32(at, 0xffff_ffff));
        } else {
            rest.push(Mut::U32(at, 0xffff_ffff));
        }
        for x in [0, 1, 0x7fff_ffff, o.wrapping_add(1), o.wrapping_sub(1)] {
            rest.push(Mut::U32(at, x));
        }
    }
    // the first bytes (identity / kind / tag fields) over their full range
    for at in 0..len.min(20) {
        for x in 0..=255u8 {
            rest.push(Mut::Byte(at, x));
        }
    }
    for at in 0..len {
        for bit in 0..8 {
            rest.push(Mut::BitFlip(at, bit));
        }
    }
    // extreme timestamps (i64 seconds + u32 nanos)
    for at in 0..len.saturating_sub(11) {
        for (s, n) in TIMES {
            if at <= 8 {
                must.push(Mut::Time(at, *s, *n));
            } else {
                rest.push(Mut::Time(at, *s, *n));
            }
        }
    }
    if n_others > 0 {
        for _ in 0..48 {
            rest.push(Mut::Splice(
                rng.usize(n_others),
                rng.usize(len + 1),
                rng.usize(len + 1),
            ));
        }
    }
    for _ in 0..16 {
        must.push(Mut::Random(rng.usize(64), rng.next()));
    }
    for _ in 0..8 {
        rest.push(Mut::Append(rng.range(1, 32) as usize, rng.next()));
    }

    let mut out = vec![Mut::Identity];
    let cap = budget / 2;
    if must.len() > cap {
        rng.shuffle(&mut must);
        must.truncate(cap);
    }
    out.extend(must);
    let room = budget.saturating_sub(out.len());
    if rest.len() > room {
        // partial Fisher-Yates: `room` uniformly chosen elements
        for i in 0..room {
            let j = i + rng.usize(rest.len() - i);
            rest.swap(i, j);
        }
        rest.truncate(room);
    }
    out.extend(rest);
    out
}

// ---------------------------------------------------------------------
// entry points

pub struct Ctx {
    dir: PathBuf,
    account_id: AccountId,
}

#[derive(Debug)]
enum CallErr {
    Err(String),
    NoProgress(u64),
}
type CallResult = Result<u64, CallErr>;

fn e<E: std::fmt::Display>(err: E) -> CallErr {
    CallErr::Err(err.to_string())
}

type RunFn = Rc<
    dyn Fn(Arc<Vec<u8>>, Arc<Ctx>, [u8; 32]) -> LocalBoxFuture<'static, CallResult>,
>;

struct Target {
    name: String,
    /// File (relative to the scratch dir) the input is written to before
    /// the monitored call.
    file: Option<&'static str>,
    run: RunFn,
}

struct Plan {
    #[allow(dead_code)]
    label: String,
    entries: Vec<usize>,
    corpus: Vec<Arc<Vec<u8>>>,
    /// commits of the valid original (event-log files)
    commits: Vec<Vec<[u8; 32]>>,
    /// inputs per entry of this plan
    budget: usize,
}

fn mem<F, Fut>(name: String, f: F) -> Target
where
    F: Fn(Arc<Vec<u8>>) -> Fut + 'static,
    Fut: std::future::Future<Output = CallResult> + 'static,
{
    Target {
        name,
        file: None,
        run: Rc::new(move |b, _, _| Box::pin(f(b))),
    }
}

fn bin<T: Decodable + Default + 'static>(name: &str) -> Target {
    mem(format!("decode<{name}>"), |b| async move {
        decode::<T>(&b).await.map(|_| 1).map_err(e)
    })
}

fn event<T: Decodable + Default + 'static>(name: &str) -> Target {
    mem(format!("decode_event<{name}>"), |b| async move {
        let record = EventRecord::new(
            UtcDateTime::from(time::OffsetDateTime::UNIX_EPOCH),
            Default::default(),
            Default::default(),
            b.to_vec(),
        );
        record.decode_event::<T>().await.map(|_| 1).map_err(e)
    })
}

fn wire<T: WireEncodeDecode + 'static>(name: &str) -> Target {
    mem(format!("wire_decode<{name}>"), |b| async move {
        T::decode(std::io::Cursor::new(b.to_vec()))
            .await
            .map(|_| 1)
            .map_err(e)
    })
}

const LOG_FILE: &str = "m.events";
const VAULT_FILE: &str = "m.vault";
const ZIP_FILE: &str = "m.zip";

fn file_target<F, Fut>(name: String, file: &'static str, f: F) -> Target
where
    F: Fn(PathBuf, Arc<Ctx>, [u8; 32], u64) -> Fut + 'static,
    Fut: std::future::Future<Output = CallResult> + 'static,
{
    Target {
        name,
        file: Some(file),
        run: Rc::new(move |b, ctx, commit| {
            let path = ctx.dir.join(file);
            Box::pin(f(path, ctx, commit, b.len() as u64))
        }),
    }
}

/// Drain a record stream with an item cap.
async fn drain<S, T, E2>(stream: S, cap: u64) -> CallResult
where
    S: futures::Stream<Item = Result<T, E2>>,
    E2: std::fmt::Display,
{
    pin_mut!(stream);
    let mut n = 0u64;
    while let Some(item) = stream.next().await {
        match item {
            Ok(_) => n += 1,
            Err(err) => return Err(e(err)),
        }
        if n > cap {
            return Err(CallErr::NoProgress(n));
        }
    }
    Ok(n)
}

async fn iterate<T: FileItem + Send>(
    mut it: impl FormatStreamIterator<T>,
    cap: u64,
) -> CallResult {
    let mut n = 0u64;
    loop {
        match it.next().await {
            Ok(Some(_)) => n += 1,
            Ok(None) => return Ok(n),
            Err(err) => return Err(e(err)),
        }
        if n > cap {
            return Err(CallErr::NoProgress(n));
        }
    }
}

/// The operations of one kind of event log over a (mutated) file.
macro_rules! log_targets {
    ($out:ident, $kind:literal, $open:expr, $identity:expr, $header:expr) => {{
        $out.push(file_target(format!("{}_log:load_tree", $kind), LOG_FILE, |path, ctx, _c, _len| async move {
            let mut log = $open(path, ctx.account_id).await.map_err(e)?;
            log.load_tree().await.map_err(e)?;
            Ok(log.tree().len() as u64)
        }));
        for reverse in [false, true] {
            $out.push(file_target(format!("{}_log:record_stream_{}", $kind, if reverse { "rev" } else { "fwd" }), LOG_FILE, move |path, ctx, _c, len| async move {
                let log = $open(path, ctx.account_id).await.map_err(e)?;
                let stream = log.record_stream(reverse).await;
                drain(stream, len + 16).await
            }));
        }
        $out.push(file_target(format!("{}_log:event_stream", $kind), LOG_FILE, |path, ctx, _c, len| async move {
            let log = $open(path, ctx.account_id).await.map_err(e)?;
            let stream = log.event_stream(false).await;
            drain(stream, len + 16).await
        }));
        $out.push(file_target(format!("{}_log:rewind", $kind), LOG_FILE, |path, ctx, c, _len| async move {
            let mut log = $open(path, ctx.account_id).await.map_err(e)?;
            log.load_tree().await.map_err(e)?;
            log.rewind(&CommitHash(c)).await.map(|r| r.len() as u64).map_err(e)
        }));
        $out.push(file_target(format!("{}_log:diff_records(None)", $kind), LOG_FILE, |path, ctx, _c, _len| async move {
            let log = $open(path, ctx.account_id).await.map_err(e)?;
            log.diff_records(None).await.map(|r| r.len() as u64).map_err(e)
        }));
        $out.push(file_target(format!("{}_log:diff_records(Some)", $kind), LOG_FILE, |path, ctx, c, _len| async move {
            let log = $open(path, ctx.account_id).await.map_err(e)?;
            log.diff_records(Some(&CommitHash(c))).await.map(|r| r.len() as u64).map_err(e)
        }));
        for reverse in [false, true] {
            $out.push(file_target(format!("{}_log:FormatStream_{}", $kind, if reverse { "rev" } else { "fwd" }), LOG_FILE, move |path, _ctx, _c, len| async move {
                let file = sos_vfs::File::open(&path).await.map_err(e)?;
                let it = FormatStream::<EventLogRecord, sos_vfs::File>::new_file(file, $identity, true, Some($header), reverse).await.map_err(e)?;
                iterate(it, len + 16).await
            }));
        }
    }};
}

async fn open_folder(
    path: PathBuf,
    account_id: AccountId,
) -> Result<sos_filesystem::FolderEventLog<FsErr>, FsErr> {
    sos_filesystem::FolderEventLog::<FsErr>::new_folder(
        path,
        account_id,
        EventLogType::Folder(uuid::Uuid::nil()),
    )
    .await
}
async fn open_account(
    path: PathBuf,
    account_id: AccountId,
) -> Result<sos_filesystem::AccountEventLog<FsErr>, FsErr> {
    sos_filesystem::AccountEventLog::<FsErr>::new_account(path, account_id).await
}
async fn open_device(
    path: PathBuf,
    account_id: AccountId,
) -> Result<sos_filesystem::DeviceEventLog<FsErr>, FsErr> {
    sos_filesystem::DeviceEventLog::<FsErr>::new_device(path, account_id).await
}
async fn open_files(
    path: PathBuf,
    account_id: AccountId,
) -> Result<sos_filesystem::FileEventLog<FsErr>, FsErr> {
    sos_filesystem::FileEventLog::<FsErr>::new_file(path, account_id).await
}

const N_LOG_OPS: usize = 9;

/// Every entry point, in a fixed order (the worker thread and the driver
/// thread build the same table and talk in indexes).
fn targets() -> Vec<Target> {
    let mut t: Vec<Target> = vec![];
    // --- sos_core::decode::<T> for every binary type of C14
    t.push(bin::<Vault>("Vault"));
    t.push(bin::<Header>("Header"));
    t.push(bin::<Summary>("Summary"));
    t.push(bin::<SharedAccess>("SharedAccess"));
    t.push(bin::<VaultMeta>("VaultMeta"));
    t.push(bin::<Secret>("Secret"));
    t.push(bin::<SecretMeta>("SecretMeta"));
    t.push(bin::<SecretRow>("SecretRow"));
    t.push(bin::<AeadPack>("AeadPack"));
    t.push(bin::<VaultEntry>("VaultEntry"));
    t.push(bin::<VaultCommit>("VaultCommit"));
    t.push(bin::<WriteEvent>("WriteEvent"));
    t.push(bin::<AccountEvent>("AccountEvent"));
    t.push(bin::<DeviceEvent>("DeviceEvent"));
    t.push(bin::<FileEvent>("FileEvent"));
    t.push(bin::<EventRecord>("EventRecord"));
    t.push(bin::<CommitHash>("CommitHash"));
    t.push(bin::<CommitProof>("CommitProof"));
    t.push(bin::<CommitState>("CommitState"));
    t.push(bin::<Comparison>("Comparison"));
    t.push(bin::<UtcDateTime>("UtcDateTime"));
    t.push(bin::<Cipher>("Cipher"));
    t.push(bin::<KeyDerivation>("KeyDerivation"));
    t.push(bin::<EventKind>("EventKind"));
    // --- EventRecord::decode_event::<E>
    t.push(event::<WriteEvent>("WriteEvent"));
    t.push(event::<AccountEvent>("AccountEvent"));
    t.push(event::<DeviceEvent>("DeviceEvent"));
    t.push(event::<FileEvent>("FileEvent"));
    // --- WireEncodeDecode::decode
    t.push(wire::<UtcDateTime>("UtcDateTime"));
    t.push(wire::<CommitHash>("CommitHash"));
    t.push(wire::<CommitProof>("CommitProof"));
    t.push(wire::<CommitState>("CommitState"));
    t.push(wire::<EventRecord>("EventRecord"));
    t.push(wire::<CheckedPatch>("CheckedPatch"));
    t.push(wire::<EventLogType>("EventLogType"));
    t.push(wire::<Comparison>("Comparison"));
    t.push(wire::<Origin>("Origin"));
    t.push(wire::<ExternalFile>("ExternalFile"));
    t.push(wire::<FolderPatch>("FolderPatch"));
    t.push(wire::<FolderDiff>("FolderDiff"));
    t.push(wire::<MaybeDiff<FolderDiff>>("MaybeDiff<FolderDiff>"));
    t.push(wire::<SyncStatus>("SyncStatus"));
    t.push(wire::<SyncDiff>("SyncDiff"));
    t.push(wire::<SyncCompare>("SyncCompare"));
    t.push(wire::<SyncPacket>("SyncPacket"));
    t.push(wire::<CreateSet>("CreateSet"));
    t.push(wire::<UpdateSet>("UpdateSet"));
    t.push(wire::<TrackedChanges>("TrackedChanges"));
    t.push(wire::<MergeOutcome>("MergeOutcome"));
    t.push(wire::<NetworkChangeEvent>("NetworkChangeEvent"));
    t.push(wire::<TrackedFolderChange>("TrackedFolderChange"));
    t.push(wire::<TrackedAccountChange>("TrackedAccountChange"));
    t.push(wire::<TrackedDeviceChange>("TrackedDeviceChange"));
    t.push(wire::<TrackedFileChange>("TrackedFileChange"));
    t.push(wire::<ScanRequest>("ScanRequest"));
    t.push(wire::<ScanResponse>("ScanResponse"));
    t.push(wire::<DiffRequest>("DiffRequest"));
    t.push(wire::<DiffResponse>("DiffResponse"));
    t.push(wire::<PatchRequest>("PatchRequest"));
    t.push(wire::<PatchResponse>("PatchResponse"));
    t.push(wire::<FileSet>("FileSet"));
    t.push(wire::<FileTransfersSet>("FileTransfersSet"));
    // --- event log files (file system backend), four kinds
    log_targets!(t, "folder", open_folder, &FOLDER_EVENT_LOG_IDENTITY, 4u64);
    log_targets!(t, "account", open_account, &ACCOUNT_EVENT_LOG_IDENTITY, 6u64);
    log_targets!(t, "device", open_device, &DEVICE_EVENT_LOG_IDENTITY, 6u64);
    log_targets!(t, "files", open_files, &FILE_EVENT_LOG_IDENTITY, 6u64);
    // --- vault files
    t.push(file_target("vault_file:Header::read_header_file".into(), VAULT_FILE, |path, _, _, _| async move {
        Header::read_header_file(&path).await.map(|_| 1).map_err(e)
    }));
    t.push(file_target("vault_file:Header::read_summary_file".into(), VAULT_FILE, |path, _, _, _| async move {
        Header::read_summary_file(&path).await.map(|_| 1).map_err(e)
    }));
    t.push(file_target("vault_file:Header::read_content_offset".into(), VAULT_FILE, |path, _, _, _| async move {
        Header::read_content_offset(&path).await.map(|_| 1).map_err(e)
    }));
    for reverse in [false, true] {
        t.push(file_target(format!("vault_file:FormatStream_{}", if reverse { "rev" } else { "fwd" }), VAULT_FILE, move |path, _, _, len| async move {
            let offset = Header::read_content_offset(&path).await.map_err(e)?;
            let file = sos_vfs::File::open(&path).await.map_err(e)?;
            let it = FormatStream::<VaultRecord, sos_vfs::File>::new_file(file, &VAULT_IDENTITY, true, Some(offset), reverse).await.map_err(e)?;
            iterate(it, len + 16).await
        }));
    }
    t.push(mem("Header::read_summary_slice".into(), |b| async move {
        Header::read_summary_slice(&b).await.map(|_| 1).map_err(e)
    }));
    t.push(mem("Header::read_content_offset_slice".into(), |b| async move {
        Header::read_content_offset_slice(&b).await.map(|_| 1).map_err(e)
    }));
    // --- backup archives
    t.push(file_target("archive:ZipReader".into(), ZIP_FILE, |path, _, _, _| async move {
        let file = tokio::io::BufReader::new(sos_vfs::File::open(&path).await.map_err(e)?);
        let mut zip = sos_archive::ZipReader::new(file).await.map_err(e)?;
        let names: Vec<String> = zip.inner().file().entries().iter().filter_map(|en| en.filename().as_str().ok().map(|s| s.to_string())).collect();
        let mut n = 0;
        for name in names.iter().take(64) {
            if zip.by_name(name).await.map_err(e)?.is_some() {
                n += 1;
            }
        }
        let _ = zip.find_manifest::<Value>().await.map_err(e)?;
        Ok(n)
    }));
    t.push(file_target("archive:read_backup_archive_manifest".into(), ZIP_FILE, |path, _, _, _| async move {
        sos_backend::archive::read_backup_archive_manifest(&path).await.map(|_| 1).map_err(e)
    }));
    t.push(file_target("archive:list_backup_archive_accounts".into(), ZIP_FILE, |path, _, _, _| async move {
        sos_backend::archive::list_backup_archive_accounts(&path).await.map(|a| a.len() as u64).map_err(e)
    }));
    t.push(file_target("archive:import_backup_archive".into(), ZIP_FILE, |path, ctx, _, _| async move {
        let scratch = ctx.dir.join("import");
        let _ = std::fs::remove_dir_all(&scratch);
        std::fs::create_dir_all(&scratch).map_err(e)?;
        Paths::scaffold(&scratch).await.map_err(e)?;
        let target = sos_backend::BackendTarget::FileSystem(Paths::new_client(&scratch));
        sos_backend::archive::import_backup_archive(&path, &target).await.map(|a| a.len() as u64).map_err(e)
    }));
    // --- pairing URL, relay packets, bearer token payload
    t.push(mem("ServerPairUrl::from_str".into(), |b| async move {
        let s = String::from_utf8_lossy(&b).to_string();
        sos_net::pairing::ServerPairUrl::from_str(&s).map(|_| 1).map_err(e)
    }));
    t.push(mem("RelayPacket::decode_split".into(), |b| async move {
        RelayPacket::decode_split(b.to_vec()).map(|_| 1).map_err(e)
    }));
    t.push(mem("RelayPacket::decode_proto+is_handshake".into(), |b| async move {
        let packet = RelayPacket::decode_proto(std::io::Cursor::new(b.to_vec())).await.map_err(e)?;
        Ok(packet.is_handshake() as u64)
    }));
    // the payload half of `BearerToken::new` (sos-server itself is not a
    // dependency of this binary): base58 + decode::<BinaryEd25519Signature>
    t.push(mem("bearer:bs58+decode<BinaryEd25519Signature>".into(), |b| async move {
        let token = String::from_utf8_lossy(&b).to_string();
        let value = bs58::decode(token).into_vec().map_err(e)?;
        decode::<BinaryEd25519Signature>(&value).await.map(|_| 1).map_err(e)
    }));
    t
}

// ---------------------------------------------------------------------
// corpus

async fn enc<T: Encodable>(v: &T) -> Arc<Vec<u8>> {
    Arc::new(encode(v).await.expect("encode corpus value"))
}

/// Keep the `keep` smallest of `n` generated encodings (small inputs make
/// the exhaustive mutators cheap) plus the largest one.
fn pick_small(mut all: Vec<Arc<Vec<u8>>>, keep: usize) -> Vec<Arc<Vec<u8>>> {
    all.sort_by_key(|b| b.len());
    all.dedup();
    let largest = all.last().cloned();
    // prefer non-degenerate inputs
    let mut out: Vec<Arc<Vec<u8>>> = all.iter().filter(|b| b.len() >= 3).take(keep).cloned().collect();
    if out.is_empty() {
        out = all.iter().take(keep).cloned().collect();
    }
    if let Some(l) = largest {
        if l.len() <= 4096 && !out.contains(&l) {
            out.push(l);
        }
    }
    out
}

struct Budgets {
    items: usize,
    mem: usize,
    wire: usize,
    files: usize,
    zips: usize,
}

async fn build_plans(
    g: &mut Gen,
    t: &[Target],
    dir: &Path,
    account_id: AccountId,
    b: &Budgets,
) -> Vec<Plan> {
    let idx = |name: &str| -> usize {
        t.iter().position(|x| x.name == name).unwrap_or_else(|| panic!("no target {name}"))
    };
    let mut plans: Vec<Plan> = vec![];
    let n = b.items * 3;

    macro_rules! bin_plan {
        ($name:literal, $gen:expr, [$($extra:expr),*]) => {{
            let mut all = vec![];
            for _ in 0..n {
                let v = $gen;
                all.push(enc(&v).await);
            }
            #[allow(unused_mut)]
            let mut entries = vec![idx(&format!("decode<{}>", $name))];
            $( entries.push(idx($extra)); )*
            plans.push(Plan { label: $name.to_string(), entries, corpus: pick_small(all, b.items), commits: vec![], budget: b.mem });
        }};
    }
    bin_plan!("Vault", g.vault(), ["Header::read_summary_slice", "Header::read_content_offset_slice"]);
    bin_plan!("Header", g.header(), []);
    bin_plan!("Summary", g.summary(), []);
    bin_plan!("SharedAccess", g.shared_access(), []);
    bin_plan!("VaultMeta", g.vault_meta(), []);
    // secrets: keep one of each kind in play by not dropping large ones
    {
        let mut all = vec![];
        for _ in 0..(15 * b.items.max(1)) {
            all.push(enc(&g.secret()).await);
        }
        all.retain(|x| x.len() <= 2048);
        plans.push(Plan { label: "Secret".into(), entries: vec![idx("decode<Secret>")], corpus: all, commits: vec![], budget: b.mem * 4 });
    }
    bin_plan!("SecretMeta", g.secret_meta(), []);
    bin_plan!("SecretRow", g.secret_row(1), []);
    bin_plan!("AeadPack", g.aead_pack(), []);
    bin_plan!("VaultEntry", g.vault_entry(), []);
    bin_plan!("VaultCommit", g.vault_commit(), []);
    // events: one item per variant, through decode and decode_event
    macro_rules! event_plan {
        ($name:literal, $gen:expr, $variants:expr) => {{
            let mut all = vec![];
            for _ in 0..($variants * b.items.max(1)) {
                let v = $gen;
                all.push(enc(&v).await);
            }
            all.retain(|x| x.len() <= 2048);
            let entries = vec![idx(&format!("decode<{}>", $name)), idx(&format!("decode_event<{}>", $name))];
            plans.push(Plan { label: $name.to_string(), entries, corpus: all, commits: vec![], budget: b.mem * 2 });
        }};
    }
    event_plan!("WriteEvent", g.write_event(), 7);
    event_plan!("AccountEvent", g.account_event(), 8);
    event_plan!("DeviceEvent", g.device_event(), 2);
    event_plan!("FileEvent", g.file_event(), 3);
    bin_plan!("EventRecord", g.event_record(), []);
    bin_plan!("CommitHash", g.commit_hash(), []);
    bin_plan!("CommitProof", g.commit_proof(), []);
    bin_plan!("CommitState", g.commit_state(), []);
    {
        // all three variants of Comparison (Contains carries a length)
        let mut all = vec![];
        for _ in 0..(3 * b.items.max(1)) {
            all.push(enc(&g.comparison()).await);
        }
        all.retain(|x| x.len() <= 2048);
        all.sort();
        all.dedup();
        plans.push(Plan { label: "Comparison".into(), entries: vec![idx("decode<Comparison>")], corpus: all, commits: vec![], budget: b.mem });
    }
    bin_plan!("UtcDateTime", g.date_time(), []);
    bin_plan!("Cipher", g.cipher(), []);
    bin_plan!("KeyDerivation", g.kdf(), []);
    {
        let kinds: Vec<Arc<Vec<u8>>> = [4u16, 9, 30].iter().map(|k| Arc::new(k.to_le_bytes().to_vec())).collect();
        plans.push(Plan { label: "EventKind".into(), entries: vec![idx("decode<EventKind>")], corpus: kinds, commits: vec![], budget: b.mem / 4 });
    }

    macro_rules! wire_plan {
        ($name:literal, $gen:expr) => {{
            let mut all = vec![];
            for _ in 0..n {
                let v = $gen;
                all.push(Arc::new(v.encode().await.expect("wire encode corpus value")));
            }
            plans.push(Plan { label: format!("wire:{}", $name), entries: vec![idx(&format!("wire_decode<{}>", $name))], corpus: pick_small(all, b.items), commits: vec![], budget: b.wire });
        }};
    }
    wire_plan!("UtcDateTime", g.date_time());
    wire_plan!("CommitHash", g.commit_hash());
    wire_plan!("CommitProof", g.commit_proof());
    wire_plan!("CommitState", g.commit_state());
    wire_plan!("EventRecord", g.event_record());
    wire_plan!("CheckedPatch", g.checked_patch());
    wire_plan!("EventLogType", g.event_log_type());
    wire_plan!("Comparison", g.comparison());
    wire_plan!("Origin", g.origin());
    wire_plan!("ExternalFile", g.external_file());
    wire_plan!("FolderPatch", g.patch::<WriteEvent>());
    wire_plan!("FolderDiff", g.diff::<WriteEvent>());
    wire_plan!("MaybeDiff<FolderDiff>", g.maybe_diff::<WriteEvent>());
    wire_plan!("SyncStatus", g.sync_status());
    wire_plan!("SyncDiff", g.sync_diff());
    wire_plan!("SyncCompare", g.sync_compare());
    wire_plan!("SyncPacket", g.sync_packet());
    wire_plan!("CreateSet", g.create_set());
    wire_plan!("UpdateSet", g.update_set());
    wire_plan!("TrackedChanges", g.tracked_changes());
    wire_plan!("MergeOutcome", g.merge_outcome());
    wire_plan!("NetworkChangeEvent", g.network_change_event());
    wire_plan!("TrackedFolderChange", g.tracked_folder_change());
    wire_plan!("TrackedAccountChange", g.tracked_account_change());
    wire_plan!("TrackedDeviceChange", g.tracked_device_change());
    wire_plan!("TrackedFileChange", g.tracked_file_change());
    wire_plan!("ScanRequest", g.scan_request());
    wire_plan!("ScanResponse", g.scan_response());
    wire_plan!("DiffRequest", g.diff_request());
    wire_plan!("DiffResponse", g.diff_response());
    wire_plan!("PatchRequest", g.patch_request());
    wire_plan!("PatchResponse", g.patch_response());
    wire_plan!("FileSet", g.file_set());
    wire_plan!("FileTransfersSet", g.file_transfers_set());

    // --- event log files written by the repository's own writer
    // (logical clock => byte-identical files for equal seeds)
    macro_rules! log_plan {
        ($kind:literal, $open:expr, $gen:expr) => {{
            let first = idx(&format!("{}_log:load_tree", $kind));
            let mut corpus = vec![];
            let mut commits = vec![];
            for k in 0..b.items.max(2) {
                let path = dir.join(format!("seed-{}-{}.events", $kind, k));
                let _ = std::fs::remove_file(&path);
                sos_core::verif::clock_set(1_700_000_000_000_000_000 + k as i128 * 1_000_000_007, 1_000_000_001);
                let mut log = $open(path.clone(), account_id).await.expect("create seed log");
                let n_events = 1 + (k % 4);
                let mut events = vec![];
                for _ in 0..n_events {
                    events.push($gen);
                }
                log.apply(&events).await.expect("append to seed log");
                sos_core::verif::clock_clear();
                commits.push(log.tree().leaves().unwrap_or_default());
                corpus.push(Arc::new(std::fs::read(&path).expect("read seed log")));
                let _ = std::fs::remove_file(&path);
            }
            plans.push(Plan { label: format!("{}_log", $kind), entries: (first..first + N_LOG_OPS).collect(), corpus, commits, budget: b.files });
        }};
    }
    log_plan!("folder", open_folder, g.write_event());
    log_plan!("account", open_account, g.account_event());
    log_plan!("device", open_device, g.device_event());
    log_plan!("files", open_files, g.file_event());

    // --- vault files
    {
        let first = idx("vault_file:Header::read_header_file");
        let mut corpus = vec![];
        for _ in 0..b.items.max(2) {
            corpus.push(enc(&g.vault()).await);
        }
        plans.push(Plan { label: "vault_file".into(), entries: (first..first + 5).collect(), corpus, commits: vec![], budget: b.files });
    }

    // --- backup archives (version 2 layout, built with ZipWriter)
    {
        let first = idx("archive:ZipReader");
        let corpus = build_archives(g, account_id).await;
        plans.push(Plan { label: "archive".into(), entries: (first..first + 4).collect(), corpus, commits: vec![], budget: b.zips });
    }

    // --- pairing URL, relay, bearer
    {
        let mut corpus = vec![];
        for _ in 0..b.items.max(2) {
            let url = sos_net::pairing::ServerPairUrl::new(g.account_id(), g.url(), g.rng.bytes(32));
            let url: url::Url = url.into();
            corpus.push(Arc::new(url.to_string().into_bytes()));
        }
        plans.push(Plan { label: "pair_url".into(), entries: vec![idx("ServerPairUrl::from_str")], corpus, commits: vec![], budget: b.mem });
    }
    {
        let mut split = vec![];
        let mut proto = vec![];
        for k in 0..b.items.max(2) {
            let payload = if k % 2 == 0 {
                RelayPayload::new_handshake(32, g.rng.bytes(32))
            } else {
                RelayPayload::new_transport(48, g.rng.bytes(48))
            };
            let packet = RelayPacket {
                header: Some(RelayHeader { to_public_key: g.rng.bytes(32), from_public_key: g.rng.bytes(32) }),
                payload: Some(payload),
            };
            split.push(Arc::new(packet.clone().encode_prefixed().await.expect("relay prefixed")));
            proto.push(Arc::new(packet.encode_proto().await.expect("relay proto")));
        }
        plans.push(Plan { label: "relay_split".into(), entries: vec![idx("RelayPacket::decode_split")], corpus: split, commits: vec![], budget: b.mem / 2 });
        plans.push(Plan { label: "relay_proto".into(), entries: vec![idx("RelayPacket::decode_proto+is_handshake")], corpus: proto, commits: vec![], budget: b.mem });
    }
    {
        let mut corpus = vec![];
        for _ in 0..2 {
            corpus.push(Arc::new(bs58::encode(g.rng.bytes(64)).into_string().into_bytes()));
        }
        plans.push(Plan { label: "bearer".into(), entries: vec![idx("bearer:bs58+decode<BinaryEd25519Signature>")], corpus, commits: vec![], budget: b.mem / 2 });
    }
    plans
}

/// A valid version-2 backup archive plus structural variants of it: the
/// manifest names entries that are not in the archive, carries bad
/// checksums, is missing, or is not the expected JSON.
async fn build_archives(g: &mut Gen, account_id: AccountId) -> Vec<Arc<Vec<u8>>> {
    use sos_archive::{ZipWriter, ARCHIVE_MANIFEST};
    use sos_filesystem::archive::ManifestVersion1;

    let mut identity = g.vault();
    *identity.flags_mut() = VaultFlags::IDENTITY;
    let identity = encode(&identity).await.expect("identity vault");
    let folder = g.vault();
    let folder_id = *folder.id();
    let folder = encode(&folder).await.expect("folder vault");
    let sha = |b: &[u8]| hex::encode(vkit::sha256(b));

    let base = || {
        let mut m = ManifestVersion1::new_v2();
        m.account_id = account_id;
        m.checksum = sha(&identity);
        m.vaults.insert(folder_id, sha(&folder));
        m
    };
    // (manifest json or None, include identity entry, include folder entry)
    let mut variants: Vec<(Option<Vec<u8>>, bool, bool)> = vec![];
    let ser = |m: &ManifestVersion1| Some(serde_json::to_vec_pretty(m).unwrap());
    variants.push((ser(&base()), true, true)); // valid
    variants.push((ser(&base()), true, false)); // folder vault missing
    variants.push((ser(&base()), false, true)); // identity vault missing
    let mut m = base();
    m.vaults.insert(g.uuid(), sha(b"nothing")); // names an absent vault
    variants.push((ser(&m), true, true));
    let mut m = base();
    m.devices = Some((sha(b"a"), sha(b"b"))); // absent device vault + log
    variants.push((ser(&m), true, true));
    let mut m = base();
    m.account = Some(sha(b"a")); // absent account event log
    variants.push((ser(&m), true, true));
    let mut m = base();
    m.files = Some(sha(b"a"));
    variants.push((ser(&m), true, true));
    let mut m = base();
    m.preferences = Some(sha(b"a"));
    m.remotes = Some(sha(b"a"));
    variants.push((ser(&m), true, true));
    let mut m = base();
    m.checksum = "zz-not-hex".into();
    variants.push((ser(&m), true, true));
    let mut m = base();
    m.checksum = sha(b"other"); // checksum mismatch
    variants.push((ser(&m), true, true));
    variants.push((None, true, true)); // no manifest at all
    variants.push((Some(b"{\"version\":3,\"accounts\":[]}".to_vec()), true, true));
    variants.push((Some(b"[]".to_vec()), true, true));

    let mut out = vec![];
    for (manifest, with_identity, with_folder) in variants {
        let mut archive = Vec::new();
        let mut w = ZipWriter::new(std::io::Cursor::new(&mut archive));
        if with_identity {
            w.add_file(&format!("{}.vault", account_id), &identity).await.expect("zip identity");
        }
        if with_folder {
            w.add_file(&format!("{}.vault", folder_id), &folder).await.expect("zip folder");
        }
        if let Some(m) = manifest {
            w.add_file(ARCHIVE_MANIFEST, &m).await.expect("zip manifest");
        }
        w.finish().await.expect("zip finish");
        out.push(Arc::new(archive));
    }
    out
}

// ---------------------------------------------------------------------
// the monitored call (worker thread)

struct Job {
    entry: usize,
    input: Arc<Vec<u8>>,
    commit: [u8; 32],
}

struct Outcome {
    result: CallResult,
    unwound: Option<String>,
    panics: Vec<(String, String)>,
    peak: usize,
    largest: usize,
    micros: u64,
}

fn worker_main(rx: mpsc::Receiver<Job>, tx: mpsc::Sender<Outcome>, ctx: Arc<Ctx>) {
    // current-thread runtime: the allocation counters are process-global,
    // so inputs are handled strictly one at a time on this thread
    let rt = tokio::runtime::Builder::new_current_thread().enable_all().build().unwrap();
    let table = targets();
    while let Ok(job) = rx.recv() {
        let t = &table[job.entry];
        if let Some(file) = t.file {
            let _ = std::fs::write(ctx.dir.join(file), &*job.input);
        }
        let _ = take_panics();
        let fut = (t.run)(job.input.clone(), ctx.clone(), job.commit);
        let t0 = Instant::now();
        vkit::alloc::begin();
        let r = catch_unwind(AssertUnwindSafe(|| {
            rt.block_on(async {
                let r = fut.await;
                // let tasks spawned by the call finish inside its window
                for _ in 0..4 {
                    tokio::task::yield_now().await;
                }
                r
            })
        }));
        let (peak, largest) = vkit::alloc::end();
        let panics = take_panics();
        let (result, unwound) = match r {
            Ok(r) => (r, None),
            Err(p) => {
                let msg = p.downcast_ref::<String>().cloned().or_else(|| p.downcast_ref::<&str>().map(|s| s.to_string())).unwrap_or_default();
                (Err(CallErr::Err("panic".into())), Some(msg))
            }
        };
        let micros = t0.elapsed().as_micros() as u64;
        if tx.send(Outcome { result, unwound, panics, peak, largest, micros }).is_err() {
            return;
        }
    }
}

struct Worker {
    tx: mpsc::Sender<Job>,
    rx: mpsc::Receiver<Outcome>,
}

fn spawn_worker(ctx: Arc<Ctx>) -> Worker {
    let (tx, jrx) = mpsc::channel::<Job>();
    let (otx, rx) = mpsc::channel::<Outcome>();
    std::thread::Builder::new()
        .name("c15-worker".into())
        .stack_size(16 << 20)
        .spawn(move || worker_main(jrx, otx, ctx))
        .expect("spawn worker");
    Worker { tx, rx }
}

// ---------------------------------------------------------------------
// child: runs the inputs, streams progress to a file

#[derive(Default)]
struct Stats {
    counters: BTreeMap<String, u64>,
    max: BTreeMap<String, u64>,
    cases: Vec<(u64, bool)>,
    samples: Vec<Value>,
}

impl Stats {
    fn count(&mut self, k: &str, n: u64) {
        *self.counters.entry(k.to_string()).or_insert(0) += n;
    }
    fn max(&mut self, k: &str, n: u64) {
        let e = self.max.entry(k.to_string()).or_insert(0);
        if n > *e {
            *e = n;
        }
    }
    fn flush(&mut self, path: &Path, done: bool) {
        let cases: Vec<String> = self.cases.iter().map(|(h, nt)| format!("{:016x}{}", h, if *nt { "+" } else { "-" })).collect();
        let line = json!({"counters": self.counters, "max": self.max, "cases": cases, "samples": self.samples, "done": done});
        if let Ok(mut f) = std::fs::OpenOptions::new().create(true).append(true).open(path) {
            let _ = writeln!(f, "{}", line);
        }
        self.counters.clear();
        self.max.clear();
        self.cases.clear();
        self.samples.clear();
    }
}

fn hex_trunc(b: &[u8], max: usize) -> String {
    if b.len() <= max {
        hex::encode(b)
    } else {
        format!("{}...(+{} bytes)", hex::encode(&b[..max]), b.len() - max)
    }
}

fn extra_value(args: &Args, key: &str) -> Option<String> {
    let i = args.extra.iter().position(|a| a == key)?;
    args.extra.get(i + 1).cloned()
}

const ALLOC_BASE: usize = 3 * 16 * 1024 * 1024;

fn child_main(args: &Args, rep: &mut Reporter) {
    install_panic_hook();
    let dir = args.dir.clone();
    let _ = std::fs::create_dir_all(&dir);
    let progress = dir.join("progress.jsonl");
    let resume: Vec<usize> = extra_value(args, "--resume").map(|s| s.split(',').filter_map(|x| x.parse().ok()).collect()).unwrap_or_default();
    let resume = if resume.len() == 4 { (resume[0], resume[1], resume[2], resume[3]) } else { (0, 0, 0, 0) };
    let disabled: Vec<String> = extra_value(args, "--disable").map(|s| s.split('|').filter(|x| !x.is_empty()).map(|x| x.to_string()).collect()).unwrap_or_default();
    let deadline_s: u64 = extra_value(args, "--deadline-s").and_then(|s| s.parse().ok()).unwrap_or(75);
    let deadline = Instant::now() + Duration::from_secs(deadline_s);

    let thorough = args.thorough();
    let budgets = if thorough {
        Budgets { items: 6, mem: 40_000, wire: 20_000, files: 2_500, zips: 1_500 }
    } else {
        Budgets { items: 3, mem: 2_000, wire: 900, files: 280, zips: 200 }
    };

    // fixed account id: part of file names inside archives only
    let account_id: AccountId = [0x15u8; 20].into();
    let ctx = Arc::new(Ctx { dir: dir.clone(), account_id });
    let table = targets();
    let rt = tokio::runtime::Builder::new_current_thread().enable_all().build().unwrap();
    let mut g = Gen::new(args.shard_seed() ^ 0xC15);
    g.small = true;
    let plans = rt.block_on(build_plans(&mut g, &table, &dir, account_id, &budgets));
    drop(rt);

    let mut stats = Stats::default();
    let mut worker = spawn_worker(ctx.clone());
    let mut current = std::fs::OpenOptions::new().create(true).write(true).truncate(true).open(dir.join("current_input.txt")).ok();
    let mut since_flush = 0u64;
    let mut samples_left = 3;
    let mut stopped = false;
    stats.count("corpus_items", plans.iter().map(|p| p.corpus.len() as u64).sum());

    // items are visited round-robin over the plans so that an early
    // deadline still leaves every entry point exercised
    let max_items = plans.iter().map(|p| p.corpus.len()).max().unwrap_or(0);
    'outer: for item in 0..max_items {
        for (pi, p) in plans.iter().enumerate() {
            if item >= p.corpus.len() {
                continue;
            }
            if (item, pi) < (resume.1, resume.0) {
                continue;
            }
            let orig = &p.corpus[item];
            let per_item = (p.budget / p.corpus.len().max(1)).max(40);
            let mut h = Fnv::new();
            h.u64(args.shard_seed()).u64(pi as u64).u64(item as u64);
            let mut rng = Rng::new(h.finish());
            let muts = plan(orig, p.corpus.len().saturating_sub(1), &mut rng, per_item);
            let others: Vec<Arc<Vec<u8>>> = p.corpus.iter().enumerate().filter(|(i, _)| *i != item).map(|(_, c)| c.clone()).collect();
            for (mi, m) in muts.iter().enumerate() {
                let resuming_here = (item, pi) == (resume.1, resume.0);
                if resuming_here && mi < resume.2 {
                    continue;
                }
                if Instant::now() > deadline {
                    stopped = true;
                    break 'outer;
                }
                let input = Arc::new(m.apply(orig, &others));
                let differs = *input != **orig;
                // a commit to look for: one of the original's, or an absent one
                let commit = match p.commits.get(item) {
                    Some(c) if !c.is_empty() && rng.chance(3, 4) => c[rng.usize(c.len())],
                    _ => vkit::sha256(&rng.next().to_le_bytes()),
                };
                for (ep, ei) in p.entries.iter().enumerate() {
                    if resuming_here && mi == resume.2 && ep < resume.3 {
                        continue;
                    }
                    let name = &table[*ei].name;
                    if disabled.iter().any(|d| d == name) {
                        stats.count(&format!("skipped_after_aborts:{name}"), 1);
                        continue;
                    }
                    // (d) attribute a process death to this exact input
                    if let Some(f) = current.as_mut() {
                        // one positioned write; the first line carries the
                        // length of the record so that a stale tail of a
                        // longer, older record is ignored by the reader
                        let body = format!("{} {} {} {}\n{}\n{}\n{}\n{}\n", pi, item, mi, ep, name, m.desc(), hex_trunc(&input, 4096), input.len());
                        let record = format!("{:08}\n{}", body.len(), body);
                        let _ = std::os::unix::fs::FileExt::write_all_at(f, record.as_bytes(), 0);
                    }
                    if worker.tx.send(Job { entry: *ei, input: input.clone(), commit }).is_err() {
                        worker = spawn_worker(ctx.clone());
                        continue;
                    }
                    let out = match worker.rx.recv_timeout(Duration::from_secs(20)) {
                        Ok(o) => o,
                        Err(_) => {
                            // (c) hang or dead worker thread: inconclusive
                            rep.inconclusive(&format!("C15 {name}: no answer within 20 s for mutation {} of a {}-byte input (input hex {})", m.desc(), input.len(), hex_trunc(&input, 256)));
                            stats.count(&format!("timeouts:{name}"), 1);
                            worker = spawn_worker(ctx.clone());
                            continue;
                        }
                    };
                    judge(rep, &mut stats, name, &input, orig, m, differs, &out);
                    if samples_left > 0 && differs && matches!(m, Mut::U32(..) | Mut::Truncate(_) | Mut::Time(..)) && mi % 97 == 3 {
                        samples_left -= 1;
                        stats.samples.push(json!({"entry": name, "mutation": m.desc(), "input_hex": hex_trunc(&input, 96), "outcome": match &out.result { Ok(n) => format!("value ({n} items)"), Err(CallErr::Err(s)) => format!("error: {}", &s[..s.len().min(120)]), Err(CallErr::NoProgress(n)) => format!("no progress after {n} items") }}));
                    }
                    since_flush += 1;
                    if since_flush >= 1500 {
                        since_flush = 0;
                        stats.flush(&progress, false);
                    }
                }
            }
        }
    }
    if stopped {
        stats.count("stopped_at_deadline", 1);
    }
    stats.flush(&progress, true);
    let _ = std::fs::remove_file(dir.join(LOG_FILE));
    let _ = std::fs::remove_file(dir.join(VAULT_FILE));
    let _ = std::fs::remove_file(dir.join(ZIP_FILE));
    let _ = std::fs::remove_dir_all(dir.join("import"));
}

#[allow(clippy::too_many_arguments)]
fn judge(
    rep: &mut Reporter,
    stats: &mut Stats,
    name: &str,
    input: &[u8],
    orig: &[u8],
    m: &Mut,
    differs: bool,
    out: &Outcome,
) {
    stats.count(&format!("inputs:{name}"), 1);
    stats.count(&format!("mutation:{}", m.class()), 1);
    let mut h = Fnv::new();
    h.str(name).bytes(input);
    // non-trivial = the input is not the valid original
    stats.cases.push((h.finish(), differs));
    match &out.result {
        Ok(_) => stats.count(&format!("outcome:{name}:value"), 1),
        Err(CallErr::Err(_)) => stats.count(&format!("outcome:{name}:error"), 1),
        Err(CallErr::NoProgress(_)) => stats.count(&format!("outcome:{name}:no_progress"), 1),
    }
    stats.max(&format!("max:peak_alloc:{name}"), out.peak as u64);
    stats.max(&format!("max:largest_alloc:{name}"), out.largest as u64);
    stats.max(&format!("max:micros:{name}"), out.micros);
    stats.count(&format!("total_micros:{name}"), out.micros);
    let replay = |extra: Value| json!({"entry": name, "mutation": m.desc(), "input_hex": hex_trunc(input, 8192), "input_len": input.len(), "original_hex": hex_trunc(orig, 2048), "detail": extra});

    // (a) panics
    if let Some(msg) = &out.unwound {
        let (loc, _) = out.panics.first().cloned().unwrap_or(("unknown".into(), String::new()));
        rep.violation(&format!("C15:panic:{loc}"), &format!("{name} panicked at {loc} on a {}-byte malformed input ({}): {}", input.len(), m.desc(), msg), replay(json!({"panic": msg, "location": loc})));
    } else if let Some((loc, msg)) = out.panics.first() {
        match &out.result {
            Err(CallErr::Err(_)) => {
                // the repository caught the panic itself and answered Err
                stats.count(&format!("panic_caught_by_repo:{name}"), 1);
                stats.count(&format!("panic_caught_by_repo_at:{loc}"), 1);
            }
            _ => {
                rep.violation(
                    &format!("C15:panic_swallowed:{loc}"),
                    &format!("{name}: a task spawned by the call panicked at {loc} ({msg}) and the caller was handed an ordinary value instead of an error ({})", m.desc()),
                    replay(json!({"panic": msg, "location": loc, "result": format!("{:?}", out.result)})),
                );
            }
        }
    }
    // (b) memory out of proportion
    let bound = ALLOC_BASE + 64 * input.len();
    if out.peak > bound {
        rep.violation(
            &format!("C15:alloc_out_of_proportion:{}", entry_group(name)),
            &format!("{name} requested {} bytes at peak (largest single request {}) for a {}-byte input ({}); bound 3*16 MiB + 64*len = {}", out.peak, out.largest, input.len(), m.desc(), bound),
            replay(json!({"peak": out.peak, "largest": out.largest, "bound": bound})),
        );
    }
    // (c) logical non-progress
    if let Err(CallErr::NoProgress(n)) = &out.result {
        rep.violation(&format!("C15:no_progress:{}", entry_group(name)), &format!("{name} produced {n} items from a {}-byte input ({})", input.len(), m.desc()), replay(json!({"items": n})));
    }
}

// ---------------------------------------------------------------------
// parent: supervises children, merges their progress

fn merge_progress(rep: &mut Reporter, path: &Path) -> bool {
    let mut done = false;
    let Ok(text) = std::fs::read_to_string(path) else {
        return false;
    };
    for line in text.lines() {
        let Ok(v) = serde_json::from_str::<Value>(line) else {
            continue;
        };
        if let Some(c) = v["counters"].as_object() {
            for (k, n) in c {
                rep.count(k, n.as_u64().unwrap_or(0));
            }
        }
        if let Some(c) = v["max"].as_object() {
            for (k, n) in c {
                rep.max(k, n.as_u64().unwrap_or(0));
            }
        }
        if let Some(cases) = v["cases"].as_array() {
            for c in cases {
                if let Some(s) = c.as_str() {
                    if s.len() == 17 {
                        if let Ok(hv) = u64::from_str_radix(&s[..16], 16) {
                            rep.case(hv, s.ends_with('+'));
                        }
                    }
                }
            }
        }
        if let Some(samples) = v["samples"].as_array() {
            for s in samples {
                rep.sample(s.clone());
            }
        }
        if v["done"].as_bool() == Some(true) {
            done = true;
        }
    }
    done
}

fn merge_child_out(rep: &mut Reporter, path: &Path) {
    let Ok(text) = std::fs::read_to_string(path) else {
        return;
    };
    let mut counts: BTreeMap<String, u64> = BTreeMap::new();
    let mut first: Vec<(String, String, Value)> = vec![];
    for line in text.lines() {
        let Ok(v) = serde_json::from_str::<Value>(line) else {
            continue;
        };
        match v["t"].as_str() {
            Some("violation") => {
                first.push((v["sig"].as_str().unwrap_or("").to_string(), v["what"].as_str().unwrap_or("").to_string(), v["replay"].clone()));
            }
            Some("inconclusive") => rep.inconclusive(v["why"].as_str().unwrap_or("")),
            Some("summary") => {
                if let Some(c) = v["counters"].as_object() {
                    for (k, n) in c {
                        if let Some(sig) = k.strip_prefix("violation:") {
                            counts.insert(sig.to_string(), n.as_u64().unwrap_or(1));
                        }
                    }
                }
            }
            _ => {}
        }
    }
    for (sig, what, replay) in first {
        // the child's summary (absent if it died) says how often
        let n = counts.get(&sig).copied().unwrap_or(1).max(1);
        for _ in 0..n {
            rep.violation(&sig, &what, replay.clone());
        }
    }
}

/// `current_input.txt`: `<8-digit length>\n<record>`; anything after the
/// record is a stale tail.
fn read_current_input(path: &Path) -> String {
    let raw = std::fs::read(path).unwrap_or_default();
    let text = String::from_utf8_lossy(&raw).to_string();
    let Some((len, rest)) = text.split_once('\n') else {
        return String::new();
    };
    let n: usize = len.trim().parse().unwrap_or(0);
    rest.get(..n.min(rest.len())).unwrap_or("").to_string()
}

/// Re-run one recorded input in this process, unmonitored: a panic shows
/// up as an ordinary Rust panic of this process, an allocation failure as
/// an abort. The file is a violation line of the report (or its `replay`
/// object) with `entry` and an untruncated `input_hex`.
fn replay_main(args: &Args, rep: &mut Reporter, file: &Path) {
    let text = std::fs::read_to_string(file).unwrap_or_default();
    let v: Value = serde_json::from_str(text.lines().next().unwrap_or("")).unwrap_or(Value::Null);
    let r = if v["replay"].is_object() { v["replay"].clone() } else { v };
    let entry = r["entry"].as_str().unwrap_or("").to_string();
    let Ok(input) = hex::decode(r["input_hex"].as_str().unwrap_or("zz")) else {
        rep.inconclusive("C15 replay: input_hex is missing or truncated");
        return;
    };
    let table = targets();
    let Some(t) = table.iter().find(|t| t.name == entry) else {
        rep.inconclusive(&format!("C15 replay: unknown entry {entry}"));
        return;
    };
    let _ = std::fs::create_dir_all(&args.dir);
    if let Some(f) = t.file {
        let _ = std::fs::write(args.dir.join(f), &input);
    }
    let ctx = Arc::new(Ctx { dir: args.dir.clone(), account_id: [0x15u8; 20].into() });
    let rt = tokio::runtime::Builder::new_current_thread().enable_all().build().unwrap();
    let commit = vkit::sha256(b"replay");
    eprintln!("replaying {entry} on {} bytes", input.len());
    vkit::alloc::begin();
    let result = rt.block_on((t.run)(Arc::new(input), ctx, commit));
    let (peak, largest) = vkit::alloc::end();
    eprintln!("result: {result:?}; peak alloc {peak} bytes, largest request {largest} bytes");
    rep.count("replayed", 1);
}

pub fn run(args: &Args, rep: &mut Reporter) {
    if let Some(file) = args.replay.clone() {
        replay_main(args, rep, &file);
        return;
    }
    if args.extra.iter().any(|a| a == "--c15-child") {
        child_main(args, rep);
        return;
    }
    let started = Instant::now();
    let total_s = if args.budget_s > 0 { args.budget_s } else { args.by_tier(70, 540) };
    let exe = match std::env::current_exe() {
        Ok(p) => p,
        Err(err) => {
            rep.inconclusive(&format!("C15: cannot find own executable: {err}"));
            return;
        }
    };
    let _ = std::fs::create_dir_all(&args.dir);
    let mut resume = (0usize, 0usize, 0usize, 0usize);
    let mut aborts: BTreeMap<String, u64> = BTreeMap::new();
    let mut aborts_at: BTreeMap<(usize, usize), u64> = BTreeMap::new();
    let mut disabled: Vec<String> = vec![];
    let mut attempt = 0u64;
    loop {
        attempt += 1;
        let remaining = total_s.saturating_sub(started.elapsed().as_secs());
        if remaining < 2 || attempt > 200 {
            rep.count("stopped_at_deadline", 1);
            break;
        }
        let child_out = args.dir.join(format!("child-{attempt}.jsonl"));
        let progress = args.dir.join("progress.jsonl");
        let stderr_path = args.dir.join("child.stderr");
        let _ = std::fs::remove_file(&child_out);
        let _ = std::fs::remove_file(&progress);
        let _ = std::fs::remove_file(args.dir.join("current_input.txt"));
        let stderr_file = std::fs::File::create(&stderr_path).ok();
        let mut cmd = std::process::Command::new(&exe);
        cmd.arg("c15")
            .args(["--tier", &args.tier])
            .args(["--seed", &args.seed.to_string()])
            .args(["--shard", &format!("{}/{}", args.shard, args.shards)])
            .arg("--out")
            .arg(&child_out)
            .arg("--dir")
            .arg(&args.dir)
            .arg("--c15-child")
            .args(["--resume", &format!("{},{},{},{}", resume.0, resume.1, resume.2, resume.3)])
            .args(["--disable", &disabled.join("|")])
            .args(["--deadline-s", &remaining.to_string()])
            // the panic hook of the child is silent; a backtrace is only
            // printed by the runtime when the child aborts (allocation
            // failure), which names the repository frame at fault
            .env("RUST_BACKTRACE", "1")
            .stdout(std::process::Stdio::null());
        if let Some(f) = stderr_file {
            cmd.stderr(f);
        }
        let mut child = match cmd.spawn() {
            Ok(c) => c,
            Err(err) => {
                rep.inconclusive(&format!("C15: cannot start the worker process: {err}"));
                return;
            }
        };
        // the child stops by itself at the deadline; allow a grace period
        let hard = Instant::now() + Duration::from_secs(remaining + 45);
        let status = loop {
            match child.try_wait() {
                Ok(Some(s)) => break Some(s),
                Ok(None) => {
                    if Instant::now() > hard {
                        let _ = child.kill();
                        let _ = child.wait();
                        break None;
                    }
                    std::thread::sleep(Duration::from_millis(20));
                }
                Err(_) => break None,
            }
        };
        rep.count("worker_processes", 1);
        let done = merge_progress(rep, &progress);
        merge_child_out(rep, &child_out);
        let _ = std::fs::remove_file(&child_out);
        let _ = std::fs::remove_file(&progress);
        if done && status.map(|s| s.success()).unwrap_or(false) {
            break;
        }
        // the child died: attribute it to the input it was working on
        let current = read_current_input(&args.dir.join("current_input.txt"));
        let mut lines = current.lines();
        let pos: Vec<usize> = lines.next().unwrap_or("").split(' ').filter_map(|x| x.parse().ok()).collect();
        let entry = lines.next().unwrap_or("unknown").to_string();
        let mutation = lines.next().unwrap_or("").to_string();
        let input_hex = lines.next().unwrap_or("").to_string();
        let input_len = lines.next().unwrap_or("").to_string();
        let stderr = std::fs::read_to_string(&stderr_path).unwrap_or_default();
        let last = stderr.lines().rev().find(|l| !l.trim().is_empty()).unwrap_or("").to_string();
        let Some(status) = status else {
            rep.inconclusive(&format!("C15: worker process did not finish within its budget; last input: {entry} {mutation}"));
            break;
        };
        if pos.len() != 4 {
            rep.inconclusive(&format!("C15: worker process ended ({status}) before handling any input: {last}"));
            break;
        }
        let oom = stderr.lines().find(|l| l.contains("memory allocation of")).map(|l| l.trim().to_string());
        let frame = stderr.lines().map(|l| l.trim()).find(|l| l.contains(": sos_") || l.contains(" sos_")).map(|l| l.to_string()).unwrap_or_default();
        let last = match &oom {
            Some(l) => format!("{l}; innermost repository frame: {frame}"),
            None => last,
        };
        let how = if oom.is_some() {
            "alloc_failure".to_string()
        } else {
            #[cfg(unix)]
            {
                use std::os::unix::process::ExitStatusExt;
                match status.signal() {
                    Some(s) => format!("signal{s}"),
                    None => format!("exit{}", status.code().unwrap_or(-1)),
                }
            }
            #[cfg(not(unix))]
            {
                format!("exit{}", status.code().unwrap_or(-1))
            }
        };
        rep.count(&format!("inputs:{entry}"), 1);
        rep.violation(
            &format!("C15:abort:{how}:{}", entry_group(&entry)),
            &format!("the process running {entry} was killed ({status}; last words: {last:?}) while handling a {input_len}-byte malformed input ({mutation})"),
            json!({"entry": entry, "mutation": mutation, "input_hex": input_hex, "input_len": input_len, "status": status.to_string(), "stderr": last}),
        );
        let n = aborts.entry(entry.clone()).or_insert(0);
        *n += 1;
        if *n >= 24 && !disabled.contains(&entry) {
            // safety net: stop feeding this entry point so that the
            // remaining entry points get their share of the budget
            disabled.push(entry.clone());
            rep.count(&format!("entry_disabled_after_aborts:{entry}"), 1);
        }
        let k = aborts_at.entry((pos[0], pos[1])).or_insert(0);
        *k += 1;
        if *k >= 2 {
            // the same corpus item killed the process twice: its
            // neighbouring mutations would do the same; go on with the
            // next plan (each restart costs a process start)
            rep.count(&format!("item_abandoned_after_aborts:{entry}"), 1);
            resume = (pos[0] + 1, pos[1], 0, 0);
        } else {
            resume = (pos[0], pos[1], pos[2], pos[3] + 1);
        }
    }
    let _ = std::fs::remove_file(args.dir.join("child.stderr"));
    rep.set_extra("entry_points", json!(targets().iter().map(|t| t.name.clone()).collect::<Vec<_>>()));
    rep.set_extra("bound", json!({"alloc": "peak > 3*16 MiB + 64*len", "per_input_timeout_s": 20, "budget_s": total_s}));
    rep.set_extra("skipped_entry_points", json!(["sos_server::BearerToken::new (sos-server is not a dependency of vcore; its payload decoder is covered as bearer:bs58+decode<BinaryEd25519Signature>)", "live HTTP server (vnet)"]));
}


/// Root-cause oriented grouping of entry points for signatures: the four
/// kinds of event log share their reader, so `account_log:rewind` and
/// `folder_log:rewind` are one group.
fn entry_group(name: &str) -> String {
    for k in ["folder_log:", "account_log:", "device_log:", "files_log:", "file_log:"] {
        if let Some(rest) = name.strip_prefix(k) {
            return format!("event_log:{rest}");
        }
    }
    name.to_string()
}
