//! vnet: sync-level monitors (C04 C05 C09 C11 C17, sync parts of C02 C03 C07 C08 C20).
mod c03;
mod c04;
mod c07patch;
mod c08scan;
mod c09;
mod c11;
mod c17;
mod c19;
mod http;
mod loopback;
mod sched;
mod world;

#[global_allocator]
static ALLOC: vkit::alloc::Counting = vkit::alloc::Counting;

fn main() {
    let args = vkit::Args::parse();
    let prop = args.check[..3.min(args.check.len())].to_uppercase();
    let mut rep = vkit::Reporter::new(&prop, args.out.clone());
    let rt = tokio::runtime::Builder::new_multi_thread().worker_threads(2).enable_all().build().unwrap();
    match args.check.as_str() {
        "c03" => rt.block_on(c03::run(&args, &mut rep)),
        "c04" => rt.block_on(c04::run(&args, &mut rep, "C04")),
        "c05" => rt.block_on(c04::run(&args, &mut rep, "C05")),
        "c02sync" => rt.block_on(c04::run(&args, &mut rep, "C02")),
        "c20sync" => rt.block_on(c04::run(&args, &mut rep, "C20")),
        "c07patch" => rt.block_on(c07patch::run(&args, &mut rep)),
        "c08scan" => rt.block_on(c08scan::run(&args, &mut rep)),
        "c09" => rt.block_on(c09::run(&args, &mut rep)),
        "c11" => rt.block_on(c11::run(&args, &mut rep)),
        "c17" => rt.block_on(c17::run(&args, &mut rep)),
        "c19" => rt.block_on(c19::run(&args, &mut rep)),
        "c15http" => rt.block_on(c11::run_c15_http(&args, &mut rep)),
        other => {
            eprintln!("vnet: unknown check {}", other);
            std::process::exit(2);
        }
    }
    rep.finish();
}
