//! Shared pieces of the runtime-monitoring harness: PRNG, worker
//! argument parsing, the JSON-lines reporter every worker speaks to
//! `bin/check`, and small helpers.
pub mod alloc;
pub mod args;
pub mod report;
pub mod rng;

pub use args::Args;
pub use report::Reporter;
pub use rng::Rng;

use sha2::{Digest, Sha256};

/// SHA-256 of some bytes.
pub fn sha256(data: &[u8]) -> [u8; 32] {
    Sha256::digest(data).into()
}

/// 64-bit FNV-1a, used for cheap content hashes of cases.
pub fn fnv64(data: &[u8]) -> u64 {
    let mut h: u64 = 0xcbf29ce484222325;
    for b in data {
        h ^= *b as u64;
        h = h.wrapping_mul(0x100000001b3);
    }
    h
}

/// Incremental FNV hasher for building case hashes.
#[derive(Clone, Copy)]
pub struct Fnv(pub u64);
impl Default for Fnv {
    fn default() -> Self {
        Fnv(0xcbf29ce484222325)
    }
}
impl Fnv {
    pub fn new() -> Self {
        Self::default()
    }
    pub fn bytes(&mut self, data: &[u8]) -> &mut Self {
        for b in data {
            self.0 ^= *b as u64;
            self.0 = self.0.wrapping_mul(0x100000001b3);
        }
        self
    }
    pub fn u64(&mut self, v: u64) -> &mut Self {
        self.bytes(&v.to_le_bytes())
    }
    pub fn str(&mut self, s: &str) -> &mut Self {
        self.bytes(s.as_bytes()).bytes(&[0xff])
    }
    pub fn finish(&self) -> u64 {
        self.0
    }
}
