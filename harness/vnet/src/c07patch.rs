//! C07 (storage level) — a rewind-and-patch request that is refused leaves
//! the server's log exactly as it was; it is accepted iff the proof it
//! carries is the head of the log it rewinds to.
//!
//! The request goes through the loopback client (wire encoding both ways)
//! into the real `server_helpers::event_patch` on a real fs / db server
//! account. Before every case the server's log (identity, account or a
//! folder log) is set to base + a suffix over a three-event alphabet
//! (repeats allowed). Enumerated per log state: every rewind target (none,
//! every depth, an absent hash) x proof kinds (head of the rewound prefix,
//! stale current head, head of a shorter prefix, of a diverged log, forged)
//! x patch lengths 0..2.
use crate::c08scan::{all_seqs, head, set_log, Which, ALPHABET};
use crate::sched::Scheduler;
use crate::world::*;
use serde_json::json;
use sos_core::commit::{CommitHash, CommitProof, CommitTree};
use sos_core::events::patch::CheckedPatch;
use sos_core::events::{AccountEvent, EventRecord, WriteEvent};
use sos_core::{UtcDateTime, VaultId};
use sos_protocol::{PatchRequest, SyncClient};
use sos_sync::StorageEventLogs;
use std::sync::Arc;
use vkit::{Args, Fnv, Reporter, Rng};
use vmodel::logs::{all_logs, LogId};
use vmodel::setup::{self, Backend, Config};

fn tree_of(leaves: &[[u8; 32]]) -> CommitTree {
    let mut t = CommitTree::new();
    let mut l = leaves.to_vec();
    t.append(&mut l);
    t.commit();
    t
}

const PROOFS: [&str; 6] = ["prefix_head", "current_head", "shorter_prefix", "diverged_same_length", "forged_root", "longer_log"];

pub async fn run(args: &Args, rep: &mut Reporter) {
    let max_len = args.by_tier(3usize, 4usize);
    let mut rng = Rng::new(args.shard_seed() ^ 0xC07B);
    let backend = if args.shard % 2 == 0 { Backend::Fs } else { Backend::Db };
    let server_db = (args.shard / 2) % 2 == 1;
    let config = Config { backend, cipher: Default::default(), kdf: Default::default() };
    let pristine = match setup::create_pristine(&args.dir.join("pristine"), &config, &mut rng).await {
        Ok(p) => p,
        Err(e) => {
            rep.inconclusive(&format!("cannot create pristine account: {e}"));
            return;
        }
    };
    let sched = Arc::new(Scheduler::free());
    let w = match World::from_pristine(&args.dir.join("w"), &pristine, 1, server_db, sched.clone()).await {
        Ok(w) => w,
        Err(e) => {
            rep.inconclusive(&format!("cannot build world: {e}"));
            return;
        }
    };
    let folder = {
        let a = w.devices[0].account.lock().await;
        let mut ids: Vec<VaultId> = match a.folder_details().await {
            Ok(f) => f.iter().map(|s| *s.id()).collect(),
            Err(e) => {
                rep.inconclusive(&format!("folder list: {e}"));
                return;
            }
        };
        ids.sort();
        ids[0]
    };
    let sname = if server_db { "dbserver" } else { "fsserver" };
    rep.count(&format!("server:{sname}"), 1);
    let srv = w.server.account(&w.account_id).await.expect("server account");
    let whichs = [Which::Folder(folder), Which::Account, Which::Identity, Which::Device];
    let mut bases = vec![];
    for which in whichs {
        let s = srv.read().await;
        match head(&*s, which).await {
            Ok(h) => bases.push((which, h)),
            Err(e) => {
                rep.inconclusive(&format!("server {} log: {e}", which.name()));
                return;
            }
        }
    }
    let seqs = all_seqs(max_len);
    let mut k = 0usize;
    let mut fresh = 0u64;
    let mut sampled = 0;
    'outer: for (wi, which) in whichs.iter().enumerate() {
        let base = bases[wi].1;
        let log_id = match which {
            Which::Identity => LogId::Identity,
            Which::Account => LogId::Account,
            Which::Device => LogId::Device,
            Which::Folder(id) => LogId::Folder(*id),
        };
        for suffix in &seqs {
            // rewind targets: None, every index, absent
            let n_targets = {
                let s = srv.read().await;
                match set_log(&*s, *which, &base, suffix).await {
                    Ok(l) => l.len() + 2,
                    Err(e) => {
                        rep.inconclusive(&format!("cannot prepare log: {e}"));
                        break 'outer;
                    }
                }
            };
            for target in 0..n_targets {
                // never rewind below the head of the base (the case set-up rewinds to it)
                if target > 0 && target < n_targets - 1 - suffix.len() {
                    continue;
                }
                for (pi, pkind) in PROOFS.iter().enumerate() {
                    for plen in 0..3usize {
                        k += 1;
                        let mix = (k as u64).wrapping_mul(0x9E37_79B9_7F4A_7C15) >> 20;
                        if (mix % args.shards as u64) as usize != args.shard {
                            continue;
                        }
                        // the other log types get a third of the cases
                        if wi > 0 && (mix / args.shards as u64) % 3 != 0 {
                            continue;
                        }
                        // ---- prepare the server log -------------------------------------------------
                        let leaves = {
                            let s = srv.read().await;
                            match set_log(&*s, *which, &base, suffix).await {
                                Ok(l) => l,
                                Err(e) => {
                                    rep.inconclusive(&format!("cannot prepare log: {e}"));
                                    break 'outer;
                                }
                            }
                        };
                        let n = leaves.len();
                        let before = {
                            let s = srv.read().await;
                            all_logs(&*s).await.unwrap_or_default()
                        };
                        // rewind target
                        let (commit, keep): (Option<CommitHash>, Option<usize>) = if target == 0 {
                            (None, Some(n))
                        } else if target <= n {
                            // the log rewinds to the LAST occurrence of the hash
                            let h = leaves[target - 1];
                            let last = leaves.iter().rposition(|l| *l == h).unwrap();
                            (Some(CommitHash(h)), Some(last + 1))
                        } else {
                            (Some(CommitHash(vkit::sha256(&rng.bytes(8)))), None)
                        };
                        let keep_len = keep.unwrap_or(n);
                        // proof
                        let proof: CommitProof = match *pkind {
                            "prefix_head" => tree_of(&leaves[..keep_len]).head().unwrap(),
                            "current_head" => tree_of(&leaves).head().unwrap(),
                            "shorter_prefix" => tree_of(&leaves[..keep_len.saturating_sub(1).max(1)]).head().unwrap(),
                            "diverged_same_length" => {
                                let mut l = leaves[..keep_len].to_vec();
                                let at = rng.usize(l.len());
                                l[at] = vkit::sha256(&rng.bytes(8));
                                tree_of(&l).head().unwrap()
                            }
                            "forged_root" => {
                                let mut p = tree_of(&leaves[..keep_len]).head().unwrap();
                                p.root = CommitHash(vkit::sha256(&rng.bytes(8)));
                                p
                            }
                            _ => {
                                let mut l = leaves[..keep_len].to_vec();
                                l.push(vkit::sha256(&rng.bytes(8)));
                                tree_of(&l).head().unwrap()
                            }
                        };
                        let want_root = tree_of(&leaves[..keep_len]).root().unwrap();
                        let base_ok = keep.is_some() && proof.root.0 == want_root.0 && proof.length == keep_len;
                        // patch: optionally re-supplies the records the rewind discards (what a merging
                        // client sends), then fresh events
                        let resupply = (mix >> 9) % 2 == 0;
                        let mut patch = vec![];
                        if resupply && keep.is_some() {
                            let base_len = n - suffix.len();
                            for x in &suffix[keep_len - base_len..] {
                                let name = ALPHABET[*x as usize].to_string();
                                let rec = match which {
                                    Which::Account => EventRecord::encode_event(&AccountEvent::RenameAccount(name)).await,
                                    Which::Device => EventRecord::encode_event(&crate::c08scan::device_event(name)).await,
                                    _ => EventRecord::encode_event(&WriteEvent::SetVaultName(name)).await,
                                };
                                patch.push(rec.expect("encode"));
                            }
                        }
                        for j in 0..plen {
                            fresh += 1;
                            // mostly fresh events, sometimes a letter of the alphabet (equal hash to existing events)
                            let name = if (k + j) % 5 == 0 { ALPHABET[(k + j) % 3].to_string() } else { format!("patch-{}-{}", args.shard, fresh) };
                            let rec = match which {
                                Which::Account => EventRecord::encode_event(&AccountEvent::RenameAccount(name)).await,
                                // fresh device events: a key derived from the unique name
                                Which::Device => {
                                    let pk: sos_core::device::DevicePublicKey = vkit::sha256(name.as_bytes()).into();
                                    let ev = if name.starts_with("patch-") { sos_core::events::DeviceEvent::Trust(sos_core::device::TrustedDevice::new(pk, None, None)) } else { crate::c08scan::device_event(name) };
                                    EventRecord::encode_event(&ev).await
                                }
                                _ => EventRecord::encode_event(&WriteEvent::SetVaultName(name)).await,
                            };
                            let mut rec = rec.expect("encode");
                            rec.set_time(UtcDateTime::from(time::OffsetDateTime::from_unix_timestamp_nanos(1_950_000_000i128 * 1_000_000_000 + fresh as i128).unwrap()));
                            patch.push(rec);
                        }
                        let patch_commits: Vec<[u8; 32]> = patch.iter().map(|r| r.commit().0).collect();
                        // a rewind may only discard what the patch brings back (the sender merged against
                        // those records); anything else was appended by another client since
                        let discarded_resupplied = leaves[keep_len..].iter().all(|c| patch_commits.contains(c));
                        let expect_accept = base_ok && discarded_resupplied;
                        rep.count(if keep_len < n && discarded_resupplied { "rewind_resupplies_discarded" } else if keep_len < n { "rewind_would_drop_records" } else { "no_records_discarded" }, 1);
                        let req = PatchRequest { log_type: which.log_type(), commit, proof, patch };
                        sched.reset_device(0);
                        let client = w.devices[0].bridge.client.clone();
                        let res = tokio::spawn(async move { client.patch(req).await }).await;
                        let after = {
                            let s = srv.read().await;
                            all_logs(&*s).await.unwrap_or_default()
                        };
                        let tree_after: Vec<[u8; 32]> = {
                            let s = srv.read().await;
                            set_log_leaves(&*s, *which).await
                        };
                        let tname = if target == 0 { "none" } else if target > n { "absent" } else if keep_len == n { "head" } else { "inside" };
                        let mut h = Fnv::new();
                        h.str(which.name()).bytes(suffix).u64(target as u64).u64(pi as u64).u64(plen as u64).u64(resupply as u64).str(sname);
                        rep.case(h.finish(), true);
                        rep.count(&format!("log:{}", which.name()), 1);
                        rep.count(&format!("target:{tname}"), 1);
                        rep.count(&format!("proof:{pkind}"), 1);
                        let ctx = json!({"job": "c07patch", "server": sname, "log": which.name(), "server_suffix": suffix, "base_len": n - suffix.len(), "rewind_target_index": if target == 0 || target > n { None } else { Some(target - 1) }, "rewind_target": tname, "proof": pkind, "patch_len": plen, "resupply": resupply});
                        let sig = format!("C07:patch:{sname}:{}", which.name());
                        let a_target: Vec<[u8; 32]> = after.get(&log_id).map(|v| v.iter().map(|r| r.commit).collect()).unwrap_or_default();
                        let b_target = before.get(&log_id).cloned().unwrap_or_default();
                        // other logs never change
                        for (id, recs) in &before {
                            if *id != log_id && after.get(id) != Some(recs) {
                                // an account rename is not a log change; folder logs must stay
                                rep.violation(&format!("{sig}:other_log_changed"), &format!("a patch request for the {} log changed the server's {id:?} log", which.name()), ctx.clone());
                            }
                        }
                        let outcome = match &res {
                            Err(je) => format!("panic:{je}"),
                            Ok(Err(e)) => format!("error:{}", e.to_string().chars().take(80).collect::<String>()),
                            Ok(Ok(r)) => match &r.checked_patch {
                                CheckedPatch::Success(_) => "success".to_string(),
                                CheckedPatch::Conflict { .. } => "conflict".to_string(),
                            },
                        };
                        rep.count(&format!("outcome:{}", outcome.split(':').next().unwrap()), 1);
                        if outcome.starts_with("panic") {
                            rep.violation(&format!("{sig}:panic"), &format!("event_patch panicked: {outcome}"), ctx.clone());
                            continue;
                        }
                        if outcome == "success" {
                            let mut want: Vec<[u8; 32]> = leaves[..keep_len].to_vec();
                            want.extend(patch_commits.iter().copied());
                            if !expect_accept {
                                let why = if base_ok { "drops_records_not_resupplied".to_string() } else { pkind.to_string() };
                                rep.violation(&format!("{sig}:accepted_on_wrong_base:{why}"), &format!("a patch was accepted although {}", if base_ok { "the rewind discards records that the patch does not bring back (events another client appended after the sender looked)".to_string() } else { format!("its proof ({pkind}) is not the head of the log it rewinds to") }), ctx.clone());
                            } else if a_target != want {
                                rep.violation(&format!("{sig}:accepted_but_log_wrong"), "after an accepted patch the log is not the rewound prefix followed by the patch", ctx.clone());
                            } else {
                                rep.count("accepted_and_log_is_prefix_plus_patch", 1);
                                if let Ok(Ok(r)) = &res {
                                    if let CheckedPatch::Success(p) = &r.checked_patch {
                                        let t = tree_of(&want);
                                        if t.root().map(|r| r.0) != Some(p.root.0) || p.length != want.len() {
                                            rep.violation(&format!("{sig}:success_proof_wrong"), "the proof returned by an accepted patch is not the head of the resulting log", ctx.clone());
                                        }
                                    }
                                }
                            }
                        } else {
                            // refused (conflict or error): the log is exactly as before
                            if expect_accept {
                                rep.violation(&format!("{sig}:refused_on_right_base"), &format!("a patch carrying the head proof of the log it rewinds to was refused: {outcome}"), ctx.clone());
                            }
                            rep.count("refusals", 1);
                            if keep.is_some() && keep_len < n {
                                rep.count("refusals_after_rewinding", 1);
                                rep.max("max_records_rolled_back", (n - keep_len) as u64);
                            }
                            let a_full = after.get(&log_id).cloned().unwrap_or_default();
                            if a_full != b_target {
                                let bc: Vec<[u8; 32]> = b_target.iter().map(|r| r.commit).collect();
                                let what = if a_target == bc {
                                    "same_commits_other_times"
                                } else if {
                                    let mut x = a_target.clone();
                                    let mut y = bc.clone();
                                    x.sort();
                                    y.sort();
                                    x == y
                                } {
                                    "reordered"
                                } else if a_target.len() < bc.len() {
                                    "records_lost"
                                } else {
                                    "records_differ"
                                };
                                rep.violation(
                                    &format!("{sig}:refused_but_log_changed:{what}"),
                                    &format!("a refused patch request ({outcome}; rewind target {tname}, proof {pkind}) left the {} log changed ({what}): before {:?} after {:?}", which.name(), bc.iter().map(|c| hex::encode(&c[..3])).collect::<Vec<_>>(), a_target.iter().map(|c| hex::encode(&c[..3])).collect::<Vec<_>>()),
                                    ctx.clone(),
                                );
                            } else if tree_after != a_target {
                                rep.violation(&format!("{sig}:refused_but_tree_differs"), "after a refused patch request the in-memory tree and the stored records disagree", ctx.clone());
                            } else {
                                rep.count("refused_and_log_unchanged", 1);
                            }
                        }
                        if sampled < 2 && outcome != "success" && keep_len < n {
                            sampled += 1;
                            rep.sample(json!({"case": ctx, "outcome": outcome, "expect_accept": expect_accept}));
                        }
                    }
                }
            }
        }
    }
    // ---- server force merges (replace-all) with right and wrong checkpoints ---------------------
    // every log type through the server's ForceMerge; a refused replacement changes nothing,
    // neither in the handle the server keeps nor in a freshly read copy
    {
        use sos_core::events::patch::Diff;
        use sos_core::events::{DeviceEvent, EventLog};
        use sos_sync::{ForceMerge, MergeOutcome};
        let rounds = args.by_tier(6usize, 24usize);
        for r in 0..rounds {
            let which = whichs[(r + args.shard) % whichs.len()];
            let wi = whichs.iter().position(|x| *x == which).unwrap();
            let base = bases[wi].1;
            let suffix: Vec<u8> = (0..(1 + (r % 3))).map(|_| rng.usize(3) as u8).collect();
            let leaves = {
                let s = srv.read().await;
                match set_log(&*s, which, &base, &suffix).await {
                    Ok(l) => l,
                    Err(_) => continue,
                }
            };
            let kind = ["wrong_root", "wrong_length", "right"][(r / whichs.len() + args.shard) % 3];
            // the replacement: the server's own records (so that a success is harmless) plus,
            // for the wrong kinds, a checkpoint that is not their head
            macro_rules! full {
                ($log:expr) => {{
                    let log = $log.map_err(|e| e.to_string());
                    match log {
                        Ok(l) => l.read().await.diff_unchecked().await.map_err(|e| e.to_string()),
                        Err(e) => Err(e),
                    }
                }};
            }
            let before = {
                let s = srv.read().await;
                all_logs(&*s).await.unwrap_or_default()
            };
            let mut good = tree_of(&leaves).head().unwrap();
            match kind {
                "wrong_root" => good.root = CommitHash(vkit::sha256(&rng.bytes(8))),
                "wrong_length" => {
                    let mut l = leaves.clone();
                    l.push(vkit::sha256(&rng.bytes(8)));
                    good = tree_of(&l).head().unwrap();
                }
                _ => {}
            }
            let mut outcome = MergeOutcome::default();
            let res: Result<(), String> = {
                let mut s = srv.write().await;
                match which {
                    Which::Identity => match full!(s.identity_log().await) {
                        Ok(d) => s.force_merge_identity(Diff::<WriteEvent>::new(d.patch, good, None), &mut outcome).await.map_err(|e| e.to_string()),
                        Err(e) => Err(format!("prepare: {e}")),
                    },
                    Which::Account => match full!(s.account_log().await) {
                        Ok(d) => s.force_merge_account(Diff::<AccountEvent>::new(d.patch, good, None), &mut outcome).await.map_err(|e| e.to_string()),
                        Err(e) => Err(format!("prepare: {e}")),
                    },
                    Which::Device => match full!(s.device_log().await) {
                        Ok(d) => s.force_merge_device(Diff::<DeviceEvent>::new(d.patch, good, None), &mut outcome).await.map_err(|e| e.to_string()),
                        Err(e) => Err(format!("prepare: {e}")),
                    },
                    Which::Folder(id) => match full!(s.folder_log(&id).await) {
                        Ok(d) => s.force_merge_folder(&id, Diff::<WriteEvent>::new(d.patch, good, None), &mut outcome).await.map_err(|e| e.to_string()),
                        Err(e) => Err(format!("prepare: {e}")),
                    },
                }
            };
            if let Err(e) = &res {
                if e.starts_with("prepare:") {
                    rep.inconclusive(&format!("cannot prepare a force merge: {e}"));
                    continue;
                }
            }
            let after = {
                let s = srv.read().await;
                all_logs(&*s).await.unwrap_or_default()
            };
            rep.count(&format!("force_merge:{}:{kind}", which.name()), 1);
            rep.count(&format!("force_merge_outcome:{}", if res.is_ok() { "ok" } else { "refused" }), 1);
            let mut h = Fnv::new();
            h.str("force").str(which.name()).str(kind).bytes(&suffix).str(sname);
            rep.case(h.finish(), true);
            let ctx = json!({"job": "c07patch", "phase": "server_force_merge", "server": sname, "log": which.name(), "checkpoint": kind, "server_suffix": suffix});
            let sig = format!("C07:force_merge:{sname}:{}", which.name());
            match (&res, kind) {
                (Ok(()), "right") => {
                    if after != before {
                        rep.violation(&format!("{sig}:accepted_but_log_differs"), "replacing a log by its own records under their head proof changed it", ctx.clone());
                    }
                }
                (Ok(()), _) => rep.violation(&format!("{sig}:accepted_on_wrong_checkpoint:{kind}"), &format!("a replacement whose checkpoint ({kind}) is not the head of its records was accepted"), ctx.clone()),
                (Err(e), "right") => rep.violation(&format!("{sig}:refused_on_right_checkpoint"), &format!("a replacement carrying the head proof of its records was refused: {e}"), ctx.clone()),
                (Err(e), _) => {
                    if after != before {
                        let id = match which {
                            Which::Identity => LogId::Identity,
                            Which::Account => LogId::Account,
                            Which::Device => LogId::Device,
                            Which::Folder(id) => LogId::Folder(id),
                        };
                        let n0 = before.get(&id).map(|v| v.len()).unwrap_or(0);
                        let n1 = after.get(&id).map(|v| v.len()).unwrap_or(0);
                        rep.violation(&format!("{sig}:refused_but_log_changed"), &format!("a refused replacement ({e}) left the {} log changed: {n0} records before, {n1} after", which.name()), ctx.clone());
                    } else {
                        rep.count("force_merge_refused_and_unchanged", 1);
                    }
                }
            }
        }
    }
    for (which, base) in &bases {
        let s = srv.read().await;
        let _ = set_log(&*s, *which, base, &[]).await;
    }
    w.close().await;
    let _ = std::fs::remove_dir_all(&pristine.dir);
}

async fn set_log_leaves<S: StorageEventLogs>(s: &S, which: Which) -> Vec<[u8; 32]> {
    use sos_core::events::EventLog;
    match which {
        Which::Identity => match s.identity_log().await {
            Ok(l) => l.read().await.tree().leaves().unwrap_or_default(),
            Err(_) => vec![],
        },
        Which::Account => match s.account_log().await {
            Ok(l) => l.read().await.tree().leaves().unwrap_or_default(),
            Err(_) => vec![],
        },
        Which::Device => match s.device_log().await {
            Ok(l) => l.read().await.tree().leaves().unwrap_or_default(),
            Err(_) => vec![],
        },
        Which::Folder(id) => match s.folder_log(&id).await {
            Ok(l) => l.read().await.tree().leaves().unwrap_or_default(),
            Err(_) => vec![],
        },
    }
}
