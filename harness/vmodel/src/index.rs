//! Search index digests and comparisons shared by the C20 jobs.
use crate::model::AccountModel;
use serde_json::{json, Value};
use sos_account::Account;
use sos_core::{SecretId, VaultFlags, VaultId};
use sos_search::SearchIndex;
use std::collections::{BTreeMap, BTreeSet};
use vkit::Reporter;

#[derive(Debug, Clone, PartialEq, Default)]
pub struct DocDigest {
    pub key_label: String,
    pub label: String,
    pub tags: Vec<String>,
    pub kind: u8,
    pub favorite: bool,
}

#[derive(Debug, Clone, PartialEq, Default)]
pub struct IndexDigest {
    pub docs: BTreeMap<(VaultId, SecretId), DocDigest>,
    pub entries: usize,
    pub vaults: BTreeMap<VaultId, usize>,
    pub kinds: BTreeMap<u8, usize>,
    pub tags: BTreeMap<String, usize>,
    pub favorites: usize,
}

pub fn digest_of_index(index: &SearchIndex) -> IndexDigest {
    let mut d = IndexDigest::default();
    for (key, doc) in index.documents() {
        d.entries += 1;
        let key_label = serde_json::to_value(key).ok().and_then(|v| v.get(0).and_then(|l| l.as_str().map(|s| s.to_string()))).unwrap_or_default();
        let mut tags: Vec<String> = doc.meta().tags().iter().cloned().collect();
        tags.sort();
        d.docs.insert(
            (*doc.folder_id(), *doc.id()),
            DocDigest { key_label, label: doc.meta().label().to_string(), tags, kind: doc.meta().kind().into(), favorite: doc.meta().favorite() },
        );
    }
    let c = index.statistics().count();
    d.vaults = c.vaults().iter().filter(|(_, n)| **n > 0).map(|(k, n)| (*k, *n)).collect();
    d.kinds = c.kinds().iter().filter(|(_, n)| **n > 0).map(|(k, n)| (*k, *n)).collect();
    d.tags = c.tags().iter().filter(|(_, n)| **n > 0).map(|(k, n)| (k.clone(), *n)).collect();
    d.favorites = c.favorites();
    d
}

fn kind_code(name: &str) -> u8 {
    // same table as sos_vault::secret::kind
    use sos_vault::secret::SecretType;
    let t: SecretType = serde_json::from_value(Value::String(name.to_string())).unwrap_or(SecretType::Note);
    (&t).into()
}

pub fn digest_of_model(model: &AccountModel) -> IndexDigest {
    let mut d = IndexDigest::default();
    let archive = model.view.folders.iter().find(|(_, f)| f.flags & VaultFlags::ARCHIVE.bits() != 0).map(|(id, _)| *id);
    for (fid, f) in &model.view.folders {
        for (sid, (meta, _)) in &f.secrets {
            let label = meta.get("label").and_then(|l| l.as_str()).unwrap_or("").to_string();
            let mut tags: Vec<String> = meta.get("tags").and_then(|t| t.as_array()).map(|a| a.iter().filter_map(|x| x.as_str().map(|s| s.to_string())).collect()).unwrap_or_default();
            tags.sort();
            let kind = kind_code(meta.get("kind").and_then(|k| k.as_str()).unwrap_or("note"));
            let favorite = meta.get("favorite").and_then(|b| b.as_bool()).unwrap_or(false);
            d.entries += 1;
            *d.vaults.entry(*fid).or_insert(0) += 1;
            if Some(*fid) != archive {
                *d.kinds.entry(kind).or_insert(0) += 1;
            }
            for t in &tags {
                *d.tags.entry(t.clone()).or_insert(0) += 1;
            }
            if favorite {
                d.favorites += 1;
            }
            d.docs.insert((*fid, *sid), DocDigest { key_label: label.to_lowercase(), label, tags, kind, favorite });
        }
    }
    d
}

/// Differences `expect` vs `got` as (class, detail).
pub fn diff_digest(expect: &IndexDigest, got: &IndexDigest) -> Vec<(&'static str, String)> {
    let mut out = vec![];
    if got.entries != got.docs.len() {
        out.push(("duplicate_documents", format!("{} index entries for {} distinct (folder, secret) pairs", got.entries, got.docs.len())));
    }
    for (k, e) in &expect.docs {
        match got.docs.get(k) {
            None => out.push(("document_missing", format!("no document for live secret {} in folder {}", k.1, k.0))),
            Some(g) => {
                if g.label != e.label {
                    out.push(("document_stale_label", format!("secret {}: label {:?} expected {:?}", k.1, trunc(&g.label), trunc(&e.label))));
                }
                if g.key_label != e.key_label {
                    out.push(("document_stale_key", format!("secret {}: listing key label {:?} expected {:?}", k.1, trunc(&g.key_label), trunc(&e.key_label))));
                }
                if g.tags != e.tags {
                    out.push(("document_stale_tags", format!("secret {}: tags {:?} expected {:?}", k.1, g.tags, e.tags)));
                }
                if g.kind != e.kind {
                    out.push(("document_wrong_kind", format!("secret {}: kind {} expected {}", k.1, g.kind, e.kind)));
                }
                if g.favorite != e.favorite {
                    out.push(("document_stale_favorite", format!("secret {}: favourite {} expected {}", k.1, g.favorite, e.favorite)));
                }
            }
        }
    }
    for k in got.docs.keys() {
        if !expect.docs.contains_key(k) {
            out.push(("document_unexpected", format!("document for secret {} in folder {} which is not live", k.1, k.0)));
        }
    }
    if got.vaults != expect.vaults {
        out.push(("counter_folders", format!("per-folder counters {:?} expected {:?}", got.vaults, expect.vaults)));
    }
    if got.kinds != expect.kinds {
        out.push(("counter_kinds", format!("per-kind counters {:?} expected {:?}", got.kinds, expect.kinds)));
    }
    if got.tags != expect.tags {
        let a: BTreeSet<_> = got.tags.iter().collect();
        let b: BTreeSet<_> = expect.tags.iter().collect();
        out.push(("counter_tags", format!("tag counters differ: only in index {:?}; only in recount {:?}", a.difference(&b).take(4).collect::<Vec<_>>(), b.difference(&a).take(4).collect::<Vec<_>>())));
    }
    if got.favorites != expect.favorites {
        out.push(("counter_favorites", format!("favourites counter {} expected {}", got.favorites, expect.favorites)));
    }
    out
}

fn trunc(s: &str) -> String {
    s.chars().take(60).collect()
}

fn marker_in(s: &str) -> Option<String> {
    let i = s.find("MK")?;
    let t: String = s[i..].chars().take(24).collect();
    if t.len() == 24 && t.chars().all(|c| c.is_ascii_alphanumeric()) {
        Some(t)
    } else {
        None
    }
}

/// Build an index from scratch over the account's unlocked folders.
pub async fn rebuild(account: &sos_account::LocalAccount, folders: &[VaultId], archive: Option<VaultId>) -> Result<SearchIndex, String> {
    let mut idx = SearchIndex::new();
    idx.set_archive_id(archive);
    for f in folders {
        let folder = account.folder(f).await.map_err(|e| format!("{e}"))?;
        let ap = folder.access_point();
        let ap = ap.lock().await;
        idx.add_folder(&ap).await.map_err(|e| format!("add_folder {f}: {e}"))?;
    }
    Ok(idx)
}

pub async fn check_index(
    rep: &mut Reporter,
    account: &sos_account::LocalAccount,
    model: &AccountModel,
    stale_tokens: &[String],
    backend: &str,
    opkind: &str,
    ctx: &Value,
) {
    let expect = digest_of_model(model);
    let index = match account.search_index().await {
        Ok(i) => i,
        Err(e) => {
            rep.violation(&format!("C20:{backend}:no_index:after_{opkind}"), &format!("search_index() failed: {e}"), json!({"ctx": ctx}));
            return;
        }
    };
    let folders: Vec<VaultId> = model.view.folders.keys().copied().collect();
    let archive = model.view.folders.iter().find(|(_, f)| f.flags & VaultFlags::ARCHIVE.bits() != 0).map(|(id, _)| *id);
    let live = {
        let r = index.read().await;
        let d = digest_of_index(&r);
        // queries
        let mut asked = 0;
        for ((fid, sid), doc) in expect.docs.iter().take(6) {
            if let Some(tok) = marker_in(&doc.label) {
                let q = tok.to_lowercase();
                let hits = r.query_map(&q, |_| true);
                asked += 1;
                let as_word = doc.label.split(' ').any(|w| w.to_lowercase().starts_with(&q));
                if as_word && !hits.iter().any(|h| h.id() == sid && h.folder_id() == fid) {
                    rep.violation(&format!("C20:{backend}:query_misses_live:after_{opkind}"), &format!("query for the label token of live secret {sid} does not return it"), json!({"ctx": ctx, "token": tok}));
                }
                for h in hits {
                    let hay = format!("{} {} {}", h.meta().label(), h.meta().tags().iter().cloned().collect::<Vec<_>>().join(" "), h.extra().comment().unwrap_or("")).to_lowercase();
                    let web = h.extra().websites().unwrap_or_default().join(" ").to_lowercase();
                    if !hay.contains(&q) && !web.contains(&q) {
                        rep.violation(&format!("C20:{backend}:query_returns_unrelated:after_{opkind}"), &format!("query for {tok} returned secret {} whose indexed fields do not contain it", h.id()), json!({"ctx": ctx, "token": tok}));
                    }
                }
            }
        }
        for tok in stale_tokens.iter().rev().take(6) {
            let q = tok.to_lowercase();
            let hits = r.query_map(&q, |_| true);
            asked += 1;
            if let Some(h) = hits.first() {
                rep.violation(&format!("C20:{backend}:query_returns_stale:after_{opkind}"), &format!("query for the label token of a deleted / relabelled secret returns secret {} (label {:?})", h.id(), trunc(h.meta().label())), json!({"ctx": ctx, "token": tok}));
            }
        }
        rep.count("queries", asked);
        d
    };
    rep.count("index_vs_model", 1);
    for (class, detail) in diff_digest(&expect, &live) {
        rep.violation(&format!("C20:{backend}:index_vs_folders:{class}:after_{opkind}"), &format!("[live index vs folder contents] {detail}"), json!({"ctx": ctx, "difference": detail}));
    }
    match rebuild(account, &folders, archive).await {
        Ok(fresh) => {
            rep.count("index_vs_rebuild", 1);
            let fd = digest_of_index(&fresh);
            for (class, detail) in diff_digest(&fd, &live) {
                rep.violation(&format!("C20:{backend}:index_vs_rebuild:{class}:after_{opkind}"), &format!("[live index vs rebuilt index] {detail}"), json!({"ctx": ctx, "difference": detail}));
            }
        }
        Err(e) => rep.violation(&format!("C20:{backend}:rebuild_failed:after_{opkind}"), &format!("cannot rebuild an index: {e}"), json!({"ctx": ctx})),
    }
}

