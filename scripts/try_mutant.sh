#!/bin/sh
# usage: scripts/try_mutant.sh <seeded-dir> <CHECK-ID> [more check ids...]
# Applies seeded/<dir>/patch.diff to /repo, runs the quick checks, restores /repo.
set -u
# a build directory of its own: the binaries of the unchanged tree stay as they are
export VERIF_TARGET_DIR=/verif/harness/target-mutant
export VERIF_EVIDENCE_DIR=/verif/harness/target-mutant/evidence
D=/verif/seeded/$1; shift
cd /repo || exit 2
if ! git diff --quiet; then echo "repo working tree is dirty"; exit 2; fi
git apply "$D/patch.diff" || { echo "patch does not apply"; exit 2; }
for id in "$@"; do
  echo "=== $id with $(basename $D)"
  (cd /verif && bin/check $id --tier quick 2>&1 | grep -E "VIOLATION|signature:|what:|HELD|INCONCLUSIVE|HARNESS" | cut -c1-400 | head -14; )
done
git -C /repo checkout -- .
echo "=== repo restored: $(git -C /repo status --short | wc -l) dirty files"
