//! Snapshots of an account turned into one comparable shape
//! (`AccountView`), taken from three places:
//!  * `live`    — the signed-in account object through its public API,
//!  * `replay`  — `FolderReducer` over each folder's event log,
//!  * `mirror`  — the persisted vault store (file / sqlite rows) re-read
//!                from storage,
//! all decrypted with the folder keys of the account.
use crate::secgen::{meta_json, secret_json};
use serde_json::{json, Value};
use sos_account::{Account, LocalAccount};
use sos_backend::BackendTarget;
use sos_core::{
    commit::CommitHash,
    crypto::{AccessKey, KeyDerivation, PrivateKey},
    decode,
    events::EventLog,
    AccountId, SecretId, VaultCommit, VaultEntry, VaultId,
};
use sos_login::DelegatedAccess;
use sos_reducers::FolderReducer;
use sos_vault::{SecretAccess, Vault};
use std::collections::BTreeMap;

#[derive(Clone, Debug, Default, PartialEq)]
pub struct FolderView {
    pub name: String,
    pub flags: u64,
    pub description: String,
    pub secrets: BTreeMap<SecretId, (Value, Value)>,
}

#[derive(Clone, Debug, Default, PartialEq)]
pub struct AccountView {
    pub folders: BTreeMap<VaultId, FolderView>,
}

/// One difference between two views, with a shape class for signatures.
#[derive(Clone, Debug)]
pub struct Diff {
    pub class: &'static str,
    pub detail: String,
}

fn short(v: &Value) -> String {
    let s = v.to_string();
    if s.len() > 160 {
        format!("{}…({} bytes)", &s[..160.min(s.len())].chars().take(150).collect::<String>(), s.len())
    } else {
        s
    }
}

/// Which top-level keys differ between two JSON objects.
fn keys_differing(a: &Value, b: &Value) -> Vec<String> {
    let mut out = vec![];
    if let (Value::Object(ma), Value::Object(mb)) = (a, b) {
        for (k, va) in ma {
            if mb.get(k) != Some(va) {
                out.push(k.clone());
            }
        }
        for k in mb.keys() {
            if !ma.contains_key(k) {
                out.push(k.clone());
            }
        }
    }
    out.sort();
    out.dedup();
    out
}

pub fn diff_folder(expect: &FolderView, got: &FolderView, fid: &VaultId, out: &mut Vec<Diff>) {
    if expect.name != got.name {
        out.push(Diff { class: "folder_name", detail: format!("folder {fid}: name expected {:?} got {:?}", expect.name, got.name) });
    }
    if expect.flags != got.flags {
        out.push(Diff { class: "folder_flags", detail: format!("folder {fid}: flags expected {:#x} got {:#x}", expect.flags, got.flags) });
    }
    if expect.description != got.description {
        out.push(Diff { class: "folder_description", detail: format!("folder {fid}: description expected {:?} got {:?}", expect.description, got.description) });
    }
    for (sid, (m, s)) in &expect.secrets {
        match got.secrets.get(sid) {
            None => out.push(Diff { class: "secret_missing", detail: format!("folder {fid}: secret {sid} expected but absent") }),
            Some((gm, gs)) => {
                if gm != m {
                    out.push(Diff { class: "secret_meta_differs", detail: format!("folder {fid}: secret {sid} meta differs in {:?}: expected {} got {}", keys_differing(m, gm), short(m), short(gm)) });
                }
                if gs != s {
                    out.push(Diff { class: "secret_value_differs", detail: format!("folder {fid}: secret {sid} value differs: expected {} got {}", short(s), short(gs)) });
                }
            }
        }
    }
    for sid in got.secrets.keys() {
        if !expect.secrets.contains_key(sid) {
            out.push(Diff { class: "secret_unexpected", detail: format!("folder {fid}: secret {sid} present but not expected") });
        }
    }
}

pub fn diff_views(expect: &AccountView, got: &AccountView) -> Vec<Diff> {
    let mut out = vec![];
    for (fid, f) in &expect.folders {
        match got.folders.get(fid) {
            None => out.push(Diff { class: "folder_missing", detail: format!("folder {fid} ({}) expected but absent", f.name) }),
            Some(g) => diff_folder(f, g, fid, &mut out),
        }
    }
    for (fid, g) in &got.folders {
        if !expect.folders.contains_key(fid) {
            out.push(Diff { class: "folder_unexpected", detail: format!("folder {fid} ({}) present but not expected", g.name) });
        }
    }
    out
}

/// A read problem while snapshotting (kept apart from differences).
#[derive(Clone, Debug)]
pub struct SnapError {
    pub class: &'static str,
    pub detail: String,
}

/// Cache of derived keys: Argon2 at default cost is ~50 ms per folder
/// per unlock, which would dominate three-way comparisons after every
/// step. The derivation itself is the repo's (`Vault::deriver`); only the
/// repetition is avoided. Keyed by (kdf, salt, seed, password).
static KEY_CACHE: std::sync::OnceLock<std::sync::Mutex<std::collections::HashMap<String, std::sync::Arc<PrivateKey>>>> = std::sync::OnceLock::new();

pub fn derive_cached(vault: &Vault, key: &AccessKey) -> Result<std::sync::Arc<PrivateKey>, SnapError> {
    use secrecy::ExposeSecret;
    match key {
        AccessKey::Password(password) => {
            let salt_s = vault.salt().ok_or(SnapError { class: "vault_not_init", detail: "no salt".into() })?.clone();
            let ck = format!("{}|{}|{:?}|{}", vault.kdf(), salt_s, vault.seed().map(|s| hex::encode(s.as_ref())), password.expose_secret());
            let cache = KEY_CACHE.get_or_init(Default::default);
            if let Some(k) = cache.lock().unwrap().get(&ck) {
                return Ok(k.clone());
            }
            let salt = KeyDerivation::parse_salt(&salt_s).map_err(|e| SnapError { class: "bad_salt", detail: format!("{e}") })?;
            let derived = vault.deriver().derive(password, &salt, vault.seed()).map_err(|e| SnapError { class: "derive_failed", detail: format!("{e}") })?;
            let k = std::sync::Arc::new(PrivateKey::Symmetric(derived));
            cache.lock().unwrap().insert(ck, k.clone());
            Ok(k)
        }
        AccessKey::Identity(id) => Ok(std::sync::Arc::new(PrivateKey::Asymmetric(id.clone()))),
    }
}

/// Decrypt every row of a vault with `key` into a FolderView (the repo's
/// `Vault::decrypt` + `decode`, i.e. what `AccessPoint::read_secret` does).
pub async fn view_of_vault(vault: Vault, key: &AccessKey) -> Result<FolderView, SnapError> {
    let name = vault.name().to_string();
    let flags = vault.flags().bits();
    let pk = derive_cached(&vault, key)?;
    let meta_aead = vault.header().meta().ok_or(SnapError { class: "vault_not_init", detail: "no vault meta".into() })?;
    let meta_buf = vault.decrypt(&pk, meta_aead).await.map_err(|e| SnapError { class: "unlock_failed", detail: format!("{e}") })?;
    let meta: sos_vault::VaultMeta = decode(&meta_buf).await.map_err(|e| SnapError { class: "vault_meta_decode_failed", detail: format!("{e}") })?;
    let mut secrets = BTreeMap::new();
    for (id, VaultCommit(_, VaultEntry(meta_aead, secret_aead))) in vault.iter() {
        let mb = vault.decrypt(&pk, meta_aead).await.map_err(|e| SnapError { class: "decrypt_failed", detail: format!("secret {id} meta: {e}") })?;
        let sb = vault.decrypt(&pk, secret_aead).await.map_err(|e| SnapError { class: "decrypt_failed", detail: format!("secret {id} value: {e}") })?;
        let m: sos_vault::secret::SecretMeta = decode(&mb).await.map_err(|e| SnapError { class: "row_decode_failed", detail: format!("secret {id} meta: {e}") })?;
        let sv: sos_vault::secret::Secret = decode(&sb).await.map_err(|e| SnapError { class: "row_decode_failed", detail: format!("secret {id} value: {e}") })?;
        secrets.insert(*id, (meta_json(&m), secret_json(&sv)));
    }
    Ok(FolderView { name, flags, description: meta.description().to_string(), secrets })
}

/// Snapshot through the public account API. Also checks the listing
/// clause: `list_secret_ids` == ids that `read_secret` serves.
pub async fn live(account: &mut LocalAccount) -> Result<(AccountView, Vec<Diff>), SnapError> {
    let mut view = AccountView::default();
    let mut listing = vec![];
    let folders = account.list_folders().await.map_err(|e| SnapError { class: "list_folders_failed", detail: format!("{e}") })?;
    for summary in folders {
        let fid = *summary.id();
        let description = account.folder_description(&fid).await.map_err(|e| SnapError { class: "folder_description_failed", detail: format!("{fid}: {e}") })?;
        let ids = account.list_secret_ids(&fid).await.map_err(|e| SnapError { class: "list_secret_ids_failed", detail: format!("{fid}: {e}") })?;
        let mut secrets = BTreeMap::new();
        let mut seen = std::collections::BTreeSet::new();
        for id in ids {
            if !seen.insert(id) {
                listing.push(Diff { class: "listing_duplicate_id", detail: format!("folder {fid}: id {id} listed twice") });
                continue;
            }
            match account.read_secret(&id, Some(&fid)).await {
                Ok((row, _)) => {
                    if row.id() != &id {
                        listing.push(Diff { class: "read_returns_other_id", detail: format!("folder {fid}: asked {id} got {}", row.id()) });
                    }
                    secrets.insert(id, (meta_json(row.meta()), secret_json(row.secret())));
                }
                Err(e) => listing.push(Diff { class: "listed_but_unreadable", detail: format!("folder {fid}: id {id} is listed but read_secret fails: {e}") }),
            }
        }
        view.folders.insert(fid, FolderView { name: summary.name().to_string(), flags: summary.flags().bits(), description, secrets });
    }
    Ok((view, listing))
}

/// Folder keys of every folder the account lists.
pub async fn folder_keys(account: &LocalAccount) -> Result<BTreeMap<VaultId, AccessKey>, SnapError> {
    let mut out = BTreeMap::new();
    let folders = account.list_folders().await.map_err(|e| SnapError { class: "list_folders_failed", detail: format!("{e}") })?;
    for s in folders {
        match account.find_folder_password(s.id()).await {
            Ok(Some(k)) => {
                out.insert(*s.id(), k);
            }
            Ok(None) => return Err(SnapError { class: "no_folder_password", detail: format!("{}", s.id()) }),
            Err(e) => return Err(SnapError { class: "find_folder_password_failed", detail: format!("{e}") }),
        }
    }
    Ok(out)
}

/// Replay each folder's persisted event log (optionally only up to a commit).
pub async fn replay_folder(account: &LocalAccount, fid: &VaultId, key: &AccessKey, until: Option<CommitHash>) -> Result<FolderView, SnapError> {
    let folder = account.folder(fid).await.map_err(|e| SnapError { class: "folder_lookup_failed", detail: format!("{fid}: {e}") })?;
    let log = folder.event_log();
    let log = log.read().await;
    let reducer = match until {
        Some(c) => FolderReducer::new_until_commit(c),
        None => FolderReducer::new(),
    };
    let vault = reducer
        .reduce(&*log)
        .await
        .map_err(|e| SnapError { class: "replay_reduce_failed", detail: format!("{fid}: {e}") })?
        .build(true)
        .await
        .map_err(|e| SnapError { class: "replay_build_failed", detail: format!("{fid}: {e}") })?;
    view_of_vault(vault, key).await
}

pub async fn replay(account: &LocalAccount, keys: &BTreeMap<VaultId, AccessKey>) -> Result<AccountView, SnapError> {
    let mut view = AccountView::default();
    for (fid, key) in keys {
        view.folders.insert(*fid, replay_folder(account, fid, key, None).await?);
    }
    Ok(view)
}

/// Number of events in a folder's log + its commit hashes in order.
pub async fn log_commits(account: &LocalAccount, fid: &VaultId) -> Result<Vec<CommitHash>, SnapError> {
    let folder = account.folder(fid).await.map_err(|e| SnapError { class: "folder_lookup_failed", detail: format!("{fid}: {e}") })?;
    let log = folder.event_log();
    let log = log.read().await;
    Ok(log.tree().leaves().unwrap_or_default().into_iter().map(CommitHash).collect())
}

/// The persisted vault store re-read from storage: the vault file decoded
/// directly (file system) or the folder + secret rows (database, through
/// `Folder::new`, the code path every open uses).
pub async fn mirror_folder(target: &BackendTarget, account_id: &AccountId, fid: &VaultId, key: &AccessKey) -> Result<FolderView, SnapError> {
    let vault = mirror_vault(target, account_id, fid).await?;
    view_of_vault(vault, key).await
}

/// The persisted vault of a folder, still encrypted.
pub async fn mirror_vault(target: &BackendTarget, account_id: &AccountId, fid: &VaultId) -> Result<Vault, SnapError> {
    let vault: Vault = match target {
        BackendTarget::FileSystem(paths) => {
            let p = paths.with_account_id(account_id).vault_path(fid);
            let buf = std::fs::read(&p).map_err(|e| SnapError { class: "mirror_read_failed", detail: format!("{}: {e}", p.display()) })?;
            decode(&buf).await.map_err(|e| SnapError { class: "mirror_decode_failed", detail: format!("{}: {e}", p.display()) })?
        }
        BackendTarget::Database(..) => {
            let folder = sos_backend::Folder::new(target.clone(), account_id, fid).await.map_err(|e| SnapError { class: "mirror_open_failed", detail: format!("{fid}: {e}") })?;
            let ap = folder.access_point();
            let ap = ap.lock().await;
            ap.vault().clone()
        }
    };
    Ok(vault)
}

/// Every AEAD pack held by a vault: header meta + meta/secret of each row.
pub fn packs_of_vault(vault: &Vault, origin: &str, out: &mut Vec<(String, sos_core::crypto::AeadPack)>) {
    if let Some(m) = vault.header().meta() {
        out.push((format!("{origin}:header_meta"), m.clone()));
    }
    for (id, VaultCommit(_, VaultEntry(m, sv))) in vault.iter() {
        out.push((format!("{origin}:row:{id}:meta"), m.clone()));
        out.push((format!("{origin}:row:{id}:secret"), sv.clone()));
    }
}

/// Every AEAD pack in a folder's storage: all events of its log and its
/// persisted vault.
pub async fn packs_of_folder(account: &LocalAccount, target: &BackendTarget, account_id: &AccountId, fid: &VaultId) -> Result<Vec<(String, sos_core::crypto::AeadPack)>, SnapError> {
    use futures::StreamExt;
    use sos_core::events::WriteEvent;
    let mut out = vec![];
    let folder = account.folder(fid).await.map_err(|e| SnapError { class: "folder_lookup_failed", detail: format!("{fid}: {e}") })?;
    {
        let log = folder.event_log();
        let log = log.read().await;
        let stream = log.event_stream(false).await;
        futures::pin_mut!(stream);
        let mut i = 0usize;
        while let Some(r) = stream.next().await {
            let (_, ev) = r.map_err(|e| SnapError { class: "log_stream_failed", detail: format!("{fid}: {e}") })?;
            match ev {
                WriteEvent::CreateVault(buf) => {
                    let v: Vault = decode(&buf).await.map_err(|e| SnapError { class: "create_vault_decode_failed", detail: format!("{e}") })?;
                    packs_of_vault(&v, &format!("log[{i}]:create_vault"), &mut out);
                }
                WriteEvent::SetVaultMeta(p) => out.push((format!("log[{i}]:set_vault_meta"), p)),
                WriteEvent::CreateSecret(id, VaultCommit(_, VaultEntry(m, sv))) | WriteEvent::UpdateSecret(id, VaultCommit(_, VaultEntry(m, sv))) => {
                    out.push((format!("log[{i}]:{id}:meta"), m));
                    out.push((format!("log[{i}]:{id}:secret"), sv));
                }
                _ => {}
            }
            i += 1;
        }
    }
    let mirror = mirror_vault(target, account_id, fid).await?;
    packs_of_vault(&mirror, "vault", &mut out);
    Ok(out)
}

pub async fn mirror(target: &BackendTarget, account_id: &AccountId, keys: &BTreeMap<VaultId, AccessKey>) -> Result<AccountView, SnapError> {
    let mut view = AccountView::default();
    for (fid, key) in keys {
        view.folders.insert(*fid, mirror_folder(target, account_id, fid, key).await?);
    }
    Ok(view)
}

pub fn view_digest(view: &AccountView) -> Value {
    json!(view
        .folders
        .iter()
        .map(|(id, f)| json!({"folder": id.to_string(), "name": f.name, "flags": f.flags, "description": f.description, "secrets": f.secrets.keys().map(|k| k.to_string()).collect::<Vec<_>>()}))
        .collect::<Vec<_>>())
}
