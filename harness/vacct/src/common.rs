//! Helpers shared by the vacct checks.
use serde_json::{json, Value};
use vkit::Reporter;
use vmodel::snapshot::{Diff, SnapError};

/// Report every difference of a comparison under
/// `<prop>:<backend>:<phase>:<class>[:after_<opkind>]`.
pub fn report_diffs(rep: &mut Reporter, prop: &str, backend: &str, phase: &str, opkind: &str, diffs: &[Diff], ctx: &Value) -> usize {
    for d in diffs {
        let sig = format!("{prop}:{backend}:{phase}:{}:after_{opkind}", d.class);
        rep.violation(&sig, &format!("[{phase}] {}", d.detail), json!({"ctx": ctx, "difference": d.detail, "phase": phase}));
    }
    diffs.len()
}

pub fn report_snap_error(rep: &mut Reporter, prop: &str, backend: &str, phase: &str, opkind: &str, e: &SnapError, ctx: &Value) {
    let sig = format!("{prop}:{backend}:{phase}:{}:after_{opkind}", e.class);
    rep.violation(&sig, &format!("[{phase}] cannot read the account: {} {}", e.class, e.detail), json!({"ctx": ctx, "error": e.detail, "phase": phase}));
}

pub fn tail(log: &[String], n: usize) -> Vec<String> {
    log.iter().rev().take(n).rev().cloned().collect()
}
