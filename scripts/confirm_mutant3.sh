#!/bin/sh
# usage: scripts/confirm_mutant.sh <name>...   (sequential; scratch worktree /tmp/confirm-wt, own target dir)
# For each seeded/<name>: with patch+demo the demo must FAIL and the pinned suite must pass;
# with demo only (patch reverted) the demo must PASS. Writes seeded/<name>/confirm.log and confirm.json.
set -u
WT=/tmp/confirm-wt${SLOT:-}
export CARGO_TARGET_DIR=/tmp/confirm-target${SLOT:-}
export CARGO_NET_OFFLINE=true
unset RUSTFLAGS
if [ ! -d $WT ]; then git -C /repo worktree add --detach $WT HEAD >/dev/null 2>&1 || exit 2; fi
for name in "$@"; do
  D=/verif/seeded/$name
  L=$D/confirm.log
  : > $L
  cd $WT && git checkout -q --detach $(git -C /repo rev-parse HEAD) 2>>$L; git checkout -q -- . ; git clean -fdq tests crates >/dev/null 2>&1
  mkdir -p tests/unit/target
  git apply $D/patch.diff >>$L 2>&1 || { echo "patch does not apply" >>$L; continue; }
  git apply $D/demo.diff >>$L 2>&1 || { echo "demo does not apply" >>$L; continue; }
  DEMO=$(python3 -c "import json;print(json.load(open('$D/meta.json'))['demo_cmd'])" | sed -E 's/CARGO_TARGET_DIR=[^ ]+ //g; s/mkdir -p [^&]+&& //')
  echo "== demo with patch: $DEMO" >>$L
  sh -c "$DEMO" >>$L 2>&1; RC_WITH=$?
  echo "== suite with patch (demo excluded)" >>$L
  timeout 3600 cargo nextest run --workspace --no-fail-fast --test-threads 8 --offline -E 'not test(/seeded_demo/)' > $D/suite.log 2>&1
  python3 - $D/suite.log >>$L <<'P'
import json,re,sys
base=set(json.load(open('/root/.vp/BASELINE.json'))['stable_pass'])
txt=open(sys.argv[1]).read()
passed=set(); failed=set()
for m in re.finditer(r'^\s+(PASS|FAIL|TIMEOUT|SIGABRT|SIGSEGV)\s+\[[^\]]*\]\s+(?:\(\s*\d+/\d+\)\s+)?(\S+)\s+(\S+)', txt, re.M):
    name=m.group(2)+'::'+m.group(3)
    (passed if m.group(1)=='PASS' else failed).add(name)
bf=[b for b in base if b in failed]
print("SUITE passed=%d failed=%d baseline_failed=%d baseline_not_run=%d"%(len(passed),len(failed),len(bf),len([b for b in base if b not in passed and b not in failed])))
for b in sorted(bf): print("BASELINE-FAIL",b)
P
  git apply -R $D/patch.diff >>$L 2>&1
  echo "== demo without patch" >>$L
  sh -c "$DEMO" >>$L 2>&1; RC_WITHOUT=$?
  SUITE=$(grep "^SUITE" $L | tail -1)
  echo "{\"demo_with_patch_exit\": $RC_WITH, \"demo_without_patch_exit\": $RC_WITHOUT, \"suite\": \"$SUITE\"}" > $D/confirm.json
  rm -f $D/suite.log
  git checkout -q -- . ; git clean -fdq tests crates >/dev/null 2>&1
done
