//! C10 — ciphertext is authenticated, key-bound and never reuses a nonce.
//!
//! Everything goes through the repository's public API; no crypto is
//! re-implemented here. Four parts, all executed by every shard with its
//! own keys / plaintexts / passwords:
//!
//!  1. round trip + tamper for AES-GCM-256 and XChaCha20-Poly1305 through
//!     `Cipher::{encrypt,decrypt}_symmetric` and through
//!     `Vault::{encrypt,decrypt}` (vault made by `VaultBuilder`), and for
//!     X25519/age through `Cipher::{encrypt,decrypt}_asymmetric` and a
//!     shared vault. Oracle: `decrypt(encrypt(p)) == p`; every tampered pack
//!     / wrong key must give `Err` — `Ok(anything)` is a violation.
//!  2. folder unlock matrix (`AccessPoint::unlock`, `Vault::verify`): a
//!     folder opens with its own password only; a refused unlock must leave
//!     the access point locked.
//!  3. KDF separation (Argon2id, Balloon): deterministic, and pairwise
//!     distinct keys for input triples that differ in password, salt or seed.
//!  4. nonce freshness: nonces of packs produced under one key are recorded
//!     in a set; a repeat is a violation.
//!
//! Signatures: `C10:<cipher>:<class>:<clause>`, `C10:kdf:<kdf>:<clause>`,
//! `C10:unlock:<clause>`, `C10:<cipher>:nonce_reused`.
use age::x25519::{Identity, Recipient};
use futures::FutureExt;
use secrecy::{ExposeSecret, SecretString};
use serde_json::{json, Value};
use sos_core::crypto::{
    AccessKey, AeadPack, Cipher, DerivedPrivateKey, KeyDerivation, Nonce,
    PrivateKey, Seed,
};
use sos_core::{decode, SecretId};
use sos_vault::secret::{Secret, SecretMeta, SecretRow, SecretType};
use sos_vault::{
    AccessPoint, BuilderCredentials, SecretAccess, Vault, VaultBuilder,
    VaultMeta,
};
use std::collections::{BTreeSet, HashSet};
use std::panic::AssertUnwindSafe;
use std::time::Instant;
use vkit::{Args, Fnv, Reporter, Rng};

const TAG: usize = 16;
/// Ciphertexts up to this many bytes get exhaustive bit flips/truncations.
const EXHAUSTIVE_MAX: usize = 96;
/// Number of sampled bit flips for bigger ciphertexts.
const SAMPLED_FLIPS: usize = 300;

type Ap = AccessPoint<sos_vault::Error>;

struct Cx<'a> {
    rep: &'a mut Reporter,
    rng: Rng,
}

/// A private key with a printable form for replays and case hashes.
struct K {
    key: PrivateKey,
    hex: String,
    tag: u64,
}

impl K {
    fn sym(bytes: Vec<u8>) -> K {
        let hex = hex::encode(&bytes);
        let tag = vkit::fnv64(&bytes);
        K { key: PrivateKey::Symmetric(DerivedPrivateKey::from(bytes)), hex, tag }
    }
    fn asym(id: &Identity) -> K {
        let s = id.to_string().expose_secret().to_string();
        K { key: PrivateKey::Asymmetric(id.clone()), tag: vkit::fnv64(s.as_bytes()), hex: s }
    }
}

/// How a pack is encrypted / decrypted.
#[derive(Clone, Copy)]
enum Via<'a> {
    Direct(Cipher),
    Vault(&'a Vault),
}

impl Via<'_> {
    fn cipher(&self) -> Cipher {
        match self {
            Via::Direct(c) => *c,
            Via::Vault(v) => *v.cipher(),
        }
    }
    fn label(&self) -> &'static str {
        match self {
            Via::Direct(_) => "cipher_api",
            Via::Vault(_) => "vault_api",
        }
    }
}

async fn enc(
    via: Via<'_>,
    key: &PrivateKey,
    pt: &[u8],
    nonce: Option<Nonce>,
    recipients: &[Recipient],
) -> Result<AeadPack, String> {
    match via {
        Via::Direct(Cipher::X25519) => Cipher::X25519
            .encrypt_asymmetric(key, pt, recipients.to_vec())
            .await
            .map_err(|e| e.to_string()),
        Via::Direct(c) => {
            c.encrypt_symmetric(key, pt, nonce).await.map_err(|e| e.to_string())
        }
        Via::Vault(v) => v.encrypt(key, pt).await.map_err(|e| e.to_string()),
    }
}

async fn dec(via: Via<'_>, key: &PrivateKey, pack: &AeadPack) -> Result<Vec<u8>, String> {
    match via {
        Via::Direct(Cipher::X25519) => Cipher::X25519
            .decrypt_asymmetric(key, pack)
            .await
            .map_err(|e| e.to_string()),
        Via::Direct(c) => c.decrypt_symmetric(key, pack).await.map_err(|e| e.to_string()),
        Via::Vault(v) => v.decrypt(key, pack).await.map_err(|e| e.to_string()),
    }
}

fn nonce_of(bytes: &[u8]) -> Nonce {
    if bytes.len() == 12 {
        let mut a = [0u8; 12];
        a.copy_from_slice(bytes);
        Nonce::Nonce12(a)
    } else {
        let mut a = [0u8; 24];
        a.copy_from_slice(&bytes[..24]);
        Nonce::Nonce24(a)
    }
}

fn nonce_kind(n: &Nonce) -> &'static str {
    match n {
        Nonce::Nonce12(_) => "nonce12",
        Nonce::Nonce24(_) => "nonce24",
    }
}

fn nonce_len_for(c: Cipher) -> usize {
    match c {
        Cipher::XChaCha20Poly1305 => 24,
        _ => 12,
    }
}

fn blob(bytes: &[u8]) -> Value {
    if bytes.len() <= 4096 {
        json!(hex::encode(bytes))
    } else {
        json!({"len": bytes.len(), "sha256": hex::encode(vkit::sha256(bytes)), "head": hex::encode(&bytes[..64]), "tail": hex::encode(&bytes[bytes.len()-64..])})
    }
}

/// Plaintext from a recorded recipe so that a replay can rebuild it.
fn plaintext(seed: u64, size: usize) -> (Vec<u8>, &'static str) {
    match seed % 5 {
        0 => (vec![0u8; size], "zeros"),
        1 => (vec![0xffu8; size], "ones"),
        _ => (Rng::new(seed).bytes(size), "random"),
    }
}

/// Where an (untampered) pack came from; goes into every replay.
struct Origin {
    cipher: String,
    via: &'static str,
    key_hex: String,
    pt_seed: u64,
    pt_kind: &'static str,
    size: usize,
    nonce_hex: String,
    nonce_explicit: bool,
    ciphertext: Value,
}

impl Origin {
    fn json(&self) -> Value {
        json!({
            "cipher": self.cipher, "via": self.via, "key": self.key_hex,
            "plaintext": {"recipe": "vkit::Rng::new(seed).bytes(size) unless kind is zeros/ones", "seed": self.pt_seed, "kind": self.pt_kind, "size": self.size},
            "nonce": self.nonce_hex, "nonce_chosen_by_harness": self.nonce_explicit,
            "ciphertext": self.ciphertext,
        })
    }
}

/// The tampered pack (or the wrong key) must be refused.
#[allow(clippy::too_many_arguments)]
async fn must_fail(
    cx: &mut Cx<'_>,
    o: &Origin,
    via: Via<'_>,
    key: &K,
    pack: &AeadPack,
    class: &str,
    inst: u64,
    nontrivial: bool,
) {
    cx.rep.count(&format!("tamper:{class}"), 1);
    let mut h = Fnv::new();
    h.str(&o.cipher).str(via.label()).str(class).u64(o.size as u64).u64(inst).u64(key.tag).bytes(pack.nonce.as_ref());
    cx.rep.case(h.finish(), nontrivial);
    if !nontrivial {
        cx.rep.count("tamper_noop_skipped", 1);
        return;
    }
    if let Ok(bytes) = dec(via, &key.key, pack).await {
        let (pt, _) = plaintext(o.pt_seed, o.size);
        let same = bytes == pt;
        cx.rep.violation(
            &format!("C10:{}:{}:decrypted", o.cipher, class),
            &format!(
                "{} via {}: decrypt of a pack tampered by `{}` (instance {}) of a {}-byte plaintext returned Ok({} bytes, {} the original plaintext) instead of Err",
                o.cipher, via.label(), class, inst, o.size, bytes.len(), if same { "equal to" } else { "different from" }
            ),
            json!({
                "origin": o.json(), "mutation": {"class": class, "instance": inst},
                "decrypt_via": via.label(), "decrypt_cipher": via.cipher().to_string(), "decrypt_key": key.hex,
                "tampered": {"nonce_kind": nonce_kind(&pack.nonce), "nonce": hex::encode(pack.nonce.as_ref()), "ciphertext": blob(&pack.ciphertext)},
                "returned": blob(&bytes),
            }),
        );
    }
}

/// Bit indices to flip in a buffer of `len` bytes.
fn flip_bits(rng: &mut Rng, len: usize, exhaustive: bool, sample: usize, anchors: &[usize]) -> Vec<usize> {
    let bits = len * 8;
    if bits == 0 {
        return vec![];
    }
    if exhaustive || bits <= sample {
        return (0..bits).collect();
    }
    let mut set = BTreeSet::new();
    for a in anchors {
        if *a < len {
            for b in 0..8 {
                set.insert(a * 8 + b);
            }
        }
    }
    while set.len() < sample {
        set.insert(rng.usize(bits));
    }
    set.into_iter().collect()
}

fn trunc_lengths(rng: &mut Rng, len: usize, anchors: &[usize]) -> Vec<usize> {
    if len <= EXHAUSTIVE_MAX {
        return (0..len).collect();
    }
    let mut set = BTreeSet::new();
    for a in [0usize, 1, 15, 16, 17, 31, 32, len / 2, len - 33, len - 32, len - 17, len - 16, len - 15, len - 2, len - 1] {
        if a < len {
            set.insert(a);
        }
    }
    for a in anchors {
        if *a < len {
            set.insert(*a);
        }
    }
    for _ in 0..24 {
        set.insert(rng.usize(len));
    }
    set.into_iter().collect()
}

fn wrong_sym_keys(rng: &mut Rng, key: &[u8]) -> Vec<K> {
    let mut out = vec![];
    let mut a = key.to_vec();
    a[0] ^= 0x01;
    out.push(K::sym(a));
    let mut b = key.to_vec();
    let last = b.len() - 1;
    b[last] ^= 0x80;
    out.push(K::sym(b));
    let mut c = key.to_vec();
    c.reverse();
    out.push(K::sym(c));
    out.push(K::sym(vec![0u8; key.len()]));
    while out.len() < 8 {
        out.push(K::sym(rng.bytes(key.len())));
    }
    out.retain(|k| k.hex != hex::encode(key));
    out
}

/// Part 1 for one symmetric cipher, one path, one plaintext size.
#[allow(clippy::too_many_arguments)]
async fn sym_suite(
    cx: &mut Cx<'_>,
    via: Via<'_>,
    cross: Via<'_>,
    other: Via<'_>,
    key: &K,
    age_key: &K,
    size: usize,
    sample_it: bool,
) {
    let cipher = via.cipher();
    let cname = cipher.to_string();
    let nlen = nonce_len_for(cipher);
    let pt_seed = cx.rng.next();
    let (pt, pt_kind) = plaintext(pt_seed, size);

    // the harness picks the nonce for some direct-API packs (covers the
    // Some(nonce) argument and makes big packs reproducible from a recipe)
    let explicit = match via {
        Via::Direct(_) => size > 4096 || cx.rng.chance(1, 3),
        Via::Vault(_) => false,
    };
    let chosen = if explicit { Some(nonce_of(&cx.rng.bytes(nlen))) } else { None };
    let pack = match enc(via, &key.key, &pt, chosen.clone(), &[]).await {
        Ok(p) => p,
        Err(e) => {
            cx.rep.violation(
                &format!("C10:{cname}:roundtrip:encrypt_error"),
                &format!("{cname} via {}: encrypting a {size}-byte plaintext failed: {e}", via.label()),
                json!({"cipher": cname, "via": via.label(), "key": key.hex, "pt_seed": pt_seed, "pt_kind": pt_kind, "size": size}),
            );
            return;
        }
    };
    let o = Origin {
        cipher: cname.clone(),
        via: via.label(),
        key_hex: key.hex.clone(),
        pt_seed,
        pt_kind,
        size,
        nonce_hex: hex::encode(pack.nonce.as_ref()),
        nonce_explicit: explicit,
        ciphertext: blob(&pack.ciphertext),
    };
    cx.rep.max("max_plaintext_bytes", size as u64);

    // ---- round trip -------------------------------------------------
    {
        let mut h = Fnv::new();
        h.str(&cname).str(via.label()).str("roundtrip").u64(size as u64).u64(key.tag).bytes(pack.nonce.as_ref());
        cx.rep.case(h.finish(), true);
        if pack.nonce.as_ref().len() != nlen {
            cx.rep.violation(
                &format!("C10:{cname}:roundtrip:nonce_kind"),
                &format!("{cname} produced a {} pack", nonce_kind(&pack.nonce)),
                o.json(),
            );
        }
        if let Some(n) = &chosen {
            if *n != pack.nonce {
                cx.rep.violation(&format!("C10:{cname}:roundtrip:nonce_not_honoured"), "encrypt_symmetric(.., Some(nonce)) returned a pack with another nonce", o.json());
            }
        }
        if pack.ciphertext.len() != size + TAG {
            cx.rep.count("ciphertext_len_unexpected", 1);
        }
        if size >= 16 && pack.ciphertext.len() >= size && pack.ciphertext[..size] == pt[..] {
            cx.rep.violation(&format!("C10:{cname}:roundtrip:ciphertext_is_plaintext"), "the ciphertext starts with the verbatim plaintext", o.json());
        }
        for (d, label) in [(via, "same_path"), (cross, "cross_path")] {
            match dec(d, &key.key, &pack).await {
                Ok(back) if back == pt => {
                    cx.rep.count("roundtrips", 1);
                    cx.rep.count(&format!("roundtrips:{cname}"), 1);
                }
                Ok(back) => cx.rep.violation(
                    &format!("C10:{cname}:roundtrip:mismatch"),
                    &format!("{cname}: encrypt via {} then decrypt via {} ({label}) of {size} bytes returned {} different bytes", via.label(), d.label(), back.len()),
                    json!({"origin": o.json(), "decrypt_via": d.label(), "returned": blob(&back)}),
                ),
                Err(e) => cx.rep.violation(
                    &format!("C10:{cname}:roundtrip:error"),
                    &format!("{cname}: encrypt via {} then decrypt via {} ({label}) of {size} bytes failed: {e}", via.label(), d.label()),
                    json!({"origin": o.json(), "decrypt_via": d.label()}),
                ),
            }
        }
        // same key, nonce and plaintext => same ciphertext (the KDF
        // fallback comparison and the big-pack replays rely on it)
        if let (Some(n), Via::Direct(_)) = (&chosen, via) {
            if let Ok(p2) = enc(via, &key.key, &pt, Some(n.clone()), &[]).await {
                if p2 != pack {
                    cx.rep.violation(&format!("C10:{cname}:roundtrip:not_deterministic"), "same key, nonce and plaintext gave two different packs", o.json());
                }
            }
        }
    }

    let ct = &pack.ciphertext;
    let len = ct.len();
    let nonce = pack.nonce.as_ref().to_vec();

    // ---- single bit flips of the nonce (always exhaustive) -----------
    for bit in 0..nonce.len() * 8 {
        let mut n = nonce.clone();
        n[bit / 8] ^= 1 << (bit % 8);
        let t = AeadPack { nonce: nonce_of(&n), ciphertext: ct.clone() };
        must_fail(cx, &o, via, key, &t, "bitflip_nonce", bit as u64, true).await;
    }

    // ---- single bit flips of the ciphertext --------------------------
    let exhaustive = len <= EXHAUSTIVE_MAX;
    let anchors = [0usize, len - 1, len.saturating_sub(TAG), len.saturating_sub(TAG + 1)];
    let bits = flip_bits(&mut cx.rng, len, exhaustive, SAMPLED_FLIPS, &anchors);
    if exhaustive {
        cx.rep.count("exhaustive_flip_sets", 1);
    }
    {
        let mut t = pack.clone();
        for bit in &bits {
            t.ciphertext[bit / 8] ^= 1 << (bit % 8);
            must_fail(cx, &o, via, key, &t, "bitflip_ciphertext", *bit as u64, true).await;
            t.ciphertext[bit / 8] ^= 1 << (bit % 8);
        }
    }

    // ---- truncation --------------------------------------------------
    for l in trunc_lengths(&mut cx.rng, len, &[]) {
        let t = AeadPack { nonce: pack.nonce.clone(), ciphertext: ct[..l].to_vec() };
        must_fail(cx, &o, via, key, &t, "truncate", l as u64, true).await;
    }

    // ---- extension ---------------------------------------------------
    for n in 1..=32usize {
        let mut c = ct.clone();
        c.extend_from_slice(&cx.rng.bytes(n));
        let t = AeadPack { nonce: pack.nonce.clone(), ciphertext: c };
        must_fail(cx, &o, via, key, &t, "extend", n as u64, true).await;
    }
    for n in [1usize, 16, 32] {
        let mut c = cx.rng.bytes(n);
        c.extend_from_slice(ct);
        let t = AeadPack { nonce: pack.nonce.clone(), ciphertext: c };
        must_fail(cx, &o, via, key, &t, "prepend", n as u64, true).await;
    }
    {
        // a copy of the tag appended, and the zero-extended body
        let mut c = ct.clone();
        c.extend_from_slice(&ct[len - TAG..]);
        let t = AeadPack { nonce: pack.nonce.clone(), ciphertext: c };
        must_fail(cx, &o, via, key, &t, "extend", 1000, true).await;
    }

    // ---- unencrypted data presented as ciphertext --------------------
    {
        let t = AeadPack { nonce: pack.nonce.clone(), ciphertext: pt.clone() };
        must_fail(cx, &o, via, key, &t, "plaintext_as_ciphertext", 0, t != pack).await;
        let mut c = pt.clone();
        c.extend_from_slice(&[0u8; TAG]);
        let t = AeadPack { nonce: pack.nonce.clone(), ciphertext: c };
        must_fail(cx, &o, via, key, &t, "plaintext_as_ciphertext", 1, t != pack).await;
        let t = AeadPack { nonce: pack.nonce.clone(), ciphertext: vec![0u8; len] };
        must_fail(cx, &o, via, key, &t, "plaintext_as_ciphertext", 2, t != pack).await;
    }

    // ---- nonce size swap (same cipher) --------------------------------
    let resized: Vec<Vec<u8>> = if nonce.len() == 12 {
        let mut a = nonce.clone();
        a.extend_from_slice(&[0u8; 12]);
        let mut b = vec![0u8; 12];
        b.extend_from_slice(&nonce);
        let mut c = nonce.clone();
        c.extend_from_slice(&nonce);
        vec![a, b, c]
    } else {
        vec![nonce[..12].to_vec(), nonce[12..].to_vec()]
    };
    for (i, n) in resized.iter().enumerate() {
        let t = AeadPack { nonce: nonce_of(n), ciphertext: ct.clone() };
        must_fail(cx, &o, via, key, &t, "nonce_size_swap", i as u64, true).await;
    }

    // ---- the other symmetric cipher, same key -------------------------
    must_fail(cx, &o, other, key, &pack, "other_cipher", 0, true).await;
    for (i, n) in resized.iter().enumerate() {
        let t = AeadPack { nonce: nonce_of(n), ciphertext: ct.clone() };
        must_fail(cx, &o, other, key, &t, "other_cipher", 1 + i as u64, true).await;
    }
    // the X25519 cipher constant with a symmetric key / pack
    must_fail(cx, &o, Via::Direct(Cipher::X25519), key, &pack, "other_cipher", 10, true).await;
    // an asymmetric key given to the symmetric cipher
    must_fail(cx, &o, via, age_key, &pack, "wrong_key_kind", 0, true).await;

    // ---- parts swapped between packs under the same key ---------------
    for variant in 0..2u64 {
        // variant 0: another plaintext of the same size; 1: same plaintext
        let pt_b = if variant == 0 && size > 0 { cx.rng.bytes(size) } else { pt.clone() };
        let b = match enc(via, &key.key, &pt_b, None, &[]).await {
            Ok(b) => b,
            Err(_) => continue,
        };
        let t = AeadPack { nonce: pack.nonce.clone(), ciphertext: b.ciphertext.clone() };
        must_fail(cx, &o, via, key, &t, "swap_ciphertext", variant, t != pack && t != b).await;
        let t = AeadPack { nonce: b.nonce.clone(), ciphertext: ct.clone() };
        must_fail(cx, &o, via, key, &t, "swap_nonce", variant, t != pack && t != b).await;
        if b.ciphertext.len() == len {
            let mut c = ct[..len - TAG].to_vec();
            c.extend_from_slice(&b.ciphertext[len - TAG..]);
            let t = AeadPack { nonce: pack.nonce.clone(), ciphertext: c };
            must_fail(cx, &o, via, key, &t, "swap_tag", variant, t != pack && t != b).await;
            let mut c = b.ciphertext[..len - TAG].to_vec();
            c.extend_from_slice(&ct[len - TAG..]);
            let t = AeadPack { nonce: pack.nonce.clone(), ciphertext: c };
            must_fail(cx, &o, via, key, &t, "swap_body", variant, t != pack && t != b).await;
        }
    }

    // ---- wrong key -----------------------------------------------------
    let key_bytes = hex::decode(&key.hex).unwrap_or_default();
    let wrong = wrong_sym_keys(&mut cx.rng, &key_bytes);
    for (i, w) in wrong.iter().enumerate() {
        must_fail(cx, &o, via, w, &pack, "wrong_key", i as u64, true).await;
    }

    if sample_it {
        cx.rep.sample(json!({
            "part": "roundtrip+tamper", "cipher": cname, "via": via.label(), "plaintext_bytes": size,
            "key": key.hex, "nonce": o.nonce_hex, "ciphertext": o.ciphertext,
            "bit_flips_tried": {"nonce": nonce.len() * 8, "ciphertext": bits.len(), "exhaustive": exhaustive},
            "example_tampered": {"class": "bitflip_ciphertext", "bit": bits.last(), "outcome": "Err"},
            "wrong_keys_tried": wrong.len(),
        }));
    }
}

/// End of the age header (index just after the MAC line).
fn age_header_end(ct: &[u8]) -> Option<usize> {
    let pat = b"\n--- ";
    let start = ct.windows(pat.len()).position(|w| w == pat)?;
    let rest = &ct[start + 1..];
    let nl = rest.iter().position(|b| *b == b'\n')?;
    Some(start + 1 + nl + 1)
}

/// Part 1 for X25519/age, one path, one plaintext size.
#[allow(clippy::too_many_arguments)]
async fn age_suite(
    cx: &mut Cx<'_>,
    via: Via<'_>,
    cross: Via<'_>,
    readers: &[&K],
    strangers: &[K],
    sym_key: &K,
    recipients: &[Recipient],
    size: usize,
    exhaustive_header: bool,
    flips: usize,
    sample_it: bool,
) {
    let cname = Cipher::X25519.to_string();
    let pt_seed = cx.rng.next();
    let (pt, pt_kind) = plaintext(pt_seed, size);
    let owner = readers[0];
    let pack = match enc(via, &owner.key, &pt, None, recipients).await {
        Ok(p) => p,
        Err(e) => {
            cx.rep.violation(
                &format!("C10:{cname}:roundtrip:encrypt_error"),
                &format!("{cname} via {}: encrypting a {size}-byte plaintext failed: {e}", via.label()),
                json!({"cipher": cname, "via": via.label(), "pt_seed": pt_seed, "pt_kind": pt_kind, "size": size}),
            );
            return;
        }
    };
    let o = Origin {
        cipher: cname.clone(),
        via: via.label(),
        key_hex: owner.hex.clone(),
        pt_seed,
        pt_kind,
        size,
        nonce_hex: hex::encode(pack.nonce.as_ref()),
        nonce_explicit: false,
        ciphertext: if pack.ciphertext.len() <= 65536 { json!(hex::encode(&pack.ciphertext)) } else { blob(&pack.ciphertext) },
    };
    cx.rep.max("max_plaintext_bytes", size as u64);

    // round trip for every recipient, on both paths
    for (ri, r) in readers.iter().enumerate() {
        let mut h = Fnv::new();
        h.str(&cname).str(via.label()).str("roundtrip").u64(size as u64).u64(r.tag).bytes(&pack.ciphertext[..pack.ciphertext.len().min(256)]);
        cx.rep.case(h.finish(), true);
        for d in [via, cross] {
            match dec(d, &r.key, &pack).await {
                Ok(back) if back == pt => {
                    cx.rep.count("roundtrips", 1);
                    cx.rep.count(&format!("roundtrips:{cname}"), 1);
                }
                Ok(back) => cx.rep.violation(
                    &format!("C10:{cname}:roundtrip:mismatch"),
                    &format!("{cname}: recipient {ri} decrypting {size} bytes (encrypt via {}, decrypt via {}) got {} different bytes", via.label(), d.label(), back.len()),
                    json!({"origin": o.json(), "recipient_index": ri, "identity": r.hex, "returned": blob(&back)}),
                ),
                Err(e) => cx.rep.violation(
                    &format!("C10:{cname}:roundtrip:error"),
                    &format!("{cname}: recipient {ri} decrypting {size} bytes (encrypt via {}, decrypt via {}) failed: {e}", via.label(), d.label()),
                    json!({"origin": o.json(), "recipient_index": ri, "identity": r.hex}),
                ),
            }
        }
    }
    if size >= 16 && pack.ciphertext.windows(size.min(64)).any(|w| w == &pt[..size.min(64)]) && pt_kind == "random" {
        cx.rep.violation(&format!("C10:{cname}:roundtrip:ciphertext_is_plaintext"), "the age payload contains the verbatim plaintext", o.json());
    }

    let ct = &pack.ciphertext;
    let len = ct.len();
    let hdr = age_header_end(ct).unwrap_or(0);
    if hdr == 0 {
        cx.rep.count("age_header_not_found", 1);
    }
    cx.rep.max("age_header_bytes", hdr as u64);

    // bit flips: header (exhaustive when asked) + sampled payload
    let mut bits: BTreeSet<usize> = BTreeSet::new();
    if exhaustive_header {
        bits.extend(0..hdr * 8);
        cx.rep.count("exhaustive_age_header_flip_sets", 1);
    } else {
        for _ in 0..flips / 2 {
            if hdr > 0 {
                bits.insert(cx.rng.usize(hdr * 8));
            }
        }
        // the last base64 symbol of the header MAC carries unused bits
        if hdr >= 2 {
            bits.extend((hdr - 2) * 8..(hdr - 1) * 8);
        }
    }
    let payload_bits = (len - hdr) * 8;
    if payload_bits <= flips {
        bits.extend(hdr * 8..len * 8);
    } else {
        for a in [hdr, hdr + 15, hdr + 16, len - 17, len - 16, len - 1] {
            if a < len {
                bits.extend(a * 8..a * 8 + 8);
            }
        }
        let want = bits.len() + flips / 2;
        while bits.len() < want {
            bits.insert(hdr * 8 + cx.rng.usize(payload_bits));
        }
    }
    {
        let mut t = pack.clone();
        for bit in &bits {
            t.ciphertext[bit / 8] ^= 1 << (bit % 8);
            must_fail(cx, &o, via, owner, &t, "bitflip_ciphertext", *bit as u64, true).await;
            t.ciphertext[bit / 8] ^= 1 << (bit % 8);
        }
    }

    // truncation (sampled, with the structural boundaries)
    let mut cuts: BTreeSet<usize> = BTreeSet::new();
    for a in [0usize, 1, 21, 22, hdr.saturating_sub(1), hdr, hdr + 1, hdr + 15, hdr + 16, hdr + 17, len.saturating_sub(17), len - TAG, len - 2, len - 1] {
        if a < len {
            cuts.insert(a);
        }
    }
    let extra = if len <= 400 { len } else { 24 };
    for i in 0..extra {
        cuts.insert(if len <= 400 { i } else { cx.rng.usize(len) });
    }
    // for multi-chunk payloads also cut exactly at STREAM chunk boundaries
    let chunk = 65536 + TAG;
    let mut at = hdr + 16 + chunk;
    while at < len {
        cuts.insert(at);
        at += chunk;
    }
    for l in cuts {
        let t = AeadPack { nonce: pack.nonce.clone(), ciphertext: ct[..l].to_vec() };
        must_fail(cx, &o, via, owner, &t, "truncate", l as u64, true).await;
    }

    // extension
    for n in 1..=32usize {
        let mut c = ct.clone();
        c.extend_from_slice(&cx.rng.bytes(n));
        let t = AeadPack { nonce: pack.nonce.clone(), ciphertext: c };
        must_fail(cx, &o, via, owner, &t, "extend", n as u64, true).await;
    }

    // header / payload swapped between two packs for the same recipients
    for variant in 0..2u64 {
        let pt_b = if variant == 0 && size > 0 { cx.rng.bytes(size) } else { pt.clone() };
        if let Ok(b) = enc(via, &owner.key, &pt_b, None, recipients).await {
            if b.ciphertext == *ct {
                cx.rep.violation(&format!("C10:{cname}:nonce_reused"), "two age encryptions produced byte-identical ciphertexts (file key and nonce reused)", o.json());
            }
            cx.rep.count("age_ciphertexts_compared", 1);
            if let Some(hb) = age_header_end(&b.ciphertext) {
                let mut c = ct[..hdr].to_vec();
                c.extend_from_slice(&b.ciphertext[hb..]);
                let t = AeadPack { nonce: pack.nonce.clone(), ciphertext: c };
                must_fail(cx, &o, via, owner, &t, "swap_ciphertext", variant, hdr > 0).await;
                let mut c = b.ciphertext[..hb].to_vec();
                c.extend_from_slice(&ct[hdr..]);
                let t = AeadPack { nonce: pack.nonce.clone(), ciphertext: c };
                must_fail(cx, &o, via, owner, &t, "swap_ciphertext", 2 + variant, hdr > 0).await;
            }
        }
    }

    // identities that are not recipients, and a symmetric key
    for (i, s) in strangers.iter().enumerate() {
        must_fail(cx, &o, via, s, &pack, "wrong_key", i as u64, true).await;
    }
    must_fail(cx, &o, via, sym_key, &pack, "wrong_key_kind", 0, true).await;
    must_fail(cx, &o, Via::Direct(Cipher::AesGcm256), owner, &pack, "other_cipher", 0, true).await;
    must_fail(cx, &o, Via::Direct(Cipher::XChaCha20Poly1305), owner, &pack, "other_cipher", 1, true).await;

    // The AeadPack nonce of an age pack is random filler (x25519.rs:31) that
    // decryption never reads: flipping it cannot be detected. Observed and
    // counted, reported as an observation (the age payload carries its own
    // authenticated nonce), not as a violation.
    {
        let mut n = pack.nonce.as_ref().to_vec();
        n[0] ^= 1;
        let t = AeadPack { nonce: nonce_of(&n), ciphertext: ct.clone() };
        match dec(via, &owner.key, &t).await {
            Ok(b) if b == pt => cx.rep.count("observation:age_pack_nonce_not_authenticated", 1),
            Ok(_) => cx.rep.violation(&format!("C10:{cname}:bitflip_nonce:decrypted_other_bytes"), "flipping the filler nonce changed the decrypted bytes", o.json()),
            Err(_) => cx.rep.count("observation:age_pack_nonce_authenticated", 1),
        }
    }

    if sample_it {
        cx.rep.sample(json!({
            "part": "roundtrip+tamper", "cipher": cname, "via": via.label(), "plaintext_bytes": size,
            "age_ciphertext_bytes": len, "age_header_bytes": hdr, "recipients": readers.len(),
            "bit_flips_tried": bits.len(), "header_flips_exhaustive": exhaustive_header,
            "non_recipient_identities_tried": strangers.len(),
        }));
    }
}

/// A symmetric key of the wrong length must not decrypt either; the API
/// may refuse with Err or panic (GenericArray::from_slice) — both are
/// "no data". Only counted.
async fn wrong_length_key_probe(cx: &mut Cx<'_>, cipher: Cipher, key: &K) {
    let pt = b"wrong length key probe".to_vec();
    let pack = match enc(Via::Direct(cipher), &key.key, &pt, None, &[]).await {
        Ok(p) => p,
        Err(_) => return,
    };
    let full = hex::decode(&key.hex).unwrap_or_default();
    let prev = std::panic::take_hook();
    std::panic::set_hook(Box::new(|_| {}));
    let mut outcomes = vec![];
    for l in [0usize, 16, 31, 33] {
        let mut kb = full.clone();
        kb.resize(l, 0);
        let k = K::sym(kb);
        let r = AssertUnwindSafe(dec(Via::Direct(cipher), &k.key, &pack)).catch_unwind().await;
        outcomes.push(match r {
            Err(_) => "panic",
            Ok(Err(_)) => "err",
            Ok(Ok(_)) => "ok",
        });
    }
    std::panic::set_hook(prev);
    let cname = cipher.to_string();
    for (i, oc) in outcomes.iter().enumerate() {
        cx.rep.count(&format!("observation:wrong_length_key:{cname}:{oc}"), 1);
        if *oc == "ok" {
            cx.rep.violation(
                &format!("C10:{cname}:wrong_key_length:decrypted"),
                "a key of another length decrypted the pack",
                json!({"cipher": cname, "key": key.hex, "length_index": i, "nonce": hex::encode(pack.nonce.as_ref()), "ciphertext": hex::encode(&pack.ciphertext)}),
            );
        }
    }
}

async fn derive_vault_key(vault: &Vault, password: &SecretString) -> Result<K, String> {
    let salt = vault.salt().ok_or("vault has no salt")?;
    let salt = KeyDerivation::parse_salt(salt).map_err(|e| e.to_string())?;
    let key = AccessKey::Password(password.clone())
        .into_private(vault.kdf(), &salt, vault.seed())
        .map_err(|e| e.to_string())?;
    match key {
        PrivateKey::Symmetric(d) => Ok(K::sym(d.as_ref().to_vec())),
        _ => Err("not symmetric".into()),
    }
}

fn secret_row(label: &str) -> SecretRow {
    SecretRow::new(
        SecretId::new_v4(),
        SecretMeta::new(label.to_string(), SecretType::Note),
        Secret::Note { text: SecretString::from(format!("note {label}")), user_data: Default::default() },
    )
}

/// Part 4 for one (cipher, key).
async fn harvest_nonces(cx: &mut Cx<'_>, vault: &Vault, key: &K, n_direct: usize, n_vault: usize) {
    let cipher = *vault.cipher();
    let cname = cipher.to_string();
    let mut seen: HashSet<Vec<u8>> = HashSet::with_capacity(n_direct + n_vault);
    let mut degenerate = 0u64;
    for i in 0..n_direct + n_vault {
        let via = if i < n_direct { Via::Direct(cipher) } else { Via::Vault(vault) };
        let pt = cx.rng.bytes(i % 33);
        let pack = match enc(via, &key.key, &pt, None, &[]).await {
            Ok(p) => p,
            Err(e) => {
                cx.rep.violation(&format!("C10:{cname}:roundtrip:encrypt_error"), &format!("encrypt failed while harvesting nonces: {e}"), json!({"cipher": cname, "key": key.hex}));
                return;
            }
        };
        let n = pack.nonce.as_ref().to_vec();
        if n.iter().all(|b| *b == n[0]) {
            degenerate += 1;
        }
        if !seen.insert(n.clone()) {
            cx.rep.violation(
                &format!("C10:{cname}:nonce_reused"),
                &format!("{cname}: the nonce of encryption #{i} under one key was already used by an earlier encryption under the same key ({} nonces seen)", seen.len()),
                json!({"cipher": cname, "via": via.label(), "key": key.hex, "nonce": hex::encode(&n), "encryption_index": i, "nonces_seen": seen.len()}),
            );
        }
    }
    if degenerate > 0 {
        cx.rep.violation(&format!("C10:{cname}:nonce_degenerate"), &format!("{degenerate} generated nonces consist of one repeated byte"), json!({"cipher": cname}));
    }
    cx.rep.count("nonces_harvested", (n_direct + n_vault) as u64);
    cx.rep.count(&format!("nonces_harvested:{cname}"), (n_direct + n_vault) as u64);
    cx.rep.max("nonces_distinct_under_one_key", seen.len() as u64);
    let mut h = Fnv::new();
    h.str("nonce_harvest").str(&cname).u64(key.tag).u64((n_direct + n_vault) as u64);
    cx.rep.case(h.finish(), n_direct + n_vault >= 2);
}

struct Folder {
    vault: Vault,
    password: SecretString,
    cipher: Cipher,
    kdf: KeyDerivation,
    seeded: bool,
}

/// Part 2: unlock matrix.
async fn unlock_part(cx: &mut Cx<'_>, folders: &[Folder], owner: &Identity) {
    let mut matrix = vec![];
    for (i, f) in folders.iter().enumerate() {
        let mut row = vec![];
        for (j, g) in folders.iter().enumerate() {
            let key = AccessKey::Password(g.password.clone());
            let own = i == j;
            let mut ap = Ap::new(f.vault.clone());
            let unlocked = ap.unlock(&key).await;
            let verified = f.vault.verify(&key).await;
            cx.rep.count("unlock_pairs", 1);
            cx.rep.count("verify_pairs", 1);
            let mut h = Fnv::new();
            h.str("unlock").str(&f.cipher.to_string()).str(&f.kdf.to_string()).str(f.password.expose_secret()).str(g.password.expose_secret());
            cx.rep.case(h.finish(), !own);
            row.push(unlocked.is_ok());
            let replay = json!({
                "vault": {"cipher": f.cipher.to_string(), "kdf": f.kdf.to_string(), "seeded": f.seeded, "seed": f.vault.seed().map(|s| hex::encode(s.0)), "salt": f.vault.salt(), "password": f.password.expose_secret()},
                "tried_password": g.password.expose_secret(), "own": own,
                "meta_nonce": f.vault.header().meta().map(|m| hex::encode(m.nonce.as_ref())),
                "meta_ciphertext": f.vault.header().meta().map(|m| hex::encode(&m.ciphertext)),
            });
            match (own, unlocked.is_ok()) {
                (true, false) => cx.rep.violation("C10:unlock:own_password_refused", &format!("AccessPoint::unlock with the folder's own password failed: {}", unlocked.as_ref().err().map(|e| e.to_string()).unwrap_or_default()), replay.clone()),
                (false, true) => cx.rep.violation("C10:unlock:other_password_accepted", "AccessPoint::unlock succeeded with another folder's password", replay.clone()),
                _ => {}
            }
            match (own, verified.is_ok()) {
                (true, false) => cx.rep.violation("C10:verify:own_password_refused", "Vault::verify refused the folder's own password", replay.clone()),
                (false, true) => cx.rep.violation("C10:verify:other_password_accepted", "Vault::verify accepted another folder's password", replay.clone()),
                _ => {}
            }

            if own {
                // an unlocked folder stores and returns a secret
                let r = secret_row("own");
                let id = *r.id();
                let ok = ap.create_secret(&r).await.is_ok() && matches!(ap.read_secret(&id).await, Ok(Some(_)));
                if ok {
                    cx.rep.count("unlock_own_write_read", 1);
                } else {
                    cx.rep.violation("C10:unlock:own_password_cannot_write_read", "after unlock with the own password create_secret/read_secret failed", replay.clone());
                }
                ap.lock();
                if ap.create_secret(&secret_row("locked")).await.is_ok() {
                    cx.rep.violation("C10:unlock:locked_write_accepted", "create_secret succeeded after lock()", replay.clone());
                }
            } else if unlocked.is_err() {
                // "unlocks only with its own password": a refused unlock
                // must leave the access point locked. Probe by writing.
                cx.rep.count("refused_unlock_state_probes", 1);
                let r = secret_row("after refused unlock");
                let id = *r.id();
                let wrote = ap.create_secret(&r).await;
                if wrote.is_ok() {
                    // who can read what was written?
                    let readable_by_wrong = matches!(ap.read_secret(&id).await, Ok(Some(_)));
                    let mut ap2 = Ap::new(ap.vault().clone());
                    let reopen = ap2.unlock(&AccessKey::Password(f.password.clone())).await.is_ok();
                    let readable_by_own = matches!(ap2.read_secret(&id).await, Ok(Some(_)));
                    // and can the folder meta (the password check blob) be replaced?
                    let mut ap3 = Ap::new(f.vault.clone());
                    let _ = ap3.unlock(&key).await;
                    let meta_replaced = ap3.set_vault_meta(&VaultMeta::default()).await.is_ok();
                    let v = ap3.vault().clone();
                    let own_after = Ap::new(v.clone()).unlock(&AccessKey::Password(f.password.clone())).await.is_ok();
                    let wrong_after = Ap::new(v).unlock(&key).await.is_ok();
                    cx.rep.violation(
                        "C10:unlock:refused_unlock_leaves_wrong_key:write_accepted",
                        &format!(
                            "AccessPoint::unlock(wrong password) returned Err but kept the key derived from the wrong password (access_point.rs unlock assigns private_key before checking it and never clears it): the following create_secret succeeded instead of Error::VaultLocked; the stored secret is readable with the wrong password: {readable_by_wrong}, with the folder's own password: {readable_by_own} (own password still unlocks: {reopen}). On a second copy set_vault_meta after the refused unlock succeeded: {meta_replaced}; after that the folder unlocks with its own password: {own_after}, with the wrong password: {wrong_after}"
                        ),
                        replay.clone(),
                    );
                } else {
                    cx.rep.count("refused_unlock_stays_locked", 1);
                }
            }
        }
        matrix.push(row);
    }
    cx.rep.sample(json!({
        "part": "unlock matrix (row = folder, column = password of folder j)",
        "folders": folders.iter().map(|f| json!({"cipher": f.cipher.to_string(), "kdf": f.kdf.to_string(), "seeded": f.seeded, "password": f.password.expose_secret()})).collect::<Vec<_>>(),
        "unlocked": matrix,
    }));

    // sequences on ONE access point: lock / unlock(own) / unlock(another folder's password) in
    // every order up to length 3 (+ sampled length 4); every unlock with a foreign password is
    // refused whatever came before, and writing works exactly when the last effective step was
    // an unlock with the own password
    if folders.len() >= 2 {
        let fi = cx.rng.usize(folders.len());
        let f = &folders[fi];
        let g = &folders[(fi + 1) % folders.len()];
        let right = AccessKey::Password(f.password.clone());
        let wrong = AccessKey::Password(g.password.clone());
        let mut seqs: Vec<Vec<u8>> = vec![];
        for len in 1..=3usize {
            for code in 0..3usize.pow(len as u32) {
                let mut c = code;
                seqs.push((0..len).map(|_| { let x = (c % 3) as u8; c /= 3; x }).collect());
            }
        }
        for _ in 0..6 {
            seqs.push((0..4).map(|_| cx.rng.usize(3) as u8).collect());
        }
        for seq in seqs {
            let mut ap = Ap::new(f.vault.clone());
            let mut open = false;
            let names: Vec<&str> = seq.iter().map(|x| ["lock", "unlock_own", "unlock_foreign"][*x as usize]).collect();
            let replay = json!({"part": "unlock sequences", "sequence": names, "vault": {"cipher": f.cipher.to_string(), "kdf": f.kdf.to_string(), "password": f.password.expose_secret()}, "foreign_password": g.password.expose_secret()});
            let mut h = Fnv::new();
            h.str("unlock_seq").str(&f.cipher.to_string()).bytes(&seq);
            cx.rep.case(h.finish(), seq.contains(&2));
            cx.rep.count("unlock_sequences", 1);
            for (k, step) in seq.iter().enumerate() {
                match step {
                    0 => {
                        ap.lock();
                        open = false;
                    }
                    1 => {
                        if ap.unlock(&right).await.is_err() {
                            cx.rep.violation("C10:unlock:sequence:own_password_refused", &format!("step {k} of {names:?}: unlock with the own password failed"), replay.clone());
                        }
                        open = true;
                    }
                    _ => {
                        cx.rep.count("foreign_unlocks_in_sequences", 1);
                        if open {
                            cx.rep.count("foreign_unlocks_on_an_unlocked_folder", 1);
                        }
                        if ap.unlock(&wrong).await.is_ok() {
                            cx.rep.violation("C10:unlock:sequence:other_password_accepted", &format!("step {k} of {names:?}: unlock with another folder's password succeeded (folder was {} before)", if open { "unlocked" } else { "locked" }), replay.clone());
                        }
                        open = false;
                    }
                }
                let wrote = ap.create_secret(&secret_row("seq")).await.is_ok();
                if wrote != open {
                    cx.rep.violation(if wrote { "C10:unlock:sequence:write_accepted_while_locked" } else { "C10:unlock:sequence:write_refused_while_unlocked" }, &format!("after step {k} of {names:?} create_secret -> {wrote}, the folder should be {}", if open { "unlocked" } else { "locked" }), replay.clone());
                    break;
                }
            }
        }
    }

    // the stored meta blob decrypts to the VaultMeta, with the derived key
    for f in folders {
        if let (Ok(k), Some(meta)) = (derive_vault_key(&f.vault, &f.password).await, f.vault.header().meta()) {
            match f.vault.decrypt(&k.key, meta).await {
                Ok(bytes) => match decode::<VaultMeta>(&bytes).await {
                    Ok(_) => cx.rep.count("stored_meta_roundtrips", 1),
                    Err(e) => cx.rep.violation("C10:unlock:stored_meta_undecodable", &format!("stored meta decrypts but does not decode: {e}"), json!({"cipher": f.cipher.to_string()})),
                },
                Err(e) => cx.rep.violation("C10:unlock:stored_meta_not_decryptable", &format!("stored meta does not decrypt with the derived key: {e}"), json!({"cipher": f.cipher.to_string()})),
            }
        }
    }

    // same password, two folders: salts differ, so keys must differ
    for f in folders.iter().take(2) {
        let twin = VaultBuilder::new().cipher(f.cipher).kdf(f.kdf).build(BuilderCredentials::Password(f.password.clone(), None)).await;
        if let (Ok(twin), Ok(k)) = (twin, derive_vault_key(&f.vault, &f.password).await) {
            cx.rep.count("same_password_twin_folders", 1);
            let mut h = Fnv::new();
            h.str("twin").str(f.password.expose_secret()).str(twin.salt().map(|s| s.as_str()).unwrap_or(""));
            cx.rep.case(h.finish(), twin.salt() != f.vault.salt());
            if twin.salt() == f.vault.salt() {
                cx.rep.violation("C10:kdf:salt_reused", "two vaults built with the same password got the same salt", json!({"salt": twin.salt()}));
            }
            if let Some(meta) = twin.header().meta() {
                if twin.decrypt(&k.key, meta).await.is_ok() {
                    cx.rep.violation(
                        &format!("C10:kdf:{}:distinct_salt_same_key", f.kdf),
                        "the key derived for one folder decrypts the meta of another folder that has the same password but another salt",
                        json!({"password": f.password.expose_secret(), "salt_a": f.vault.salt(), "salt_b": twin.salt()}),
                    );
                }
            }
        }
    }

    // identities / passwords across key kinds
    let stranger = Identity::generate();
    let member = Identity::generate();
    if let Ok(shared) = VaultBuilder::new()
        .build(BuilderCredentials::Shared { owner, recipients: vec![member.to_public()], read_only: false })
        .await
    {
        let probes: Vec<(&str, AccessKey, bool)> = vec![
            ("owner", AccessKey::Identity(owner.clone()), true),
            ("member", AccessKey::Identity(member.clone()), true),
            ("stranger", AccessKey::Identity(stranger.clone()), false),
            ("password", AccessKey::Password(folders[0].password.clone()), false),
        ];
        for (who, key, want) in probes {
            let got = Ap::new(shared.clone()).unlock(&key).await.is_ok();
            let ver = shared.verify(&key).await.is_ok();
            cx.rep.count("unlock_pairs", 1);
            cx.rep.count("unlock_pairs_shared_folder", 1);
            let mut h = Fnv::new();
            h.str("unlock_shared").str(who).bytes(&shared.id().as_bytes()[..]);
            cx.rep.case(h.finish(), !want);
            if got != want || ver != want {
                let sig = if want { "C10:unlock:shared:recipient_refused" } else { "C10:unlock:shared:non_recipient_accepted" };
                cx.rep.violation(sig, &format!("shared (X25519) folder: unlock by {who} -> {got}, verify -> {ver}, expected {want}"), json!({"who": who}));
            }
        }
    }
    // an identity offered to a password folder
    for f in folders.iter().take(2) {
        let key = AccessKey::Identity(stranger.clone());
        let got = Ap::new(f.vault.clone()).unlock(&key).await.is_ok();
        cx.rep.count("unlock_pairs", 1);
        let mut h = Fnv::new();
        h.str("unlock_identity_on_password_folder").str(&f.cipher.to_string());
        cx.rep.case(h.finish(), true);
        if got {
            cx.rep.violation("C10:unlock:identity_accepted_by_password_folder", "a password folder unlocked with an age identity", json!({"cipher": f.cipher.to_string()}));
        }
    }
}

#[derive(Clone)]
struct Triple {
    p: usize,
    s: usize,
    e: usize,
}

fn derive_bytes(kdf: KeyDerivation, password: &str, salt: &str, seed: Option<&Seed>, via_access_key: bool) -> Result<Vec<u8>, String> {
    let salt = KeyDerivation::parse_salt(salt).map_err(|e| format!("salt: {e}"))?;
    let pw = SecretString::from(password.to_string());
    if via_access_key {
        match AccessKey::Password(pw).into_private(&kdf, &salt, seed).map_err(|e| e.to_string())? {
            PrivateKey::Symmetric(d) => Ok(d.as_ref().to_vec()),
            _ => Err("not symmetric".into()),
        }
    } else {
        let d = kdf.deriver().derive(&pw, &salt, seed).map_err(|e| e.to_string())?;
        Ok(d.as_ref().to_vec())
    }
}

/// Part 3 for one KDF.
fn kdf_part(cx: &mut Cx<'_>, kdf: KeyDerivation, np: usize, ns: usize, ne: usize) -> Vec<(Triple, Vec<u8>)> {
    let kname = kdf.to_string();
    // password pool with near misses
    let base = cx.rng.token(12);
    let mut passwords: Vec<String> = vec![
        base.clone(),
        format!("{base} "),
        base.to_lowercase() + "A",
        base[..base.len() - 1].to_string(),
        format!("{base}{base}"),
        format!("\u{e9}{base}"),
        cx.rng.token(1),
        cx.rng.token(40),
    ];
    let mut seen = HashSet::new();
    passwords.retain(|p| seen.insert(p.clone()));
    while passwords.len() < np {
        let n = cx.rng.range(6, 24) as usize;
        let t = cx.rng.token(n);
        if seen.insert(t.clone()) {
            passwords.push(t);
        }
    }
    passwords.truncate(np);
    // salts: produced by the SDK, plus a near miss (first symbol changed)
    let mut salts: Vec<String> = vec![];
    while salts.len() < ns {
        if salts.len() == 1 {
            let mut s: Vec<char> = salts[0].chars().collect();
            s[0] = if s[0] == 'A' { 'B' } else { 'A' };
            let s: String = s.into_iter().collect();
            if KeyDerivation::parse_salt(&s).is_ok() && !salts.contains(&s) {
                salts.push(s);
                continue;
            }
        }
        let s = KeyDerivation::generate_salt().to_string();
        if !salts.contains(&s) {
            salts.push(s);
        } else {
            cx.rep.violation("C10:kdf:salt_reused", "KeyDerivation::generate_salt returned the same salt twice", json!({"salt": s}));
            break;
        }
    }
    // seeds: none, random, near miss of it, all zero, ...
    let mut seeds: Vec<Option<Seed>> = vec![None];
    let mut r = [0u8; 32];
    r.copy_from_slice(&cx.rng.bytes(32));
    seeds.push(Some(Seed(r)));
    let mut r2 = r;
    r2[31] ^= 1;
    seeds.push(Some(Seed(r2)));
    seeds.push(Some(Seed([0u8; 32])));
    while seeds.len() < ne {
        let mut x = [0u8; 32];
        x.copy_from_slice(&cx.rng.bytes(32));
        seeds.push(Some(Seed(x)));
    }
    seeds.truncate(ne);

    let mut keys: Vec<(Triple, Vec<u8>)> = vec![];
    for (p, pw) in passwords.iter().enumerate() {
        for (s, salt) in salts.iter().enumerate() {
            for (e, seed) in seeds.iter().enumerate() {
                let desc = json!({"kdf": kname, "password": pw, "salt": salt, "seed": seed.map(|s| hex::encode(s.0))});
                let a = derive_bytes(kdf, pw, salt, seed.as_ref(), false);
                let b = derive_bytes(kdf, pw, salt, seed.as_ref(), true);
                cx.rep.count("kdf_derivations", 2);
                cx.rep.count(&format!("kdf_derivations:{kname}"), 2);
                let mut h = Fnv::new();
                h.str("kdf_deterministic").str(&kname).str(pw).str(salt).bytes(&seed.map(|s| s.0.to_vec()).unwrap_or_default());
                cx.rep.case(h.finish(), false);
                match (a, b) {
                    (Ok(a), Ok(b)) => {
                        cx.rep.count("kdf_deterministic_checked", 1);
                        if a != b {
                            cx.rep.violation(&format!("C10:kdf:{kname}:not_deterministic"), "the same password, salt and seed derived two different keys", json!({"input": desc, "key_a": hex::encode(&a), "key_b": hex::encode(&b)}));
                        }
                        if a.len() != 32 {
                            cx.rep.violation(&format!("C10:kdf:{kname}:key_length"), &format!("derived key has {} bytes", a.len()), desc.clone());
                        }
                        keys.push((Triple { p, s, e }, a));
                    }
                    (Err(e1), _) | (_, Err(e1)) => {
                        cx.rep.count("kdf_derive_errors", 1);
                        cx.rep.violation(&format!("C10:kdf:{kname}:derive_error"), &format!("derivation failed: {e1}"), desc);
                    }
                }
            }
        }
    }

    // pairwise separation
    let mut sampled = false;
    for i in 0..keys.len() {
        for j in i + 1..keys.len() {
            let (a, ka) = &keys[i];
            let (b, kb) = &keys[j];
            cx.rep.count("kdf_pairs_compared", 1);
            cx.rep.count(&format!("kdf_pairs_compared:{kname}"), 1);
            let dp = a.p != b.p;
            let ds = a.s != b.s;
            let de = a.e != b.e;
            let differs = match (dp, ds, de) {
                (true, false, false) => "password",
                (false, true, false) => "salt",
                (false, false, true) => "seed",
                _ => "several",
            };
            cx.rep.count(&format!("kdf_pairs_differing_in:{differs}"), 1);
            let mut h = Fnv::new();
            h.str("kdf_pair").str(&kname).str(&passwords[a.p]).str(&salts[a.s]).u64(a.e as u64).str(&passwords[b.p]).str(&salts[b.s]).u64(b.e as u64).bytes(&seeds[a.e.max(b.e)].map(|s| s.0.to_vec()).unwrap_or_default());
            cx.rep.case(h.finish(), true);
            let pair = |t: &Triple, k: &Vec<u8>| json!({"password": passwords[t.p], "salt": salts[t.s], "seed": seeds[t.e].map(|s| hex::encode(s.0)), "key": hex::encode(k)});
            if ka == kb {
                cx.rep.violation(
                    &format!("C10:kdf:{kname}:distinct_{differs}_same_key"),
                    &format!("{kname}: two inputs that differ in {differs} derived the same key"),
                    json!({"kdf": kname, "a": pair(a, ka), "b": pair(b, kb)}),
                );
            } else if !sampled && differs == "seed" {
                sampled = true;
                cx.rep.sample(json!({"part": "kdf pair", "kdf": kname, "differs_in": differs, "a": pair(a, ka), "b": pair(b, kb), "outcome": "keys differ"}));
            }
        }
    }

    // Observation (not a property clause: the passwords differ): derive()
    // hashes `password ++ seed` without a separator, so (password, seed)
    // and (password ++ seed-as-text, no seed) are the same KDF input.
    {
        let seed_txt = cx.rng.token(32);
        let mut sb = [0u8; 32];
        sb.copy_from_slice(seed_txt.as_bytes());
        let salt = &salts[0];
        let a = derive_bytes(kdf, &base, salt, Some(&Seed(sb)), false);
        let b = derive_bytes(kdf, &format!("{base}{seed_txt}"), salt, None, false);
        cx.rep.count("kdf_derivations", 2);
        if let (Ok(a), Ok(b)) = (a, b) {
            if a == b {
                cx.rep.count(&format!("observation:kdf_password_seed_concatenation_ambiguous:{kname}"), 1);
            } else {
                cx.rep.count(&format!("observation:kdf_password_seed_domain_separated:{kname}"), 1);
            }
        }
    }
    keys
}

pub fn run(args: &Args, rep: &mut Reporter) {
    let rt = match tokio::runtime::Builder::new_current_thread().enable_all().build() {
        Ok(rt) => rt,
        Err(e) => {
            rep.inconclusive(&format!("c10: cannot build a tokio runtime: {e}"));
            return;
        }
    };
    rt.block_on(run_async(args, rep));
}

async fn run_async(args: &Args, rep: &mut Reporter) {
    rep.set_max_samples(6);
    let mut cx = Cx { rng: Rng::new(args.shard_seed() ^ 0xC10), rep };
    let thorough = args.thorough();
    let mut timing = serde_json::Map::new();

    // ------------------------------------------------------------------
    // folders: 2 per symmetric cipher, distinct (near-miss) passwords,
    // both KDFs, one seeded
    // ------------------------------------------------------------------
    let t0 = Instant::now();
    let base = cx.rng.token(14);
    let pw: Vec<String> = vec![base.clone(), format!("{base}x"), base.to_uppercase() + "-", cx.rng.token(20)];
    let mut seed_bytes = [0u8; 32];
    seed_bytes.copy_from_slice(&cx.rng.bytes(32));
    let plan = [
        (Cipher::AesGcm256, KeyDerivation::Argon2Id, false),
        (Cipher::AesGcm256, KeyDerivation::BalloonHash, true),
        (Cipher::XChaCha20Poly1305, KeyDerivation::Argon2Id, true),
        (Cipher::XChaCha20Poly1305, KeyDerivation::BalloonHash, false),
    ];
    let mut folders: Vec<Folder> = vec![];
    for (i, (cipher, kdf, seeded)) in plan.iter().enumerate() {
        let password = SecretString::from(pw[i].clone());
        let seed = if *seeded { Some(Seed(seed_bytes)) } else { None };
        match VaultBuilder::new()
            .cipher(*cipher)
            .kdf(*kdf)
            .description(format!("c10 folder {i}"))
            .build(BuilderCredentials::Password(password.clone(), seed))
            .await
        {
            Ok(vault) => folders.push(Folder { vault, password, cipher: *cipher, kdf: *kdf, seeded: *seeded }),
            Err(e) => {
                cx.rep.inconclusive(&format!("c10: VaultBuilder failed for {cipher}/{kdf}: {e}"));
                return;
            }
        }
    }
    let owner = Identity::generate();
    let member = Identity::generate();
    let shared = match VaultBuilder::new()
        .build(BuilderCredentials::Shared { owner: &owner, recipients: vec![member.to_public()], read_only: false })
        .await
    {
        Ok(v) => v,
        Err(e) => {
            cx.rep.inconclusive(&format!("c10: VaultBuilder failed for a shared folder: {e}"));
            return;
        }
    };
    if *shared.cipher() != Cipher::X25519 {
        cx.rep.inconclusive("c10: shared folder does not use the X25519 cipher");
        return;
    }
    timing.insert("build_folders_s".into(), json!(t0.elapsed().as_secs_f64()));

    // ------------------------------------------------------------------
    // part 1: round trip + tamper
    // ------------------------------------------------------------------
    let t1 = Instant::now();
    let mut sizes: Vec<usize> = vec![0, 1, 15, 16, 17, 63, 64, 65, 4096, 1 << 20];
    if thorough {
        sizes.push(8 << 20);
    }
    let owner_k = K::asym(&owner);
    let member_k = K::asym(&member);
    let aes_folder = &folders[0];
    let xch_folder = &folders[2];
    let mut sampled = false;
    for f in [aes_folder, xch_folder] {
        let other_f = if f.cipher == Cipher::AesGcm256 { xch_folder } else { aes_folder };
        let vault_key = match derive_vault_key(&f.vault, &f.password).await {
            Ok(k) => k,
            Err(e) => {
                cx.rep.inconclusive(&format!("c10: cannot derive the folder key: {e}"));
                return;
            }
        };
        for &size in &sizes {
            // cipher API, fresh key per size
            let key = K::sym(cx.rng.bytes(32));
            let sample_it = !sampled && size == 17;
            sampled |= sample_it;
            sym_suite(&mut cx, Via::Direct(f.cipher), Via::Vault(&f.vault), Via::Direct(other_f.cipher), &key, &owner_k, size, sample_it).await;
            // vault API, the folder's own derived key
            sym_suite(&mut cx, Via::Vault(&f.vault), Via::Direct(f.cipher), Via::Vault(&other_f.vault), &vault_key, &owner_k, size, false).await;
        }
        wrong_length_key_probe(&mut cx, f.cipher, &vault_key).await;
    }
    timing.insert("symmetric_tamper_s".into(), json!(t1.elapsed().as_secs_f64()));

    let t1b = Instant::now();
    {
        let strangers: Vec<K> = (0..4).map(|_| K::asym(&Identity::generate())).collect();
        let recipients = vec![owner.to_public(), member.to_public()];
        let sym_key = K::sym(cx.rng.bytes(32));
        let readers = [&owner_k, &member_k];
        let mut age_sizes = sizes.clone();
        // exact STREAM chunk multiples (64 KiB) are the edge of the age payload format
        age_sizes.extend([65535usize, 65536, 65537, 131072]);
        let mut sampled = false;
        for &size in &age_sizes {
            let exhaustive_header = matches!(size, 0 | 1 | 17) || (thorough && size <= 65);
            let sample_it = !sampled && size == 17;
            sampled |= sample_it;
            age_suite(&mut cx, Via::Direct(Cipher::X25519), Via::Vault(&shared), &readers, &strangers, &sym_key, &recipients, size, exhaustive_header, SAMPLED_FLIPS, sample_it).await;
            // the shared vault path: same code underneath, lighter sampling
            age_suite(&mut cx, Via::Vault(&shared), Via::Direct(Cipher::X25519), &readers, &strangers, &sym_key, &recipients, size, false, if size <= 65 { 120 } else { 60 }, false).await;
        }
    }
    timing.insert("age_tamper_s".into(), json!(t1b.elapsed().as_secs_f64()));

    // ------------------------------------------------------------------
    // part 2: unlock matrix
    // ------------------------------------------------------------------
    let t2 = Instant::now();
    unlock_part(&mut cx, &folders, &owner).await;
    timing.insert("unlock_s".into(), json!(t2.elapsed().as_secs_f64()));

    // ------------------------------------------------------------------
    // part 4: nonce freshness (before the KDF part, which is the slow one)
    // ------------------------------------------------------------------
    let t4 = Instant::now();
    let per = args.by_tier(10_000usize, 150_000usize);
    for f in [aes_folder, xch_folder] {
        if let Ok(k) = derive_vault_key(&f.vault, &f.password).await {
            harvest_nonces(&mut cx, &f.vault, &k, per, per).await;
        }
    }
    timing.insert("nonce_harvest_s".into(), json!(t4.elapsed().as_secs_f64()));

    // ------------------------------------------------------------------
    // part 3: KDF separation; the pool is sized from a measurement
    // ------------------------------------------------------------------
    let t3 = Instant::now();
    let budget_s = args.by_tier(24.0f64, 400.0f64);
    let (mut np, mut ns, mut ne) = args.by_tier((4usize, 3usize, 3usize), (8, 8, 5));
    let mut cost = serde_json::Map::new();
    let mut per_derivation = 0.0f64;
    for kdf in [KeyDerivation::Argon2Id, KeyDerivation::BalloonHash] {
        let salt = KeyDerivation::generate_salt().to_string();
        let t = Instant::now();
        let _ = derive_bytes(kdf, "timing probe", &salt, None, false);
        let dt = t.elapsed().as_secs_f64();
        cost.insert(kdf.to_string(), json!(dt));
        per_derivation += dt;
    }
    // 2 derivations per triple and per KDF
    while (np * ns * ne) as f64 * 2.0 * per_derivation > budget_s && np * ns * ne > 8 {
        if ne > 2 && ne >= ns {
            ne -= 1;
        } else if ns > 2 && ns >= np {
            ns -= 1;
        } else if np > 2 {
            np -= 1;
        } else {
            break;
        }
    }
    if (np, ns, ne) != args.by_tier((4usize, 3usize, 3usize), (8, 8, 5)) {
        cx.rep.count("kdf_pool_shrunk_for_time", 1);
    }
    let mut all: Vec<(String, Vec<(Triple, Vec<u8>)>)> = vec![];
    for kdf in [KeyDerivation::Argon2Id, KeyDerivation::BalloonHash] {
        let keys = kdf_part(&mut cx, kdf, np, ns, ne);
        all.push((kdf.to_string(), keys));
    }
    // across KDFs no key may coincide either (pools differ, so any equal
    // pair of keys is a collision of distinct inputs)
    {
        let mut set: HashSet<&Vec<u8>> = HashSet::new();
        let mut n = 0u64;
        for (_, keys) in &all {
            for (_, k) in keys {
                n += 1;
                if !set.insert(k) {
                    cx.rep.violation("C10:kdf:cross_kdf:same_key", "the same key bytes were derived twice over the pools of both KDFs", json!({"key": hex::encode(k)}));
                }
            }
        }
        cx.rep.count("kdf_keys_in_global_distinctness_set", n);
    }
    timing.insert("kdf_s".into(), json!(t3.elapsed().as_secs_f64()));
    cx.rep.set_extra("kdf", json!({"pool": {"passwords": np, "salts": ns, "seeds_incl_none": ne}, "seconds_per_derivation": cost}));
    cx.rep.set_extra("timing", Value::Object(timing));
    cx.rep.set_extra(
        "plan",
        json!({
            "plaintext_sizes": sizes, "exhaustive_flip_max_ciphertext_bytes": EXHAUSTIVE_MAX, "sampled_flips": SAMPLED_FLIPS,
            "nonces_per_cipher_per_shard": per * 2, "shard": args.shard, "shards": args.shards,
            "note": "every shard runs all four parts with its own keys, plaintexts and passwords",
        }),
    );
}
