#!/bin/sh
# usage: scripts/recheck_flaky.sh <seeded-name> <nextest test name fragment>
# Re-runs one pinned test alone (up to 3 tries) with the seeded change applied, in the confirm worktree.
set -u
WT=/tmp/confirm-wt
export CARGO_TARGET_DIR=/tmp/confirm-target
export CARGO_NET_OFFLINE=true
unset RUSTFLAGS
name=$1; frag=$2
D=/verif/seeded/$name
cd $WT || exit 2
git checkout -q --detach $(git -C /repo rev-parse HEAD); git checkout -q -- .; git clean -fdq tests crates >/dev/null 2>&1
mkdir -p tests/unit/target
git apply $D/patch.diff || { echo "patch does not apply"; exit 2; }
ok=0
for i in 1 2 3; do
  if cargo nextest run --offline -p sos-integration-tests -E "binary(main) & test(/$frag/)" > $D/recheck.log 2>&1; then ok=1; break; fi
done
git checkout -q -- .
python3 - "$D" "$frag" "$ok" <<'P'
import json,sys
d,frag,ok=sys.argv[1],sys.argv[2],sys.argv[3]=="1"
c=json.load(open(d+'/confirm.json'))
c['recheck']={"test":frag,"passes_alone_with_patch":ok}
json.dump(c,open(d+'/confirm.json','w'))
print(d,frag,ok)
P
