//! C02 (merge part) — after a received patch is merged, or a whole log is
//! force-merged, into an open account, the folder it serves, the replay of
//! its event log and the persisted vault store still agree, also after a
//! cold reopen, and equal what the sending replica serves.
//!
//! A second replica (a copy of the data directory) makes edits that grow
//! the folder, or deletes most of it and compacts (so the vault SHRINKS);
//! its folder log is handed to `merge_folder` / `force_merge_folder` of the
//! first replica.
use crate::c13::{folder_records_json, head_proof_of, records_from_json};
use crate::common::*;
use serde_json::json;
use sos_account::Account;
use sos_client_storage::AccessOptions;
use sos_core::events::patch::{CheckedPatch, FolderDiff, Patch};
use sos_core::VaultId;
use sos_sync::{ForceMerge, Merge, MergeOutcome};
use vkit::{Args, Fnv, Reporter, Rng};
use vmodel::model::AccountModel;
use vmodel::ops::{Driver, Weights};
use vmodel::secgen::Gen;
use vmodel::setup::{self, Config};
use vmodel::snapshot::{self, diff_folder, FolderView};

const VARIANTS: [&str; 4] = ["merge_grow", "force_grow", "force_shrink", "force_shrink_compacted"];

fn opts(f: &VaultId) -> AccessOptions {
    AccessOptions { folder: Some(*f), ..Default::default() }
}

pub async fn run(args: &Args, rep: &mut Reporter, prop: &str) {
    let rounds = args.by_tier(8usize, 32usize);
    let mut rng = Rng::new(args.shard_seed() ^ 0xC02E);
    for (ci, config) in Config::matrix().iter().enumerate() {
        if ci % 4 != args.shard % 4 && !args.thorough() {
            continue;
        }
        let backend = config.backend.name();
        let pdir = args.dir.join(format!("pristine{ci}"));
        let pristine = match setup::create_pristine(&pdir, config, &mut rng).await {
            Ok(p) => p,
            Err(e) => {
                rep.inconclusive(&format!("cannot create pristine account: {e}"));
                continue;
            }
        };
        let ldir = args.dir.join(format!("local{ci}"));
        let mut local = match setup::instantiate(&pristine, &ldir).await {
            Ok(o) => o,
            Err(e) => {
                rep.inconclusive(&format!("cannot open account: {e}"));
                continue;
            }
        };
        if prop == "C20" {
            let _ = local.account.initialize_search_index().await;
        }
        // a history that fills the folders
        let model = match snapshot::live(&mut local.account).await {
            Ok((v, _)) => AccountModel::from_view(v),
            Err(e) => {
                rep.inconclusive(&format!("snapshot: {}", e.detail));
                continue;
            }
        };
        let mut w = Weights::c01();
        w.create = 40;
        w.delete = 2;
        w.delete_folder = 0;
        w.resign = 0;
        w.illegal = 0;
        let mut driver = Driver::new(rng.fork(ci as u64), w, model, pristine.password.clone(), ldir.join("tmpfiles"));
        driver.allow_large = false;
        for _ in 0..30 {
            driver.step(&mut local.account).await;
        }
        let mut hash = Fnv::new();
        for round in 0..rounds {
            let variant = VARIANTS[(round + args.shard) % VARIANTS.len()];
            // folder with the most secrets
            let view = match snapshot::live(&mut local.account).await {
                Ok((v, _)) => v,
                Err(e) => {
                    report_snap_error(rep, "C02", backend, "served", variant, &e, &json!({"round": round}));
                    break;
                }
            };
            let mut fs: Vec<(&VaultId, &FolderView)> = view.folders.iter().collect();
            fs.sort_by(|a, b| (b.1.secrets.len(), &a.1.name).cmp(&(a.1.secrets.len(), &b.1.name)));
            let Some((f, fv)) = fs.first().map(|(f, v)| (**f, (*v).clone())) else { break };
            let base_len = snapshot::log_commits(&local.account, &f).await.map(|c| c.len()).unwrap_or(0);
            // ---- the other replica -------------------------------------------------------------------
            local.close().await;
            let rdir = args.dir.join(format!("remote{ci}"));
            let _ = std::fs::remove_dir_all(&rdir);
            if setup::copy_dir(&ldir, &rdir).is_err() {
                rep.inconclusive("cannot copy the data directory");
                return;
            }
            let remote = setup::open(&rdir, config.backend, &pristine.account_id, &pristine.password).await;
            local = match setup::open(&ldir, config.backend, &pristine.account_id, &pristine.password).await {
                Ok(o) => o,
                Err(e) => {
                    rep.violation(&format!("C02:{backend}:merge:reopen_failed"), &format!("the account cannot be re-opened: {e}"), json!({"round": round}));
                    return;
                }
            };
            if prop == "C20" {
                let _ = local.account.initialize_search_index().await;
            }
            let mut remote = match remote {
                Ok(o) => o,
                Err(e) => {
                    rep.inconclusive(&format!("cannot open the copied replica: {e}"));
                    break;
                }
            };
            let mut log = vec![];
            let prepared: Result<(Vec<serde_json::Value>, FolderView), String> = async {
                let mut g = Gen::new(&mut rng);
                g.allow_large = false;
                let mut ids: Vec<_> = fv.secrets.keys().copied().collect();
                ids.sort();
                if variant.contains("shrink") {
                    let keep = ids.len() / 4;
                    for id in ids.iter().skip(keep) {
                        remote.account.delete_secret(id, opts(&f)).await.map_err(|e| e.to_string())?;
                        log.push(format!("remote: delete {id}"));
                    }
                    if variant == "force_shrink_compacted" {
                        remote.account.compact_folder(&f).await.map_err(|e| e.to_string())?;
                        log.push("remote: compact".into());
                    }
                } else {
                    for k in 0..3 {
                        let (m, s) = g.secret_of_kind(k, 0);
                        let id = remote.account.create_secret(m, s, opts(&f)).await.map_err(|e| e.to_string())?.id;
                        log.push(format!("remote: create {id}"));
                    }
                    if let Some(id) = ids.first() {
                        let (m, s) = g.secret_of_kind(0, 0);
                        remote.account.update_secret(id, m, Some(s), opts(&f)).await.map_err(|e| e.to_string())?;
                        log.push(format!("remote: update {id}"));
                    }
                    if let Some(id) = ids.get(1) {
                        remote.account.delete_secret(id, opts(&f)).await.map_err(|e| e.to_string())?;
                        log.push(format!("remote: delete {id}"));
                    }
                    remote.account.rename_folder(&f, format!("Merged name {}", g.rng.token(4))).await.map_err(|e| e.to_string())?;
                }
                let recs = folder_records_json(&remote.account, &f).await?;
                let (rv, _) = snapshot::live(&mut remote.account).await.map_err(|e| e.detail)?;
                let rf = rv.folders.get(&f).cloned().ok_or("remote folder missing")?;
                Ok((recs, rf))
            }
            .await;
            remote.close().await;
            let _ = std::fs::remove_dir_all(&rdir);
            let (recs, remote_view) = match prepared {
                Ok(x) => x,
                Err(e) => {
                    rep.inconclusive(&format!("cannot prepare the other replica ({variant}): {e}"));
                    break;
                }
            };
            // ---- merge into the open account -----------------------------------------------------------
            let records = records_from_json(&json!(recs));
            let commits: Vec<[u8; 32]> = records.iter().map(|r| r.commit().0).collect();
            let mut outcome = MergeOutcome::default();
            let ctx = json!({"config": config.name(), "variant": variant, "round": round, "folder": f.to_string(), "secrets_before": fv.secrets.len(), "remote_secrets": remote_view.secrets.len(), "remote_ops": log});
            let merged: Result<(), String> = if variant == "merge_grow" {
                if commits.len() <= base_len || base_len == 0 {
                    Err("remote log not ahead".into())
                } else {
                    let checkpoint = head_proof_of(&commits[..base_len]).unwrap();
                    let diff = FolderDiff::new(Patch::new(records[base_len..].to_vec()), checkpoint, Some(sos_core::commit::CommitHash(commits[base_len - 1])));
                    match local.account.merge_folder(&f, diff, &mut outcome).await {
                        Ok((CheckedPatch::Success(_), _)) => Ok(()),
                        Ok((CheckedPatch::Conflict { .. }, _)) => Err("conflict on an agreed base".into()),
                        Err(e) => Err(e.to_string()),
                    }
                }
            } else {
                let checkpoint = head_proof_of(&commits).unwrap();
                let diff = FolderDiff::new(Patch::new(records), checkpoint, None);
                local.account.force_merge_folder(&f, diff, &mut outcome).await.map_err(|e| e.to_string())
            };
            hash.str(variant).u64(fv.secrets.len() as u64);
            rep.count(&format!("variant:{variant}"), 1);
            if remote_view.secrets.len() < fv.secrets.len() {
                rep.count("merges_that_shrink_the_folder", 1);
            }
            if let Err(e) = merged {
                rep.violation(&format!("C02:{backend}:merge:{variant}:refused"), &format!("merging the other replica's log failed: {e}"), ctx.clone());
                break;
            }
            if prop == "C20" {
                // the live search index follows the merged folder
                match snapshot::live(&mut local.account).await {
                    Ok((v, _)) => {
                        let m = AccountModel::from_view(v);
                        vmodel::index::check_index(rep, &local.account, &m, &[], backend, &format!("merge_{variant}"), &ctx).await;
                        driver.model = m;
                    }
                    Err(e) => report_snap_error(rep, "C20", backend, "served", variant, &e, &ctx),
                }
                for _ in 0..10 {
                    driver.step(&mut local.account).await;
                }
                continue;
            }
            // ---- three-way comparison, live and after a cold reopen ---------------------------------------
            let mut bad = false;
            for phase in ["live", "reopened"] {
                if phase == "reopened" {
                    local.close().await;
                    local = match setup::open(&ldir, config.backend, &pristine.account_id, &pristine.password).await {
                        Ok(o) => o,
                        Err(e) => {
                            rep.violation(&format!("C02:{backend}:merge:{variant}:reopen_failed"), &format!("after the merge the account cannot be re-opened: {e}"), ctx.clone());
                            return;
                        }
                    };
                }
                let keys = match snapshot::folder_keys(&local.account).await {
                    Ok(k) => k,
                    Err(e) => {
                        report_snap_error(rep, "C02", backend, &format!("merge:{variant}:{phase}:keys"), "merge", &e, &ctx);
                        bad = true;
                        break;
                    }
                };
                let served = match snapshot::live(&mut local.account).await {
                    Ok((v, _)) => v.folders.get(&f).cloned(),
                    Err(e) => {
                        report_snap_error(rep, "C02", backend, &format!("merge:{variant}:{phase}:served"), "merge", &e, &ctx);
                        bad = true;
                        break;
                    }
                };
                let Some(served) = served else {
                    rep.violation(&format!("C02:{backend}:merge:{variant}:{phase}:folder_gone"), "the merged folder is no longer served", ctx.clone());
                    bad = true;
                    break;
                };
                let Some(key) = keys.get(&f) else { continue };
                let mut d = vec![];
                diff_folder(&remote_view, &served, &f, &mut d);
                bad |= report_diffs(rep, "C02", backend, &format!("merge:{variant}:{phase}:sender_vs_served"), "merge", &d, &ctx) > 0;
                match snapshot::replay_folder(&local.account, &f, key, None).await {
                    Ok(replayed) => {
                        rep.count("merge_replay_comparisons", 1);
                        let mut d = vec![];
                        diff_folder(&served, &replayed, &f, &mut d);
                        bad |= report_diffs(rep, "C02", backend, &format!("merge:{variant}:{phase}:replay_vs_served"), "merge", &d, &ctx) > 0;
                    }
                    Err(e) => {
                        report_snap_error(rep, "C02", backend, &format!("merge:{variant}:{phase}:replay"), "merge", &e, &ctx);
                        bad = true;
                    }
                }
                match snapshot::mirror_folder(&local.target, &pristine.account_id, &f, key).await {
                    Ok(mirror) => {
                        rep.count("merge_mirror_comparisons", 1);
                        let mut d = vec![];
                        diff_folder(&served, &mirror, &f, &mut d);
                        bad |= report_diffs(rep, "C02", backend, &format!("merge:{variant}:{phase}:mirror_vs_served"), "merge", &d, &ctx) > 0;
                    }
                    Err(e) => {
                        report_snap_error(rep, "C02", backend, &format!("merge:{variant}:{phase}:mirror"), "merge", &e, &ctx);
                        bad = true;
                    }
                }
            }
            if bad {
                break;
            }
            // refill the folder for the next round
            let (m, _) = match snapshot::live(&mut local.account).await {
                Ok(v) => v,
                Err(_) => break,
            };
            driver.model = AccountModel::from_view(m);
            for _ in 0..10 {
                driver.step(&mut local.account).await;
            }
        }
        rep.case(hash.finish(), true);
        if ci % 4 == args.shard % 4 {
            rep.sample(json!({"config": config.name(), "rounds": rounds}));
        }
        local.close().await;
        let _ = std::fs::remove_dir_all(&ldir);
        let _ = std::fs::remove_dir_all(&pdir);
    }
}
