//! C09 — concurrent syncs from several devices are safe in every
//! interleaving.
//!
//! Each device's `execute_sync` (the repo's own code) runs as its own task;
//! every request it sends first parks at the scheduler gate. The controller
//! keeps an explicit state per task (Running | Parked | Done) and releases
//! exactly ONE parked request at a time according to a generated decision
//! list, then waits for that task's next park / completion. One atomic step
//! is therefore "the server handles request r of device d; d digests the
//! reply and prepares its next request" — request granularity, deterministic
//! given the decision list.
//!
//! Monitors after every step: (1) read-only requests leave every server log
//! unchanged; a `sync` request may only append, a `patch` request may only
//! rewind-and-append, and what is appended is exactly the patch the request
//! carried (never part of it); (2) every event the server ever held is
//! still in its log at the end (no accepted event dropped); (3) every sync
//! call ends in Ok or an error within the request bound; (4) server logs and
//! trees agree; (5) a further sequential round converges (C04 oracle).
use crate::loopback::Carried;
use crate::sched::{Event, Scheduler, BOUND_PANIC};
use crate::world::*;
use serde_json::json;
use sos_account::Account;
use sos_client_storage::{AccessOptions, NewFolderOptions};
use sos_core::{SecretId, VaultId};
use sos_remote_sync::AutoMerge;
use std::collections::{BTreeMap, BTreeSet};
use std::sync::Arc;
use tokio::sync::mpsc;
use vkit::{Args, Fnv, Reporter, Rng};
use vmodel::secgen::{Gen, KINDS};
use vmodel::setup::{self, Backend, Config};
use vmodel::snapshot::{self, diff_views};

fn opts(f: &VaultId) -> AccessOptions {
    AccessOptions { folder: Some(*f), ..Default::default() }
}

const PRE: [&str; 6] = ["one_device_edits", "same_folder_different_secrets", "same_secret", "account_log_both_create_folder", "unequal_counts", "mixed"];

async fn pre_history(w: &mut World, rng: &mut Rng, kind: &str, log: &mut Vec<String>) -> Result<(), String> {
    let n = w.devices.len();
    let view0 = {
        let mut a = w.devices[0].account.lock().await;
        snapshot::live(&mut a).await.map(|v| v.0).map_err(|e| e.detail)?
    };
    let mut fsorted: Vec<(&VaultId, &vmodel::snapshot::FolderView)> = view0.folders.iter().collect();
    fsorted.sort_by(|a, b| (a.1.name.as_str(), a.1.flags).cmp(&(b.1.name.as_str(), b.1.flags)));
    let folder = *fsorted[rng.usize(fsorted.len())].0;
    // a shared secret to fight over
    let shared: SecretId = {
        w.clock_in(0);
        let mut a = w.devices[0].account.lock().await;
        let mut g = Gen::new(rng);
        g.allow_large = false;
        let (m, s) = g.secret_of_kind(0, 0);
        let id = a.create_secret(m, s, opts(&folder)).await.map_err(|e| e.to_string())?.id;
        drop(a);
        w.clock_out(0);
        id
    };
    for d in 0..n {
        match w.sync(d).await {
            SyncResult::Ok(_) => {}
            other => return Err(format!("pre-history sync failed: {other:?}")),
        }
    }
    for d in 1..n {
        let _ = w.sync(d).await;
    }
    let counts: Vec<usize> = match kind {
        "one_device_edits" => (0..n).map(|d| if d == 0 { 2 } else { 0 }).collect(),
        "unequal_counts" => (0..n).map(|d| 1 + d * 2).collect(),
        _ => (0..n).map(|_| rng.range(1, 2) as usize).collect(),
    };
    for d in 0..n {
        for k in 0..counts[d] {
            w.clock_in(d);
            let mut a = w.devices[d].account.lock().await;
            let mut g = Gen::new(rng);
            g.allow_large = false;
            let what = match kind {
                "same_secret" => "update_shared",
                "account_log_both_create_folder" => {
                    if k == 0 {
                        "create_folder"
                    } else {
                        "create"
                    }
                }
                "mixed" => ["create", "update_shared", "create_folder", "rename"][g.rng.usize(4)],
                _ => "create",
            };
            let r: Result<String, String> = match what {
                "update_shared" => {
                    let (m, s) = g.secret_of_kind(0, 0);
                    a.update_secret(&shared, m, Some(s), opts(&folder)).await.map(|_| format!("d{d}: update shared secret")).map_err(|e| e.to_string())
                }
                "create_folder" => {
                    let name = format!("Folder {}", g.rng.token(5));
                    a.create_folder(NewFolderOptions::new(name.clone())).await.map(|_| format!("d{d}: create folder {name}")).map_err(|e| e.to_string())
                }
                "rename" => a.rename_folder(&folder, format!("Name {}", g.rng.token(4))).await.map(|_| format!("d{d}: rename folder")).map_err(|e| e.to_string()),
                _ => {
                    let k = g.rng.usize(KINDS.len());
                    let k = if KINDS[k] == "file" { 0 } else { k };
                    let (m, s) = g.secret_of_kind(k, 0);
                    a.create_secret(m, s, opts(&folder)).await.map(|c| format!("d{d}: create {}", c.id)).map_err(|e| e.to_string())
                }
            };
            drop(a);
            w.clock_out(d);
            match r {
                Ok(s) => log.push(s),
                Err(e) => log.push(format!("d{d}: edit failed {e}")),
            }
        }
    }
    Ok(())
}

enum Msg {
    Sched(Event),
    Done(usize, Result<(), String>),
}

fn hex3(c: &[u8; 32]) -> String {
    hex::encode(&c[..3])
}

pub async fn run(args: &Args, rep: &mut Reporter) {
    let schedules = args.by_tier(10usize, 160usize);
    let mut rng = Rng::new(args.shard_seed() ^ 0xC09);
    let mut pristines = vec![];
    for backend in [Backend::Fs, Backend::Db] {
        let config = Config { backend, cipher: Default::default(), kdf: Default::default() };
        match setup::create_pristine(&args.dir.join(format!("pristine-{}", backend.name())), &config, &mut rng).await {
            Ok(p) => pristines.push(p),
            Err(e) => {
                rep.inconclusive(&format!("cannot create pristine account: {e}"));
                return;
            }
        }
    }
    for sc in 0..schedules {
        let pristine = &pristines[sc % 2];
        let backend = pristine.config.backend.name();
        let n = if rng.chance(1, 3) { 3 } else { 2 };
        let sched = Arc::new(Scheduler::free());
        let mut w = match World::from_pristine(&args.dir.join(format!("w{sc}")), pristine, n, rng.bool(), sched.clone()).await {
            Ok(w) => w,
            Err(e) => {
                rep.inconclusive(&format!("cannot build world: {e}"));
                continue;
            }
        };
        for d in 0..n {
            w.devices[d].now_ns += (d as i128) * 5 * MS + 7;
        }
        let pre = PRE[(sc / 2 + args.shard) % PRE.len()];
        let mut log: Vec<String> = vec![format!("pre-history: {pre}, {n} devices, {backend}")];
        if let Err(e) = pre_history(&mut w, &mut rng, pre, &mut log).await {
            rep.inconclusive(&format!("pre-history failed: {e}"));
            w.close().await;
            continue;
        }
        rep.count(&format!("pre:{pre}"), 1);
        rep.count(&format!("devices:{n}"), 1);
        // every event the server has ever held, per log
        let mut ever: BTreeMap<LogId, BTreeSet<[u8; 32]>> = BTreeMap::new();
        let mut server_prev = w.server_logs().await.unwrap_or_default();
        for (id, recs) in &server_prev {
            ever.entry(*id).or_default().extend(recs.iter().map(|r| r.commit));
        }

        // every event any device had committed before the concurrent phase
        let mut committed: BTreeMap<LogId, BTreeSet<[u8; 32]>> = BTreeMap::new();
        for d in 0..n {
            if let Ok(dl) = w.device_logs(d).await {
                for (id, recs) in &dl {
                    committed.entry(*id).or_default().extend(recs.iter().map(|r| r.commit));
                }
            }
        }

        // ---- concurrent syncs under the explore scheduler -------------------------------
        let (tx, mut rx) = mpsc::unbounded_channel::<Msg>();
        let (stx, mut srx) = mpsc::unbounded_channel::<Event>();
        sched.set_explore(stx);
        sched.reset_counts();
        let _ = sched.take_trace();
        // forward scheduler events into the controller's channel
        let txf = tx.clone();
        let fwd = tokio::spawn(async move {
            while let Some(ev) = srx.recv().await {
                if txf.send(Msg::Sched(ev)).is_err() {
                    break;
                }
            }
        });
        let mut handles = vec![];
        for d in 0..n {
            let bridge = w.devices[d].bridge.clone();
            let txd = tx.clone();
            handles.push(tokio::spawn(async move {
                let h = tokio::spawn(async move { bridge.execute_sync(&Default::default()).await });
                let r = match h.await {
                    Ok(Ok(_)) => Ok(()),
                    Ok(Err(e)) => Err(format!("{e}")),
                    Err(je) => {
                        if je.is_panic() {
                            let p = je.into_panic();
                            let msg = p.downcast_ref::<String>().cloned().or_else(|| p.downcast_ref::<&str>().map(|s| s.to_string())).unwrap_or_default();
                            Err(format!("PANIC {msg}"))
                        } else {
                            Err("cancelled".into())
                        }
                    }
                };
                let _ = txd.send(Msg::Done(d, r));
            }));
        }
        let mut running: BTreeSet<usize> = (0..n).collect();
        let mut parked: BTreeMap<usize, (&'static str, tokio::sync::oneshot::Sender<()>)> = BTreeMap::new();
        let mut done: BTreeMap<usize, Result<(), String>> = BTreeMap::new();
        let mut decisions: Vec<String> = vec![];
        let style = rng.below(3); // 0: random, 1: maximal preemption (round robin), 2: run-to-completion
        let mut last: Option<usize> = None;
        let mut stepped: Option<(usize, &'static str)> = None;
        let ctx_of = |log: &Vec<String>, decisions: &Vec<String>| json!({"log": log, "schedule": decisions, "backend": backend, "devices": n, "pre": pre});
        let mut abandoned = false;
        let mut steps = 0u64;
        loop {
            // wait until nothing is running
            while !running.is_empty() {
                match tokio::time::timeout(std::time::Duration::from_secs(120), rx.recv()).await {
                    Ok(Some(Msg::Sched(Event::Parked { device, kind, permit }))) => {
                        parked.insert(device, (kind, permit));
                        running.remove(&device);
                    }
                    Ok(Some(Msg::Done(d, r))) => {
                        done.insert(d, r);
                        running.remove(&d);
                    }
                    Ok(None) => {
                        running.clear();
                    }
                    Err(_) => {
                        rep.inconclusive("a released sync task neither parked nor finished within the wall-clock watchdog");
                        abandoned = true;
                        running.clear();
                    }
                }
            }
            if abandoned {
                break;
            }
            // ---- monitors for the step that just completed ----------------------------------
            if let Some((d, kind)) = stepped.take() {
                w.clock_out(d);
                steps += 1;
                rep.count("steps", 1);
                rep.count(&format!("request:{kind}"), 1);
                let now = w.server_logs().await.unwrap_or_default();
                let carried: Vec<Carried> = w.server.last_carried.lock().unwrap().clone();
                for (id, recs) in &now {
                    let old = server_prev.get(id).cloned().unwrap_or_default();
                    let oldc: Vec<[u8; 32]> = old.iter().map(|r| r.commit).collect();
                    let newc: Vec<[u8; 32]> = recs.iter().map(|r| r.commit).collect();
                    if oldc == newc {
                        continue;
                    }
                    rep.count("server_log_changes", 1);
                    let ctx = ctx_of(&log, &decisions);
                    let read_only = matches!(kind, "status" | "scan" | "diff" | "exists" | "fetch");
                    if read_only {
                        rep.violation(&format!("C09:{backend}:read_only_request_changed_server:{kind}"), &format!("a {kind} request of device {d} changed the server's {id:?} log"), ctx.clone());
                        continue;
                    }
                    // longest common prefix
                    let k = oldc.iter().zip(newc.iter()).take_while(|(a, b)| a == b).count();
                    let appended = &newc[k..];
                    let removed = &oldc[k..];
                    if kind == "sync" && !removed.is_empty() {
                        rep.violation(
                            &format!("C09:{backend}:sync_request_removed_events:{}", id.class()),
                            &format!("a sync (checked patch) request of device {d} removed {} event(s) from the server's {id:?} log", removed.len()),
                            ctx.clone(),
                        );
                    }
                    // what was appended must be exactly a patch this request carried for this log
                    let mine: Vec<&Carried> = carried.iter().filter(|c| c.device == d && c.log == *id).collect();
                    let whole = mine.iter().any(|c| {
                        // after a rewind the kept prefix may be shorter than the common prefix: compare suffixes
                        newc.ends_with(&c.commits) && (c.commits.len() >= appended.len())
                    });
                    // a folder log that did not exist before is created by a CreateFolder
                    // account event (carried in the account patch of the same request)
                    let created_by_account_event = oldc.is_empty() && matches!(id, LogId::Folder(_)) && carried.iter().any(|c| c.device == d && c.log == LogId::Account && !c.commits.is_empty());
                    if created_by_account_event {
                        rep.count("folder_logs_created_by_account_event", 1);
                    }
                    if !whole && !created_by_account_event && kind != "create" && kind != "update" {
                        rep.violation(
                            &format!("C09:{backend}:partial_or_foreign_patch:{kind}:{}", id.class()),
                            &format!("after a {kind} request of device {d} the server's {id:?} log ends in {:?}, which is not a whole patch that request carried ({:?})", appended.iter().map(hex3).collect::<Vec<_>>(), mine.iter().map(|c| c.commits.iter().map(hex3).collect::<Vec<_>>()).collect::<Vec<_>>()),
                            ctx.clone(),
                        );
                    }
                    ever.entry(*id).or_default().extend(newc.iter().copied());
                }
                server_prev = now;
            }
            if parked.is_empty() {
                break;
            }
            // ---- choose who goes next --------------------------------------------------------
            let candidates: Vec<usize> = parked.keys().copied().collect();
            let pick = match style {
                1 => {
                    // switch device whenever possible
                    candidates.iter().copied().find(|c| Some(*c) != last).unwrap_or(candidates[0])
                }
                2 => {
                    if let Some(l) = last.filter(|l| candidates.contains(l)) {
                        l
                    } else {
                        candidates[rng.usize(candidates.len())]
                    }
                }
                _ => candidates[rng.usize(candidates.len())],
            };
            let (kind, permit) = parked.remove(&pick).unwrap();
            decisions.push(format!("d{pick}:{kind}"));
            last = Some(pick);
            w.clock_in(pick);
            stepped = Some((pick, kind));
            running.insert(pick);
            if permit.send(()).is_err() {
                running.remove(&pick);
            }
            if steps > 400 {
                rep.violation(&format!("C09:{backend}:schedule_does_not_terminate"), "the concurrent syncs issued more than 400 requests in total", ctx_of(&log, &decisions));
                break;
            }
        }
        sched.set_free();
        fwd.abort();
        for h in handles {
            h.abort();
        }
        if abandoned {
            w.close().await;
            continue;
        }
        let mut sh = Fnv::new();
        for dcs in &decisions {
            sh.str(dcs);
        }
        sh.str(pre).str(backend);
        let preemptions = decisions.windows(2).filter(|w| w[0].split(':').next() != w[1].split(':').next()).count();
        rep.max("max:preemptions_in_a_schedule", preemptions as u64);
        rep.max("max:requests_in_a_schedule", decisions.len() as u64);
        rep.count("schedules", 1);
        rep.case(sh.finish(), preemptions >= 2);
        let ctx = ctx_of(&log, &decisions);
        // (3) every sync call ended
        for d in 0..n {
            match done.get(&d) {
                Some(Ok(())) => rep.count("sync_result:ok", 1),
                Some(Err(e)) if e.contains(BOUND_PANIC) => rep.violation(&format!("C09:{backend}:sync_request_bound"), &format!("device {d}: a single sync call issued more than the request bound under concurrency"), ctx.clone()),
                Some(Err(e)) if e.starts_with("PANIC") => rep.violation(&format!("C09:{backend}:sync_panicked"), &format!("device {d}: sync panicked under concurrency: {e}"), ctx.clone()),
                Some(Err(_)) => rep.count("sync_result:err", 1),
                None => rep.violation(&format!("C09:{backend}:sync_never_returned"), &format!("device {d}: the sync call neither returned nor parked"), ctx.clone()),
            }
        }
        // (2) no accepted event dropped (judged on the server after the concurrent phase)
        if let Ok(now) = w.server_logs().await {
            for (id, set) in &ever {
                let have: BTreeSet<[u8; 32]> = now.get(id).map(|r| r.iter().map(|x| x.commit).collect()).unwrap_or_default();
                let lost: Vec<String> = set.difference(&have).map(hex3).collect();
                if !lost.is_empty() {
                    rep.violation(
                        &format!("C09:{backend}:accepted_event_dropped:{}", id.class()),
                        &format!("{} event(s) the server had accepted into its {id:?} log are gone after the concurrent syncs: {lost:?}", lost.len()),
                        ctx.clone(),
                    );
                }
            }
            // (4) server tree == records
            if let Some(acc) = w.server.account(&w.account_id).await {
                use sos_sync::StorageEventLogs;
                let r = acc.read().await;
                if let Ok(fl) = r.folder_details().await {
                    for s in fl {
                        if let Ok(l) = r.folder_log(s.id()).await {
                            use sos_core::events::EventLog;
                            let l = l.read().await;
                            let leaves = l.tree().len();
                            let recs = now.get(&LogId::Folder(*s.id())).map(|v| v.len()).unwrap_or(0);
                            rep.count("server_tree_checks", 1);
                            if leaves != recs {
                                rep.violation(&format!("C09:{backend}:server_tree_differs_from_records"), &format!("server folder {} tree has {leaves} leaves, log {recs} records", s.id()), ctx.clone());
                            }
                        }
                    }
                }
            }
        }
        // (5) further sequential rounds converge
        let mut converged = false;
        let mut last_errors = vec![];
        for _round in 0..(2 * n + 2) {
            last_errors.clear();
            for d in 0..n {
                match w.sync(d).await {
                    SyncResult::Ok(_) => {}
                    other => last_errors.push(format!("d{d}: {other:?}").chars().take(200).collect::<String>()),
                }
            }
            if let Ok(ss) = w.server_status().await {
                let mut all = last_errors.is_empty();
                for d in 0..n {
                    match w.device_status(d).await {
                        Ok(ds) if status_diff(&ds, &ss).is_empty() => {}
                        _ => all = false,
                    }
                }
                if all {
                    converged = true;
                    break;
                }
            }
        }
        if converged {
            rep.count("converged_after_concurrency", 1);
            // (2b) after convergence nothing that was committed or accepted is lost for good
            if let Ok(now) = w.server_logs().await {
                for (id, set) in committed.iter().chain(ever.iter()) {
                    let have: BTreeSet<[u8; 32]> = now.get(id).map(|r| r.iter().map(|x| x.commit).collect()).unwrap_or_default();
                    let lost: Vec<String> = set.difference(&have).map(hex3).collect();
                    rep.count("lost_for_good_checks", 1);
                    if !lost.is_empty() {
                        rep.violation(
                            &format!("C09:{backend}:event_lost_after_convergence:{}", id.class()),
                            &format!("{} event(s) committed by a device or accepted by the server before/during the concurrent syncs are in no replica's {id:?} log after all replicas converged: {lost:?}", lost.len()),
                            ctx.clone(),
                        );
                        break;
                    }
                }
            }
            let mut views = vec![];
            for d in 0..n {
                let mut a = w.devices[d].account.lock().await;
                if let Ok((v, _)) = snapshot::live(&mut a).await {
                    views.push(v);
                }
            }
            for d in 1..views.len() {
                if let Some(first) = diff_views(&views[0], &views[d]).first() {
                    rep.violation(&format!("C09:{backend}:converged_but_folders_differ:{}", first.class), &format!("after concurrent syncs and convergence devices 0 and {d} serve different folders: {}", first.detail), ctx.clone());
                }
            }
        } else {
            // the two open C04 findings (non-unique event hashes) also prevent convergence here
            let mut dup = false;
            let mut same_index = false;
            if let Ok(sl) = w.server_logs().await {
                for d in 0..n {
                    if let Ok(dl) = w.device_logs(d).await {
                        for (id, recs) in &dl {
                            let set: BTreeSet<[u8; 32]> = recs.iter().map(|r| r.commit).collect();
                            if let Some(srv) = sl.get(id) {
                                let differs = srv.iter().map(|r| r.commit).collect::<Vec<_>>() != recs.iter().map(|r| r.commit).collect::<Vec<_>>();
                                if differs && set.len() != recs.len() {
                                    dup = true;
                                }
                                if let Some(fd) = recs.iter().zip(srv.iter()).position(|(a, b)| a.commit != b.commit) {
                                    if recs.iter().zip(srv.iter()).skip(fd).any(|(a, b)| a.commit == b.commit) {
                                        same_index = true;
                                    }
                                }
                            }
                        }
                    }
                }
            }
            let trigger = if dup { "repeated_event_hash_in_log" } else if same_index { "same_event_at_same_index_in_diverged_logs" } else { "other" };
            let mut differing = vec![];
            if let Ok(ss) = w.server_status().await {
                for d in 0..n {
                    if let Ok(ds) = w.device_status(d).await {
                        for x in status_diff(&ds, &ss) {
                            differing.push(format!("d{d}:{x}"));
                        }
                    }
                }
            }
            let mut detail = vec![];
            if let Ok(sl) = w.server_logs().await {
                for d in 0..n {
                    if let Ok(dl) = w.device_logs(d).await {
                        for (id, recs) in &dl {
                            if let Some(srv) = sl.get(id) {
                                let a: Vec<String> = recs.iter().map(|r| hex3(&r.commit)).collect();
                                let b: Vec<String> = srv.iter().map(|r| hex3(&r.commit)).collect();
                                if a != b {
                                    detail.push(json!({"device": d, "log": format!("{id:?}"), "device_log": a, "server_log": b}));
                                }
                            }
                        }
                    }
                }
            }
            let classes: BTreeSet<String> = differing.iter().map(|s| s.split(':').nth(1).unwrap_or("").to_string()).collect();
            let cls = if trigger == "other" { format!(":{}", classes.into_iter().collect::<Vec<_>>().join("+")) } else { String::new() };
            rep.violation(&format!("C09:{backend}:no_convergence_after_concurrency:{trigger}{cls}"), &format!("after the concurrent syncs, {} further sequential rounds did not converge; differing: {differing:?}; last errors {last_errors:?}", 2 * n + 2), json!({"ctx": ctx, "differing_logs": detail}));
        }
        if sc == 0 {
            rep.sample(json!({"pre": pre, "devices": n, "backend": backend, "schedule": decisions, "log": log}));
        }
        w.close().await;
    }
    for p in pristines {
        let _ = std::fs::remove_dir_all(&p.dir);
    }
}
