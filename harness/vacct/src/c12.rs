//! C12 — compaction and key changes keep the data and really change the key.
//!
//! Histories (incl. flag changes, renames, descriptions, deletes) are
//! interleaved with compact_folder / compact_account / change folder
//! password / change account password / change cipher+KDF in random order.
//! Around each such rewrite:
//!  * served folders before == after, on the live account, after a cold
//!    reopen with the NEW password, and as replay of the rewritten log;
//!  * each rewritten folder's log has exactly 1 + live-secrets events;
//!  * after a key change: the old account password cannot sign in, the old
//!    folder key does not verify against the persisted vault, and NO AEAD
//!    pack in the folder's log or vault decrypts under the old key; on the
//!    file system no old ciphertext bytes remain in the folder's files.
use crate::common::*;
use serde_json::json;
use sos_account::Account;
use sos_core::{
    crypto::{AccessKey, AeadPack, Cipher, PrivateKey},
    VaultId,
};
use std::collections::BTreeMap;
use std::sync::Arc;
use vkit::{Args, Fnv, Reporter, Rng};
use vmodel::ops::{Weights, CHOICES};
use vmodel::session::Session;
use vmodel::setup::{self, Backend, Config};
use vmodel::snapshot::{self, diff_views};

struct Before {
    keys: BTreeMap<VaultId, AccessKey>,
    derived: BTreeMap<VaultId, Arc<PrivateKey>>,
    packs: BTreeMap<VaultId, Vec<(String, AeadPack)>>,
    account_password: secrecy::SecretString,
}

async fn decrypts(pk: &PrivateKey, pack: &AeadPack) -> bool {
    for c in [Cipher::AesGcm256, Cipher::XChaCha20Poly1305] {
        if c.decrypt_symmetric(pk, pack).await.is_ok() {
            return true;
        }
    }
    false
}

pub async fn run(args: &Args, rep: &mut Reporter) {
    let histories_per_config = args.by_tier(2usize, 20usize);
    let steps = args.by_tier(36usize, 70usize);
    let mut rng = Rng::new(args.shard_seed() ^ 0xC12);
    for (ci, config) in Config::matrix().iter().enumerate() {
        let pdir = args.dir.join(format!("pristine{ci}"));
        let pristine = match setup::create_pristine(&pdir, config, &mut rng).await {
            Ok(p) => p,
            Err(e) => {
                rep.inconclusive(&format!("cannot create pristine account for {}: {e}", config.name()));
                continue;
            }
        };
        for h in 0..histories_per_config {
            let hdir = args.dir.join(format!("h{ci}_{h}"));
            let mut w = Weights::c01().with_rewrites();
            w.compact = 6;
            w.compact_account = 3;
            w.change_folder_pw = 5;
            w.change_account_pw = 3;
            w.change_cipher = 3;
            w.flags = 5;
            w.describe = 5;
            w.rename_folder = 4;
            let mut s = match Session::start(&pristine, &hdir, rng.fork(h as u64), w).await {
                Ok(s) => s,
                Err(e) => {
                    rep.inconclusive(&format!("cannot start session: {e}"));
                    continue;
                }
            };
            s.driver.allow_large = false;
            s.driver.max_file_bytes = 20_000;
            let backend = config.backend.name();
            let cname = config.name();
            let account_id = pristine.account_id;
            let mut hash = Fnv::new();
            let mut rewrites = 0u64;
            let mut stop = false;
            for st in 0..steps {
                if stop {
                    rep.count("histories_cut_short_after_violation", 1);
                    break;
                }
                let v0 = rep.violations();
                let choice = s.choose();
                let kind = CHOICES[choice];
                let is_rewrite = matches!(kind, "compact" | "compact_account" | "change_folder_pw" | "change_account_pw" | "change_cipher");
                let is_key_change = matches!(kind, "change_folder_pw" | "change_account_pw" | "change_cipher");
                let target = s.opened.as_ref().unwrap().target.clone();
                let mut before_view = None;
                let mut before = None;
                if is_rewrite {
                    before_view = s.live_view().await.ok().map(|v| v.0);
                    if let Ok(keys) = snapshot::folder_keys(s.account()).await {
                        let mut derived = BTreeMap::new();
                        let mut packs = BTreeMap::new();
                        for (f, k) in &keys {
                            if let Ok(v) = snapshot::mirror_vault(&target, &account_id, f).await {
                                if let Ok(pk) = snapshot::derive_cached(&v, k) {
                                    derived.insert(*f, pk);
                                }
                            }
                            if is_key_change {
                                if let Ok(p) = snapshot::packs_of_folder(s.account(), &target, &account_id, f).await {
                                    packs.insert(*f, p);
                                }
                            }
                        }
                        before = Some(Before { keys, derived, packs, account_password: s.driver.password.clone() });
                    }
                }
                let out = s.run_choice(choice).await;
                hash.str(&out.op);
                rep.count("steps", 1);
                rep.count(&format!("op:{}", out.kind), 1);
                let ctx = json!({"config": cname, "history": h, "step": st, "last_ops": tail(&s.driver.log, 12)});
                if let Err(e) = &out.result {
                    if out.legal {
                        rep.violation(&format!("C12:{backend}:op_failed:{}", out.kind), &format!("{} failed: {e}", out.op), json!({"ctx": ctx}));
                    }
                }
                // the rewrite actually ran (the driver may have substituted another op)
                let ran_rewrite = matches!(out.kind, "compact" | "compact_account" | "change_folder_pw" | "change_account_pw" | "change_cipher");
                if !(ran_rewrite && out.result.is_ok()) {
                    continue;
                }
                let (Some(before_view), Some(before)) = (before_view, before) else { continue };
                rewrites += 1;
                rep.count("rewrites_checked", 1);
                // (a) live before == after
                match s.live_view().await {
                    Ok((after, listing)) => {
                        report_diffs(rep, "C12", backend, "listing", out.kind, &listing, &ctx);
                        let d = diff_views(&before_view, &after);
                        report_diffs(rep, "C12", backend, "live_before_vs_after", out.kind, &d, &ctx);
                    }
                    Err(e) => report_snap_error(rep, "C12", backend, "live", out.kind, &e, &ctx),
                }
                // replay of the rewritten logs + log length clause
                let keys_after = match snapshot::folder_keys(s.account()).await {
                    Ok(k) => k,
                    Err(e) => {
                        report_snap_error(rep, "C12", backend, "keys", out.kind, &e, &ctx);
                        continue;
                    }
                };
                match snapshot::replay(s.account(), &keys_after).await {
                    Ok(replayed) => {
                        let d = diff_views(&before_view, &replayed);
                        report_diffs(rep, "C12", backend, "replay_vs_before", out.kind, &d, &ctx);
                    }
                    Err(e) => report_snap_error(rep, "C12", backend, "replay", out.kind, &e, &ctx),
                }
                for f in &out.rewrote {
                    if let (Ok(commits), Some(fv)) = (snapshot::log_commits(s.account(), f).await, before_view.folders.get(f)) {
                        rep.count("log_length_checks", 1);
                        if commits.len() != 1 + fv.secrets.len() {
                            rep.violation(
                                &format!("C12:{backend}:log_length:after_{}", out.kind),
                                &format!("after {} folder {f} has {} live secrets but its log has {} events (expected 1 + {})", out.op, fv.secrets.len(), commits.len(), fv.secrets.len()),
                                json!({"ctx": ctx, "folder": f.to_string(), "events": commits.len(), "secrets": fv.secrets.len()}),
                            );
                        }
                    }
                }
                // (b) cold reopen with the new password equals before
                match s.cold_reopen_view().await {
                    Ok((cold, listing)) => {
                        rep.count("cold_reopens", 1);
                        report_diffs(rep, "C12", backend, "reopen_listing", out.kind, &listing, &ctx);
                        let d = diff_views(&before_view, &cold);
                        report_diffs(rep, "C12", backend, "reopen_vs_before", out.kind, &d, &ctx);
                    }
                    Err(e) => report_snap_error(rep, "C12", backend, "reopen", out.kind, &e, &ctx),
                }
                if !matches!(out.kind, "change_folder_pw" | "change_account_pw" | "change_cipher") {
                    if rep.violations() > v0 {
                        stop = true;
                    }
                    continue;
                }
                // (c) old credentials stop working
                if out.kind == "change_account_pw" {
                    rep.count("old_account_password_probes", 1);
                    {
                        let o = s.opened.as_mut().unwrap();
                        let _ = o.account.sign_out().await;
                    }
                    let r = setup::open(&s.data_dir(), config.backend, &account_id, &before.account_password).await;
                    match r {
                        Ok(o) => {
                            o.close().await;
                            rep.violation(&format!("C12:{backend}:old_account_password_still_signs_in"), "after change_account_password a cold sign-in with the OLD password succeeds", json!({"ctx": ctx}));
                        }
                        Err(_) => {}
                    }
                    let key = s.driver.key();
                    if let Err(e) = s.account().sign_in(&key).await {
                        rep.violation(&format!("C12:{backend}:new_account_password_rejected"), &format!("sign-in with the new password failed: {e}"), json!({"ctx": ctx}));
                        stop = true;
                        continue;
                    }
                }
                let changed: Vec<VaultId> = match out.kind {
                    "change_folder_pw" => out.rewrote.clone(),
                    "change_cipher" => out.rewrote.clone(),
                    _ => vec![],
                };
                for f in &changed {
                    let (Some(old_key), Some(old_pk)) = (before.keys.get(f), before.derived.get(f)) else { continue };
                    let Ok(vault) = snapshot::mirror_vault(&target, &account_id, f).await else { continue };
                    rep.count("old_key_probes", 1);
                    // a cipher change keeps the folder passwords (the derived key changes)
                    if out.kind == "change_folder_pw" && vault.verify(old_key).await.is_ok() {
                        rep.violation(&format!("C12:{backend}:old_folder_key_still_unlocks:after_{}", out.kind), &format!("after {} the OLD key of folder {f} still verifies against the persisted vault", out.op), json!({"ctx": ctx}));
                    }
                    if let Some(new_key) = keys_after.get(f) {
                        if vault.verify(new_key).await.is_err() {
                            rep.violation(&format!("C12:{backend}:new_folder_key_rejected:after_{}", out.kind), &format!("after {} the NEW key of folder {f} does not verify", out.op), json!({"ctx": ctx}));
                        }
                    }
                    // (d) no pack under the old key remains in the folder's storage
                    match snapshot::packs_of_folder(s.account(), &target, &account_id, f).await {
                        Ok(packs) => {
                            for (origin, pack) in &packs {
                                rep.count("stale_key_decrypt_attempts", 1);
                                if decrypts(old_pk, pack).await {
                                    let place = origin.split(':').next().unwrap_or("").split('[').next().unwrap_or("").to_string();
                                    rep.violation(
                                        &format!("C12:{backend}:blob_under_old_key:{place}:after_{}", out.kind),
                                        &format!("after {} a blob at {origin} of folder {f} still decrypts with the OLD key", out.op),
                                        json!({"ctx": ctx, "origin": origin}),
                                    );
                                    break;
                                }
                            }
                        }
                        Err(e) => report_snap_error(rep, "C12", backend, "packs", out.kind, &e, &ctx),
                    }
                    // raw hunt for old ciphertext in the folder's own files (file system only)
                    if config.backend == Backend::Fs {
                        if let Some(old_packs) = before.packs.get(f) {
                            let tokens: Vec<Vec<u8>> = old_packs.iter().filter(|(_, p)| p.ciphertext.len() >= 24).map(|(_, p)| p.ciphertext[..24].to_vec()).collect();
                            if !tokens.is_empty() {
                                let vaults_dir = s.data_dir().join("local").join(account_id.to_string()).join("vaults");
                                let mut hits = 0;
                                let mut scanned = 0u64;
                                if let Ok(rd) = std::fs::read_dir(&vaults_dir) {
                                    for e in rd.flatten() {
                                        let name = e.file_name().to_string_lossy().to_string();
                                        if name.starts_with(&f.to_string()) {
                                            if let Ok(data) = std::fs::read(e.path()) {
                                                scanned += 1;
                                                for t in &tokens {
                                                    if data.windows(t.len()).any(|w| w == t.as_slice()) {
                                                        hits += 1;
                                                        rep.violation(
                                                            &format!("C12:fs:old_ciphertext_bytes_remain:after_{}", out.kind),
                                                            &format!("after {} file {name} still contains ciphertext bytes that were encrypted under the OLD key of folder {f}", out.op),
                                                            json!({"ctx": ctx, "file": name}),
                                                        );
                                                        break;
                                                    }
                                                }
                                            }
                                        }
                                        if hits > 0 {
                                            break;
                                        }
                                    }
                                }
                                rep.count("raw_old_ciphertext_files_scanned", scanned);
                            }
                        }
                    }
                }
                if rep.violations() > v0 {
                    stop = true;
                }
            }
            rep.case(hash.finish(), rewrites >= 2);
            if h == 0 && ci == 0 {
                rep.sample(json!({"config": cname, "steps": steps, "ops": s.driver.log.iter().take(14).collect::<Vec<_>>()}));
            }
            s.finish().await;
        }
        let _ = std::fs::remove_dir_all(&pdir);
    }
}
