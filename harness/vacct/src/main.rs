//! vacct: account-level monitors (C01 C02 C12 C13 C16 C18 C19 C20, C03 local part).
mod c01;
mod c02;
mod c02merge;
mod c12;
mod c13;
mod c16;
mod c18;
mod c20;
mod common;

#[global_allocator]
static ALLOC: vkit::alloc::Counting = vkit::alloc::Counting;

fn main() {
    let args = vkit::Args::parse();
    let prop = args.check[..3.min(args.check.len())].to_uppercase();
    let mut rep = vkit::Reporter::new(&prop, args.out.clone());
    if args.check == "c13child" {
        // one blocking thread: every file write of the child happens on the same thread, in
        // program order (strace counts injected faults per thread)
        let rt = tokio::runtime::Builder::new_current_thread().max_blocking_threads(1).enable_all().build().unwrap();
        let code = rt.block_on(c13::child(&args));
        std::process::exit(code);
    }
    let rt = tokio::runtime::Builder::new_multi_thread().worker_threads(2).enable_all().build().unwrap();
    match args.check.as_str() {
        "c01" => rt.block_on(c01::run(&args, &mut rep)),
        "c02" => rt.block_on(c02::run(&args, &mut rep)),
        "c02merge" => rt.block_on(c02merge::run(&args, &mut rep, "C02")),
        "c20merge" => rt.block_on(c02merge::run(&args, &mut rep, "C20")),
        "c12" => rt.block_on(c12::run(&args, &mut rep)),
        "c13" => rt.block_on(c13::run(&args, &mut rep)),
        "c16" => rt.block_on(c16::run(&args, &mut rep)),
        "c18" => rt.block_on(c18::run(&args, &mut rep)),
        "c20" => rt.block_on(c20::run(&args, &mut rep)),
        other => {
            eprintln!("vacct: unknown check {}", other);
            std::process::exit(2);
        }
    }
    rep.finish();
}
