//! Loopback sync transport.
//!
//! `LoopbackClient` implements the repo's `SyncClient` by calling exactly
//! what the axum handlers call (`sos_server::Backend` for account
//! create/update/fetch, `server_helpers::{sync_account, event_scan,
//! event_diff, event_patch}` under the account's read/write lock), after
//! encoding every request with `WireEncodeDecode` and decoding it again,
//! and the same for the reply: every byte that would travel is recorded.
//! `Bridge` pairs a `LocalAccount` with a client, so `execute_sync` is
//! the repo's own sync / auto-merge code, unmodified.
//!
//! Every call first passes the scheduler gate (see `sched.rs`).
use crate::sched::Scheduler;
use async_trait::async_trait;
use serde_json::json;
use sos_account::LocalAccount;
use sos_backend::BackendTarget;
use sos_core::{AccountId, Origin, Paths};
use sos_protocol::{
    transfer::{FileTransferQueueRequest, FileTransferQueueSender},
    DiffRequest, DiffResponse, NetworkError, PatchRequest, PatchResponse,
    ScanRequest, ScanResponse, SyncClient, WireEncodeDecode,
};
use sos_remote_sync::{AutoMerge, RemoteSyncHandler};
use sos_server::Backend;
use sos_server_storage::{server_helpers, ServerStorage};
use sos_sync::{CreateSet, SyncDirection, SyncPacket, SyncStatus, SyncStorage, UpdateSet};
use std::path::{Path, PathBuf};
use std::sync::{Arc, Mutex as StdMutex};
use tokio::sync::{Mutex, RwLock};

/// One recorded wire buffer.
#[derive(Clone)]
pub struct WireRecord {
    pub device: usize,
    pub kind: &'static str,
    pub direction: &'static str,
    pub bytes: Vec<u8>,
}

/// Whether new servers record every wire buffer from the start (C03).
pub static KEEP_WIRE_DEFAULT: std::sync::atomic::AtomicBool = std::sync::atomic::AtomicBool::new(false);

pub struct Server {
    pub backend: Arc<RwLock<Backend>>,
    pub dir: PathBuf,
    pub target: BackendTarget,
    pub wire: StdMutex<Vec<WireRecord>>,
    /// keep recorded buffers (C03) or only count them
    pub keep_wire: std::sync::atomic::AtomicBool,
    pub wire_bytes: StdMutex<u64>,
    /// what the most recent write request carried, per log: (rewind target, commits of the patch)
    pub last_carried: StdMutex<Vec<Carried>>,
}

/// The events one request asked the server to append to one log.
#[derive(Clone, Debug)]
pub struct Carried {
    pub device: usize,
    pub kind: &'static str,
    pub log: vmodel::logs::LogId,
    pub rewind_to: Option<[u8; 32]>,
    pub commits: Vec<[u8; 32]>,
}

impl Server {
    pub async fn new(dir: &Path, db: bool) -> anyhow::Result<Arc<Server>> {
        std::fs::create_dir_all(dir)?;
        Paths::scaffold(&dir.to_path_buf()).await?;
        let paths = Paths::new_server(dir);
        std::fs::create_dir_all(paths.local_dir())?;
        let target = if db {
            let mut client = sos_database::open_file(paths.database_file()).await?;
            sos_database::migrations::migrate_client(&mut client).await?;
            BackendTarget::Database(paths.clone(), client)
        } else {
            BackendTarget::FileSystem(paths.clone())
        };
        let backend = Backend::new(paths, target.clone());
        Ok(Arc::new(Server { backend: Arc::new(RwLock::new(backend)), dir: dir.to_path_buf(), target, wire: StdMutex::new(vec![]), keep_wire: std::sync::atomic::AtomicBool::new(KEEP_WIRE_DEFAULT.load(std::sync::atomic::Ordering::Relaxed)), wire_bytes: StdMutex::new(0), last_carried: StdMutex::new(vec![]) }))
    }

    pub async fn account(&self, account_id: &AccountId) -> Option<Arc<RwLock<ServerStorage>>> {
        let reader = self.backend.read().await;
        let accounts = reader.accounts();
        let accounts = accounts.read().await;
        accounts.get(account_id).cloned()
    }

    fn record(&self, device: usize, kind: &'static str, direction: &'static str, bytes: &[u8]) {
        *self.wire_bytes.lock().unwrap() += bytes.len() as u64;
        if self.keep_wire.load(std::sync::atomic::Ordering::Relaxed) {
            self.wire.lock().unwrap().push(WireRecord { device, kind, direction, bytes: bytes.to_vec() });
        }
    }
}

fn server_err(e: impl std::fmt::Display, status: u16) -> sos_protocol::Error {
    sos_protocol::Error::Network(NetworkError::ResponseJson(
        http::StatusCode::from_u16(status).unwrap(),
        json!({"message": e.to_string()}),
    ))
}

#[derive(Clone)]
pub struct LoopbackClient {
    pub origin: Origin,
    pub account_id: AccountId,
    pub server: Arc<Server>,
    pub device: usize,
    pub sched: Arc<Scheduler>,
}

impl LoopbackClient {
    pub fn new(server: Arc<Server>, account_id: AccountId, device: usize, sched: Arc<Scheduler>) -> Self {
        let url = url::Url::parse("http://loopback.invalid:5053").unwrap();
        LoopbackClient { origin: url.into(), account_id, server, device, sched }
    }

    /// Encode, record, decode: what arrives at the other side.
    async fn wire<T: WireEncodeDecode + Send + 'static>(&self, kind: &'static str, direction: &'static str, value: T) -> Result<T, sos_protocol::Error> {
        let bytes = value.encode().await?;
        self.server.record(self.device, kind, direction, &bytes);
        T::decode(bytes::Bytes::from(bytes)).await
    }

    async fn storage(&self) -> Result<Arc<RwLock<ServerStorage>>, sos_protocol::Error> {
        self.server.account(&self.account_id).await.ok_or_else(|| server_err("no account", 404))
    }
}

#[async_trait]
impl SyncClient for LoopbackClient {
    type Error = sos_protocol::Error;

    fn origin(&self) -> &Origin {
        &self.origin
    }

    async fn account_exists(&self) -> Result<bool, Self::Error> {
        self.sched.gate(self.device, "exists").await;
        let reader = self.server.backend.read().await;
        reader.account_exists(&self.account_id).await.map_err(|e| server_err(e, 500))
    }

    async fn create_account(&self, account: CreateSet) -> Result<(), Self::Error> {
        self.sched.gate(self.device, "create").await;
        let account = self.wire("create_account", "request", account).await?;
        {
            let reader = self.server.backend.read().await;
            if reader.account_exists(&self.account_id).await.map_err(|e| server_err(e, 500))? {
                return Err(server_err("conflict", 409));
            }
        }
        let mut writer = self.server.backend.write().await;
        writer.create_account(&self.account_id, account).await.map_err(|e| server_err(e, 500))
    }

    async fn update_account(&self, account: UpdateSet) -> Result<(), Self::Error> {
        self.sched.gate(self.device, "update").await;
        let account = self.wire("update_account", "request", account).await?;
        let mut writer = self.server.backend.write().await;
        writer.update_account(&self.account_id, account).await.map(|_| ()).map_err(|e| server_err(e, 500))
    }

    async fn fetch_account(&self) -> Result<CreateSet, Self::Error> {
        self.sched.gate(self.device, "fetch").await;
        let set = {
            let reader = self.server.backend.read().await;
            reader.fetch_account(&self.account_id).await.map_err(|e| server_err(e, 500))?
        };
        self.wire("fetch_account", "response", set).await
    }

    async fn delete_account(&self) -> Result<(), Self::Error> {
        self.sched.gate(self.device, "delete").await;
        let mut writer = self.server.backend.write().await;
        writer.delete_account(&self.account_id).await.map_err(|e| server_err(e, 500))
    }

    async fn sync_status(&self) -> Result<SyncStatus, Self::Error> {
        self.sched.gate(self.device, "status").await;
        let account = self.storage().await?;
        let status = {
            let reader = account.read().await;
            reader.sync_status().await.map_err(|e| server_err(e, 500))?
        };
        self.wire("sync_status", "response", status).await
    }

    async fn sync(&self, packet: SyncPacket) -> Result<SyncPacket, Self::Error> {
        self.sched.gate(self.device, "sync").await;
        let packet = self.wire("sync", "request", packet).await?;
        {
            use sos_sync::MaybeDiff;
            use vmodel::logs::LogId;
            let mut carried = vec![];
            let mut push = |log: LogId, commits: Vec<[u8; 32]>| carried.push(Carried { device: self.device, kind: "sync", log, rewind_to: None, commits });
            if let Some(MaybeDiff::Diff(d)) = &packet.diff.identity {
                push(LogId::Identity, d.patch.iter().map(|r| r.commit().0).collect());
            }
            if let Some(MaybeDiff::Diff(d)) = &packet.diff.account {
                push(LogId::Account, d.patch.iter().map(|r| r.commit().0).collect());
            }
            if let Some(MaybeDiff::Diff(d)) = &packet.diff.device {
                push(LogId::Device, d.patch.iter().map(|r| r.commit().0).collect());
            }
            if let Some(MaybeDiff::Diff(d)) = &packet.diff.files {
                push(LogId::Files, d.patch.iter().map(|r| r.commit().0).collect());
            }
            for (id, md) in &packet.diff.folders {
                if let MaybeDiff::Diff(d) = md {
                    push(LogId::Folder(*id), d.patch.iter().map(|r| r.commit().0).collect());
                }
            }
            *self.server.last_carried.lock().unwrap() = carried;
        }
        let account = self.storage().await?;
        let (packet, _outcome) = {
            let mut writer = account.write().await;
            server_helpers::sync_account::<_, sos_server::Error>(packet, &mut *writer).await.map_err(|e| server_err(e, 500))?
        };
        self.wire("sync", "response", packet).await
    }

    async fn scan(&self, request: ScanRequest) -> Result<ScanResponse, Self::Error> {
        self.sched.gate(self.device, "scan").await;
        let req = self.wire("scan", "request", request).await?;
        if req.limit > 256 {
            return Err(server_err("bad request", 400));
        }
        let account = self.storage().await?;
        let response = {
            let reader = account.read().await;
            server_helpers::event_scan::<_, sos_server::Error>(&req, &*reader).await.map_err(|e| server_err(e, 500))?
        };
        self.wire("scan", "response", response).await
    }

    async fn diff(&self, request: DiffRequest) -> Result<DiffResponse, Self::Error> {
        self.sched.gate(self.device, "diff").await;
        let req = self.wire("diff", "request", request).await?;
        let account = self.storage().await?;
        let response = {
            let reader = account.read().await;
            server_helpers::event_diff::<_, sos_server::Error>(&req, &*reader).await.map_err(|e| server_err(e, 500))?
        };
        self.wire("diff", "response", response).await
    }

    async fn patch(&self, request: PatchRequest) -> Result<PatchResponse, Self::Error> {
        self.sched.gate(self.device, "patch").await;
        let req = self.wire("patch", "request", request).await?;
        {
            use sos_core::events::EventLogType;
            use vmodel::logs::LogId;
            let log = match req.log_type {
                EventLogType::Identity => LogId::Identity,
                EventLogType::Account => LogId::Account,
                EventLogType::Device => LogId::Device,
                EventLogType::Files => LogId::Files,
                EventLogType::Folder(id) => LogId::Folder(id),
            };
            *self.server.last_carried.lock().unwrap() = vec![Carried { device: self.device, kind: "patch", log, rewind_to: req.commit.map(|c| c.0), commits: req.patch.iter().map(|r| r.commit().0).collect() }];
        }
        let account = self.storage().await?;
        let (response, _outcome) = {
            let mut writer = account.write().await;
            server_helpers::event_patch::<_, sos_server::Error>(req, &mut *writer).await.map_err(|e| server_err(e, 500))?
        };
        self.wire("patch", "response", response).await
    }
}

/// A local account bridged to the loopback server: the repo's
/// `RemoteSyncHandler + AutoMerge` over `LoopbackClient`.
#[derive(Clone)]
pub struct Bridge {
    pub account_id: AccountId,
    pub account: Arc<Mutex<LocalAccount>>,
    pub client: LoopbackClient,
    pub queue: FileTransferQueueSender,
}

impl Bridge {
    pub fn new(account: Arc<Mutex<LocalAccount>>, client: LoopbackClient) -> Self {
        let (queue, _) = tokio::sync::broadcast::channel::<FileTransferQueueRequest>(32);
        Bridge { account_id: client.account_id, account, client, queue }
    }
}

#[async_trait]
impl RemoteSyncHandler for Bridge {
    type Client = LoopbackClient;
    type Account = LocalAccount;
    type Error = sos_net::Error;

    fn direction(&self) -> SyncDirection {
        SyncDirection::Push
    }
    fn client(&self) -> &Self::Client {
        &self.client
    }
    fn origin(&self) -> &Origin {
        &self.client.origin
    }
    fn account_id(&self) -> &AccountId {
        &self.account_id
    }
    fn account(&self) -> Arc<Mutex<Self::Account>> {
        self.account.clone()
    }
    fn file_transfer_queue(&self) -> &FileTransferQueueSender {
        &self.queue
    }
    async fn execute_sync_file_transfers(&self) -> Result<(), Self::Error> {
        Ok(())
    }
}

#[async_trait]
impl AutoMerge for Bridge {}
