//! C11 — the server acts only for requests signed by a trusted device
//! (real HTTP against an in-process `sos_server`), and the server part of
//! C15 (`run_c15_http`): malformed request bodies get an error response
//! while the server keeps serving.
//!
//! C11 is a product enumeration: route x method x credential form x access
//! configuration. The route table is written down here from
//! `crates/server/src/server.rs` AND discovered at run time (route literals
//! parsed from that source file, the OpenAPI document the server publishes,
//! and a dictionary of plausible paths): anything that answers other than
//! 404/405 to an unauthenticated probe and is neither in the table nor on
//! the short list of public routes is tested as an unlisted route.
//!
//! Oracle per request:
//!  * valid credential of an account the configuration admits => the handler
//!    is reached (status not 400/401/403);
//!  * every invalid credential form => status 4xx AND the server fingerprint
//!    (directory listing with sha256, per-account sync status and trusted
//!    device keys held in memory, websocket connection count) is unchanged;
//!  * an account on the deny list / absent from the allow list => refused
//!    with any credential on every route, including creation of an account
//!    that does not exist yet.
use crate::http::{self, Access, HttpDevice, RawErr, RawReq, RawResp, TestServer};
use serde_json::{json, Value};
use sos_account::Account;
use sos_client_storage::AccessOptions;
use sos_core::device::TrustedDevice;
use sos_core::events::{DeviceEvent, EventLog, EventLogType};
use sos_core::{AccountId, ExternalFile, ExternalFileName, SecretId, SecretPath, VaultId};
use sos_protocol::transfer::{FileSet, FileSyncClient};
use sos_protocol::{DiffRequest, PatchRequest, ScanRequest, SyncClient, WireEncodeDecode};
use sos_signer::ed25519::BoxedEd25519Signer;
use sos_sync::{StorageEventLogs, SyncPacket, SyncStorage, UpdateSet};
use sos_vault::secret::{FileContent, Secret, SecretMeta};
use std::collections::{BTreeMap, BTreeSet};
use std::path::Path;
use std::time::Duration;
use vkit::{Args, Fnv, Reporter, Rng};
use vmodel::setup::{self, Backend};

const V1: &str = "/api/v1";
const WAIT: Duration = Duration::from_secs(30);
const CONN: &str = "connection_id=verif";

#[derive(Clone, Copy, PartialEq, Eq, Debug)]
enum Subject {
    Body,
    Path,
}

#[derive(Clone, Debug)]
struct Route {
    /// shape name, e.g. `PUT /api/v1/sync/file/{vault_id}/{secret_id}/{file_name}`
    name: String,
    method: &'static str,
    path: String,
    extra_query: String,
    subject: Subject,
    body: Option<Vec<u8>>,
    ws: bool,
    /// HEAD alias of a GET route / unlisted discovered route: invalid forms only
    probe_only: bool,
    /// position in the sequence of valid controls (destructive ones last)
    order: u32,
}

impl Route {
    fn target(&self) -> String {
        if self.extra_query.is_empty() {
            format!("{}?{}", self.path, CONN)
        } else {
            format!("{}?{}&{}", self.path, CONN, self.extra_query)
        }
    }
    fn subject_bytes(&self) -> Vec<u8> {
        match self.subject {
            Subject::Body => self.body.clone().unwrap_or_default(),
            Subject::Path => self.path.as_bytes().to_vec(),
        }
    }
}

struct Ident {
    name: &'static str,
    id: AccountId,
    signer: BoxedEd25519Signer,
}

struct Material {
    a: Ident,
    b: Ident,
    /// an account that exists only on its owner's disk
    c: Ident,
    c_create: Vec<u8>,
    revoked: BoxedEd25519Signer,
    routes: Vec<Route>,
    f1: ExternalFile,
    f2: ExternalFile,
}

const INVALID_FORMS: &[&str] = &[
    "none",
    "malformed_base58",
    "short_signature",
    "empty_bearer",
    "basic_scheme",
    "legacy_dotted_token",
    "unknown_key",
    "revoked_key",
    "body_byte_appended",
    "body_bit_flipped",
    "body_last_byte_dropped",
    "sig_over_other_path",
    "sig_over_path_and_query",
    "sig_over_wrong_subject",
    "other_account_key",
    "other_account_target",
    "missing_account_header",
    "garbage_account_header",
    "unknown_account_header",
];

fn ws_headers(h: &mut Vec<(String, String)>) {
    h.push(("connection".into(), "Upgrade".into()));
    h.push(("upgrade".into(), "websocket".into()));
    h.push(("sec-websocket-version".into(), "13".into()));
    h.push(("sec-websocket-key".into(), "dGhlIHNhbXBsZSBub25jZQ==".into()));
}

/// Build the request for (route, form). `None` = the form does not apply.
async fn build(m: &Material, r: &Route, form: &str, who: &Ident) -> Option<RawReq> {
    let mut headers: Vec<(String, String)> = vec![];
    let mut body = r.body.clone();
    let mut account: Option<String> = Some(who.id.to_string());
    let subject = r.subject_bytes();
    let valid = http::bearer_for(&who.signer, &subject).await;
    let mut auth: Option<String> = Some(format!("Bearer {valid}"));
    match form {
        "valid" => {}
        "none" => auth = None,
        "malformed_base58" => auth = Some("Bearer 0OIl+/not=base58".into()),
        "short_signature" => {
            let raw = bs58::decode(&valid).into_vec().ok()?;
            auth = Some(format!("Bearer {}", bs58::encode(&raw[..40.min(raw.len())]).into_string()));
        }
        "empty_bearer" => auth = Some("Bearer ".into()),
        "basic_scheme" => auth = Some(format!("Basic {valid}")),
        "legacy_dotted_token" => auth = Some(format!("Bearer {valid}.{valid}")),
        "unknown_key" => auth = Some(format!("Bearer {}", http::bearer_for(&http::fresh_signer(), &subject).await)),
        "revoked_key" => auth = Some(format!("Bearer {}", http::bearer_for(&m.revoked, &subject).await)),
        "body_byte_appended" => {
            if r.subject != Subject::Body {
                return None;
            }
            let mut b = body.clone().unwrap_or_default();
            b.push(0);
            body = Some(b);
        }
        "body_bit_flipped" => {
            if r.subject != Subject::Body {
                return None;
            }
            let mut b = body.clone().unwrap_or_default();
            if b.is_empty() {
                return None;
            }
            // deterministic position derived from the body itself
            let i = (vkit::fnv64(&b) as usize) % b.len();
            b[i] ^= 0x01;
            body = Some(b);
        }
        "body_last_byte_dropped" => {
            if r.subject != Subject::Body {
                return None;
            }
            let mut b = body.clone().unwrap_or_default();
            if b.pop().is_none() {
                return None;
            }
            body = Some(b);
        }
        "sig_over_other_path" => {
            if r.subject != Subject::Path {
                return None;
            }
            let other = if r.path.ends_with("/status") { format!("{V1}/sync/account") } else { format!("{V1}/sync/account/status") };
            auth = Some(format!("Bearer {}", http::bearer_for(&who.signer, other.as_bytes()).await));
        }
        "sig_over_path_and_query" => {
            if r.subject != Subject::Path {
                return None;
            }
            auth = Some(format!("Bearer {}", http::bearer_for(&who.signer, r.target().as_bytes()).await));
        }
        "sig_over_wrong_subject" => {
            let other: Vec<u8> = match (r.subject, &r.body) {
                (Subject::Body, _) => r.path.as_bytes().to_vec(),
                (Subject::Path, Some(b)) if !b.is_empty() => b.clone(),
                _ => return None,
            };
            auth = Some(format!("Bearer {}", http::bearer_for(&who.signer, &other).await));
        }
        "other_account_key" => auth = Some(format!("Bearer {}", http::bearer_for(&m.b.signer, &subject).await)),
        "other_account_target" => account = Some(m.b.id.to_string()),
        "missing_account_header" => account = None,
        "garbage_account_header" => account = Some("not-an-account-id".into()),
        "unknown_account_header" => {
            // creation of a NEW account is permissionless by design
            if r.method == "PUT" && r.path.replace("//", "/") == format!("{V1}/sync/account") {
                return None;
            }
            account = Some(AccountId::random().to_string());
        }
        _ => return None,
    }
    if let Some(a) = account {
        headers.push((http::ACCOUNT_HEADER.into(), a));
    }
    if let Some(a) = auth {
        headers.push(("authorization".into(), a));
    }
    if body.is_some() {
        headers.push(("content-type".into(), "application/x-protobuf".into()));
    }
    if r.ws {
        ws_headers(&mut headers);
    }
    Some(RawReq { method: r.method.to_string(), target: r.target(), headers, body })
}

async fn connections(client: &reqwest::Client, server: &TestServer) -> String {
    let req = RawReq { method: "GET".into(), target: format!("{V1}/sync/connections"), headers: vec![], body: None };
    match http::raw(client, &server.url, &req, WAIT).await {
        Ok(r) => String::from_utf8_lossy(&r.body).to_string(),
        Err(e) => format!("{e:?}"),
    }
}

async fn full_fingerprint(client: &reqwest::Client, server: &TestServer) -> BTreeMap<String, String> {
    let mut fp = http::fingerprint(server).await;
    fp.insert("net:websocket_connections".into(), connections(client, server).await);
    fp
}

fn replay(args: &Args, server_db: bool, cfg: &str, r: &Route, form: &str, who: &str, req: &RawReq, resp: Option<&RawResp>) -> Value {
    json!({
        "check": "c11", "seed": args.seed, "shard": format!("{}/{}", args.shard, args.shards), "tier": args.tier,
        "server_backend": if server_db { "db" } else { "fs" },
        "config": cfg, "route": r.name, "method": req.method, "target": req.target, "form": form, "identity": who,
        "headers": http::json_headers(&req.headers),
        "body_len": req.body.as_ref().map(|b| b.len()),
        "status": resp.map(|r| r.status),
        "response_body": resp.map(|r| String::from_utf8_lossy(&r.body[..r.body.len().min(300)]).to_string()),
    })
}

// ------------------------------------------------------------------ set-up

async fn create_file_secret(dev: &HttpDevice, folder: &VaultId, dir: &Path, rng: &mut Rng, bytes: usize) -> anyhow::Result<(SecretId, ExternalFile, Vec<u8>)> {
    std::fs::create_dir_all(dir)?;
    let path = dir.join(format!("att-{}.bin", rng.token(8)));
    let plain = rng.bytes(bytes);
    std::fs::write(&path, &plain)?;
    let secret: Secret = path.clone().try_into()?;
    let meta = SecretMeta::new(format!("file {}", rng.token(6)), secret.kind());
    let mut a = dev.account.lock().await;
    let ch = a.create_secret(meta, secret, AccessOptions { folder: Some(*folder), ..Default::default() }).await?;
    let (row, _) = a.read_secret(&ch.id, Some(folder)).await?;
    let name: ExternalFileName = match row.secret() {
        Secret::File { content: FileContent::External { checksum, .. }, .. } => (*checksum).into(),
        _ => anyhow::bail!("file secret read back as something else"),
    };
    let _ = std::fs::remove_file(&path);
    Ok((ch.id, ExternalFile::new(SecretPath(*folder, ch.id), name), plain))
}

struct Stage {
    material: Material,
    snapshot: std::path::PathBuf,
    devices: Vec<HttpDevice>,
}

/// Build the staged server directory: accounts A and B exist on the
/// server, A has one uploaded blob (f1) and one local-only blob (f2), a
/// second device key of A was trusted, synced, then revoked and synced.
async fn build_stage(args: &Args, rep: &mut Reporter, rng: &mut Rng, base: &Path, server_db: bool) -> anyhow::Result<Stage> {
    let client_backend = Backend::Fs;
    let pa = http::pristine(&base.join("pristine-a"), client_backend, rng).await?;
    let pb = http::pristine(&base.join("pristine-b"), client_backend, rng).await?;
    let pc = http::pristine(&base.join("pristine-c"), client_backend, rng).await?;
    let snapshot = base.join("server-stage");
    let server = TestServer::start(&snapshot, &Access::none(), server_db).await?;
    let a = HttpDevice::from_pristine(&pa, &base.join("dev-a"), &server.origin, "dev-a").await?;
    let b = HttpDevice::from_pristine(&pb, &base.join("dev-b"), &server.origin, "dev-b").await?;
    let c = HttpDevice::from_pristine(&pc, &base.join("dev-c"), &server.origin, "dev-c").await?;
    a.sync().await.map_err(|e| anyhow::anyhow!("initial sync of A: {e}"))?;
    b.sync().await.map_err(|e| anyhow::anyhow!("initial sync of B: {e}"))?;

    // file secrets
    let folder = {
        let acc = a.account.lock().await;
        *acc.default_folder().await.ok_or_else(|| anyhow::anyhow!("no default folder"))?.id()
    };
    let files_dir = base.join("tmp-files");
    let (_s1, f1, _) = create_file_secret(&a, &folder, &files_dir, rng, 3000).await?;
    let (_s2, f2, _) = create_file_secret(&a, &folder, &files_dir, rng, 1800).await?;
    a.sync().await.map_err(|e| anyhow::anyhow!("sync after file secrets: {e}"))?;
    {
        let paths = { a.account.lock().await.paths() };
        let p1 = paths.into_file_path(&f1);
        let (ptx, mut prx) = tokio::sync::mpsc::channel(64);
        tokio::spawn(async move { while prx.recv().await.is_some() {} });
        let (_ctx, crx) = tokio::sync::watch::channel(Default::default());
        let st = a.client().upload_file(&f1, &p1, ptx, crx).await.map_err(|e| anyhow::anyhow!("upload f1: {e}"))?;
        if !st.is_success() {
            anyhow::bail!("upload of f1 answered {st}");
        }
    }

    // second device: trust, sync, check it is served, revoke, sync
    let revoked = http::fresh_signer();
    let revoked_pk: sos_core::device::DevicePublicKey = revoked.verifying_key().as_bytes().into();
    {
        let mut acc = a.account.lock().await;
        acc.patch_devices_unchecked(&[DeviceEvent::Trust(TrustedDevice::new(revoked_pk, None, None))]).await?;
    }
    a.sync().await.map_err(|e| anyhow::anyhow!("sync after trusting the second device: {e}"))?;
    let raw = http::raw_client();
    let status_path = format!("{V1}/sync/account/status");
    let probe = |signer: BoxedEd25519Signer, id: AccountId| {
        let status_path = status_path.clone();
        async move {
            let bearer = http::bearer_for(&signer, status_path.as_bytes()).await;
            RawReq { method: "GET".into(), target: format!("{status_path}?{CONN}"), headers: vec![(http::ACCOUNT_HEADER.into(), id.to_string()), ("authorization".into(), format!("Bearer {bearer}"))], body: None }
        }
    };
    let pre = http::raw(&raw, &server.url, &probe(revoked.clone(), pa.account_id).await, WAIT).await;
    match pre {
        Ok(r) if r.status == 200 => rep.count("second_device_served_before_revoke", 1),
        Ok(r) => anyhow::bail!("the freshly trusted second device was answered {} before revocation", r.status),
        Err(e) => anyhow::bail!("no answer for the second device before revocation: {e:?}"),
    }
    // the revocation reaches the server in one of several shapes (the trusted set is the
    // replay of the whole device log, whatever the shape of the patch that carried the events)
    let shape = ["lone_revoke", "retrust_then_revoke_in_one_patch", "revoke_trust_revoke_in_one_patch", "revoke_with_unrelated_trust"][(args.shard + args.seed as usize) % 4];
    {
        let mut acc = a.account.lock().await;
        let trust = || DeviceEvent::Trust(TrustedDevice::new(revoked_pk, None, None));
        match shape {
            "lone_revoke" => acc.revoke_device(&revoked_pk).await?,
            "retrust_then_revoke_in_one_patch" => acc.patch_devices_unchecked(&[trust(), DeviceEvent::Revoke(revoked_pk)]).await?,
            "revoke_trust_revoke_in_one_patch" => acc.patch_devices_unchecked(&[DeviceEvent::Revoke(revoked_pk), trust(), DeviceEvent::Revoke(revoked_pk)]).await?,
            _ => {
                let other = http::fresh_signer();
                let other_pk: sos_core::device::DevicePublicKey = other.verifying_key().as_bytes().into();
                acc.patch_devices_unchecked(&[DeviceEvent::Trust(TrustedDevice::new(other_pk, None, None)), DeviceEvent::Revoke(revoked_pk)]).await?
            }
        }
    }
    rep.count(&format!("revocation_shape:{shape}"), 1);
    a.sync().await.map_err(|e| anyhow::anyhow!("sync after revoking the second device: {e}"))?;
    let trusted = server.trusted_keys(&pa.account_id).await.unwrap_or_default();
    if trusted.contains(&hex::encode(revoked_pk.as_ref())) {
        rep.violation(
            "C11:revocation_synced:server_still_trusts_device",
            &format!("after the owner revoked a device ({shape}) and synced without error, the running server still lists the device key as trusted"),
            json!({"check": "c11", "seed": args.seed, "shard": args.shard, "revocation_shape": shape, "server_backend": if server_db {"db"} else {"fs"}}),
        );
    }
    rep.count("revocations_synced", 1);

    // ---- request bodies
    // A's local, unsynced changes make the sync / patch / update bodies
    // "hot": if the server accepted them its state would change (an
    // attacker-chosen device key would become trusted).
    let server_status = a.client().sync_status().await.map_err(|e| anyhow::anyhow!("sync_status: {e}"))?;
    let attacker = http::fresh_signer();
    let attacker_pk: sos_core::device::DevicePublicKey = attacker.verifying_key().as_bytes().into();
    let (create_a, packet, patch_req, update_set, file_set) = {
        let mut acc = a.account.lock().await;
        acc.patch_devices_unchecked(&[DeviceEvent::Trust(TrustedDevice::new(attacker_pk, None, None))]).await?;
        let meta = SecretMeta::new("unsynced note".into(), sos_vault::secret::SecretType::Note);
        acc.create_secret(meta, Secret::Note { text: "unsynced".to_string().into(), user_data: Default::default() }, AccessOptions { folder: Some(folder), ..Default::default() }).await?;
        let create_a = acc.create_set().await?.encode().await?;
        let (_needs, local_status, diff) = sos_protocol::diff::<_, sos_net::Error>(&*acc, server_status.clone()).await?;
        let packet = SyncPacket { status: local_status, diff, compare: None }.encode().await?;
        let device_log = acc.device_log().await?;
        let device_log = device_log.read().await;
        let records = device_log.diff_records(Some(&server_status.device.0)).await?;
        let patch_req = PatchRequest { log_type: EventLogType::Device, commit: None, proof: server_status.device.1.clone(), patch: records }.encode().await?;
        let update_set = UpdateSet { device: Some(device_log.diff_unchecked().await?), ..Default::default() }.encode().await?;
        let files = acc.canonical_files().await?;
        let file_set = FileSet(files).encode().await?;
        (create_a, packet, patch_req, update_set, file_set)
    };
    let scan = ScanRequest { log_type: EventLogType::Identity, limit: 16, offset: 0 }.encode().await?;
    let diff = DiffRequest { log_type: EventLogType::Identity, from_hash: None }.encode().await?;
    let f2_bytes = {
        let paths = { a.account.lock().await.paths() };
        std::fs::read(paths.into_file_path(&f2))?
    };
    let c_create = {
        let acc = c.account.lock().await;
        acc.create_set().await?.encode().await?
    };

    let acct = format!("{V1}/sync/account");
    let events = format!("{V1}/sync/account/events");
    let file_tpl = format!("{V1}/sync/file/{{vault_id}}/{{secret_id}}/{{file_name}}");
    let f1_path = format!("{V1}/sync/file/{f1}");
    let f2_path = format!("{V1}/sync/file/{f2}");
    let move_query = format!("vault_id={}&secret_id={}&name={}", f1.vault_id(), SecretId::new_v4(), f1.file_name());
    let mk = |method: &'static str, tpl: &str, path: &str, subject: Subject, body: Option<Vec<u8>>, order: u32| Route {
        name: format!("{method} {tpl}"),
        method,
        path: path.to_string(),
        extra_query: String::new(),
        subject,
        body,
        ws: false,
        probe_only: false,
        order,
    };
    let mut routes = vec![
        mk("HEAD", &acct, &acct, Subject::Path, None, 1),
        mk("GET", &acct, &acct, Subject::Path, None, 2),
        mk("GET", &format!("{acct}/status"), &format!("{acct}/status"), Subject::Path, None, 3),
        mk("GET", &events, &events, Subject::Body, Some(scan), 4),
        mk("POST", &events, &events, Subject::Body, Some(diff), 5),
        mk("POST", &format!("{V1}/sync/files"), &format!("{V1}/sync/files"), Subject::Path, Some(file_set), 6),
        mk("GET", &file_tpl, &f1_path, Subject::Path, None, 7),
        Route { ws: true, ..mk("GET", &format!("{V1}/sync/changes"), &format!("{V1}/sync/changes"), Subject::Path, None, 8) },
        mk("PUT", &file_tpl, &f2_path, Subject::Path, Some(f2_bytes), 9),
        Route { extra_query: move_query, ..mk("POST", &file_tpl, &f1_path, Subject::Path, None, 10) },
        mk("DELETE", &file_tpl, &f2_path, Subject::Path, None, 11),
        mk("PATCH", &events, &events, Subject::Body, Some(patch_req), 12),
        mk("PATCH", &acct, &acct, Subject::Body, Some(packet), 13),
        mk("POST", &acct, &acct, Subject::Body, Some(update_set), 14),
        mk("PUT", &acct, &acct, Subject::Body, Some(create_a), 15),
        mk("DELETE", &acct, &acct, Subject::Path, None, 99),
    ];
    // HEAD is answered by every GET route: same protection expected
    let aliases: Vec<Route> = routes.iter().filter(|r| r.method == "GET").map(|r| Route { name: r.name.replacen("GET", "HEAD", 1), method: "HEAD", body: None, subject: Subject::Path, probe_only: true, ..r.clone() }).collect();
    routes.extend(aliases);
    // for the invalid forms DELETE of the uploaded file is the sensitive one
    let del_f1 = Route { name: format!("DELETE {file_tpl}"), path: f1_path.clone(), probe_only: true, ..mk("DELETE", &file_tpl, &f1_path, Subject::Path, None, 0) };
    routes.push(del_f1);

    let material = Material {
        a: Ident { name: "me", id: pa.account_id, signer: a.signer.clone() },
        b: Ident { name: "other", id: pb.account_id, signer: b.signer.clone() },
        c: Ident { name: "new", id: pc.account_id, signer: c.signer.clone() },
        c_create,
        revoked,
        routes,
        f1,
        f2,
    };
    server.shutdown().await;
    Ok(Stage { material, snapshot, devices: vec![a, b, c] })
}

// --------------------------------------------------------------- discovery

/// Route literals of `Server::router` parsed from the source text.
fn parse_router_source() -> Vec<(String, Vec<&'static str>)> {
    let Ok(text) = std::fs::read_to_string("/repo/crates/server/src/server.rs") else { return vec![] };
    let mut out = vec![];
    let mut rest = text.as_str();
    while let Some(i) = rest.find(".route(") {
        rest = &rest[i + 7..];
        let t = rest.trim_start();
        if !t.starts_with('"') {
            continue;
        }
        let t = &t[1..];
        let Some(end) = t.find('"') else { break };
        let path = t[..end].to_string();
        let seg_end = t.find(".route(").unwrap_or(t.len()).min(t.find(';').unwrap_or(t.len()));
        let seg = &t[end..seg_end];
        let mut methods = vec![];
        for m in ["get", "post", "put", "patch", "delete", "head"] {
            let pat = format!("{m}(");
            let mut s = seg;
            let mut found = false;
            while let Some(j) = s.find(&pat) {
                let before = s[..j].chars().last();
                if !before.map(|c| c.is_alphanumeric() || c == '_').unwrap_or(false) {
                    found = true;
                    break;
                }
                s = &s[j + pat.len()..];
            }
            if found {
                methods.push(match m {
                    "get" => "GET",
                    "post" => "POST",
                    "put" => "PUT",
                    "patch" => "PATCH",
                    "delete" => "DELETE",
                    _ => "HEAD",
                });
            }
        }
        out.push((path, methods));
    }
    out
}

const PUBLIC: &[&str] = &["/", "/api/v1", "/api/v1/", "/api/v1/docs", "/api/v1/docs/", "/api/v1/docs/openapi.json", "/api/v1/sync/connections", "/api/v1/relay"];

const DICTIONARY: &[&str] = &[
    "/api", "/api/", "/api/v2", "/api/v2/sync/account", "/api/v1/sync", "/api/v1/sync/", "/api/v1/sync/account/", "/api/v1/sync/account/status/", "/api/v1/sync/account/devices",
    "/api/v1/sync/account/device", "/api/v1/sync/account/identity", "/api/v1/sync/account/recover", "/api/v1/sync/account/folders", "/api/v1/sync/account/files", "/api/v1/sync/accounts",
    "/api/v1/accounts", "/api/v1/account", "/api/v1/sync/file", "/api/v1/sync/files/", "/api/v1/sync/folders", "/api/v1/sync/device", "/api/v1/sync/devices", "/api/v1/sync/events",
    "/api/v1/sync/status", "/api/v1/admin", "/api/v1/debug", "/api/v1/health", "/api/v1/metrics", "/metrics", "/health", "/status", "/api/v1//sync/account", "/api/v1/sync//account",
    "/API/V1/sync/account", "/api/v1/sync/account%2Fstatus", "/api/v1/sync/account;x=1", "/sync/account", "/sync/account/status", "/sync/files", "/relay",
];

/// Returns (live (method, template, concrete path)) for everything that is
/// neither 404 nor 405 without credentials.
async fn discover(client: &reqwest::Client, server: &TestServer, m: &Material, rep: &mut Reporter) -> Vec<(String, String, String, u16)> {
    let mut candidates: BTreeSet<String> = BTreeSet::new();
    for (p, _) in parse_router_source() {
        candidates.insert(p.clone());
        candidates.insert(format!("{V1}{}", if p == "/" { "" } else { &p }));
    }
    rep.max("router_source_route_literals", parse_router_source().len() as u64);
    for d in DICTIONARY.iter().chain(PUBLIC.iter()) {
        candidates.insert(d.to_string());
    }
    for r in &m.routes {
        candidates.insert(r.name.split(' ').nth(1).unwrap_or("").to_string());
    }
    // paths of the OpenAPI document the server publishes
    let req = RawReq { method: "GET".into(), target: format!("{V1}/docs/openapi.json"), headers: vec![], body: None };
    if let Ok(r) = http::raw(client, &server.url, &req, WAIT).await {
        if let Ok(v) = serde_json::from_slice::<Value>(&r.body) {
            if let Some(paths) = v.get("paths").and_then(|p| p.as_object()) {
                rep.max("openapi_paths", paths.len() as u64);
                for p in paths.keys() {
                    candidates.insert(p.clone());
                    candidates.insert(format!("{V1}{p}"));
                }
            }
        }
    }
    let mut live = vec![];
    for tpl in candidates {
        if tpl.is_empty() {
            continue;
        }
        let concrete = tpl.replace("{vault_id}", &m.f1.vault_id().to_string()).replace("{secret_id}", &m.f1.secret_id().to_string()).replace("{file_name}", &m.f1.file_name().to_string());
        for method in ["GET", "HEAD", "POST", "PUT", "PATCH", "DELETE"] {
            let req = RawReq { method: method.into(), target: concrete.clone(), headers: vec![], body: None };
            rep.count("discovery_probes", 1);
            match http::raw(client, &server.url, &req, WAIT).await {
                Ok(r) if r.status == 404 || r.status == 405 => {}
                Ok(r) => live.push((method.to_string(), tpl.clone(), concrete.clone(), r.status)),
                Err(_) => {}
            }
        }
    }
    live
}

// ------------------------------------------------------------------- check

struct Ctx<'a> {
    args: &'a Args,
    server_db: bool,
    cfg: &'a Access,
    client: reqwest::Client,
}

/// Send one request of an invalid / must-be-refused form and judge it.
/// Returns the new baseline fingerprint.
#[allow(clippy::too_many_arguments)]
async fn expect_refused(ctx: &Ctx<'_>, rep: &mut Reporter, server: &TestServer, m: &Material, r: &Route, form: &str, who: &Ident, why: &str, baseline: BTreeMap<String, String>, denied_routes: &mut BTreeMap<String, Vec<String>>) -> BTreeMap<String, String> {
    let Some(req) = build(m, r, form, who).await else { return baseline };
    let mut h = Fnv::new();
    h.str(&r.name).str(form).str(ctx.cfg.name).str(who.name).u64(ctx.server_db as u64);
    rep.case(h.finish(), true);
    rep.count("requests", 1);
    rep.count(&format!("form:{form}"), 1);
    rep.count(&format!("config:{}", ctx.cfg.name), 1);
    let resp = http::raw(&ctx.client, &server.url, &req, WAIT).await;
    let resp = match resp {
        Ok(r) => r,
        Err(RawErr::Timeout) => {
            rep.inconclusive(&format!("no answer within the bounded wait: {} {form} under config {}", r.name, ctx.cfg.name));
            return baseline;
        }
        Err(RawErr::NoResponse(e)) => {
            // the connection was closed without a response: refused, but the
            // state check below still applies
            rep.count("closed_without_response", 1);
            let _ = e;
            RawResp { status: 0, headers: vec![], body: vec![] }
        }
    };
    rep.count(&format!("status:{}", resp.status), 1);
    if std::env::var("C11_DEBUG").is_ok() {
        eprintln!("DBG {} | {} | {} | {} -> {}", ctx.cfg.name, r.name, form, who.name, resp.status);
    }
    let after = full_fingerprint(&ctx.client, server).await;
    let changed = http::fp_diff(&baseline, &after);
    let rp = replay(ctx.args, ctx.server_db, ctx.cfg.name, r, form, who.name, &req, Some(&resp));
    let by_config = why != "credential";
    let accepted = resp.status == 101 || (200..400).contains(&resp.status);
    if accepted {
        if by_config {
            denied_routes.entry(format!("{}:{}", who.name, form)).or_default().push(format!("{} -> {}", r.name, resp.status));
            rep.count(&format!("accepted_though_config_refuses:{}", ctx.cfg.name), 1);
        } else {
            rep.violation(&format!("C11:{}:{form}:accepted", r.name), &format!("the server answered {} to a request with credential form '{form}' ({})", resp.status, r.name), rp.clone());
        }
    } else if resp.status >= 500 {
        rep.violation(&format!("C11:{}:{form}:refused_with_{}", r.name, resp.status), &format!("credential form '{form}' was answered {} instead of a 4xx refusal: {}", resp.status, String::from_utf8_lossy(&resp.body[..resp.body.len().min(200)])), rp.clone());
    } else {
        rep.count("refused", 1);
    }
    if !changed.is_empty() && !(by_config && accepted) {
        let clause = if by_config { format!("config_{}:state_changed", ctx.cfg.name) } else { "state_changed".to_string() };
        rep.violation(&format!("C11:{}:{form}:{clause}", r.name), &format!("server state changed after a request that had to be refused (status {}): {:?}", resp.status, &changed[..changed.len().min(8)]), rp);
    }
    after
}

async fn run_config(ctx: &Ctx<'_>, rep: &mut Reporter, stage: &Stage, dir: &Path) -> anyhow::Result<()> {
    let m = &stage.material;
    let _ = std::fs::remove_dir_all(dir);
    setup::copy_dir(&stage.snapshot, dir)?;
    let server = TestServer::start(dir, ctx.cfg, ctx.server_db).await?;
    let mut denied: BTreeMap<String, Vec<String>> = BTreeMap::new();

    // the staged accounts must have been reloaded from disk, the revoked key not trusted
    let ids = server.account_ids().await;
    if !ids.contains(&m.a.id) || !ids.contains(&m.b.id) {
        anyhow::bail!("restarted server did not load the staged accounts: {ids:?}");
    }

    // discovery (once per config; cheap)
    let live = discover(&ctx.client, &server, m, rep).await;
    let mut routes: Vec<Route> = m.routes.clone();
    let known: BTreeSet<(String, String)> = routes.iter().map(|r| (r.method.to_string(), r.name.split(' ').nth(1).unwrap_or("").to_string())).collect();
    let mut live_known = BTreeSet::new();
    for (method, tpl, concrete, status) in &live {
        if known.contains(&(method.clone(), tpl.clone())) {
            live_known.insert((method.clone(), tpl.clone()));
            continue;
        }
        if PUBLIC.contains(&tpl.as_str()) && (method == "GET" || method == "HEAD") {
            rep.count("public_routes_seen", 1);
            continue;
        }
        // answered, but neither in the table nor public: an unlisted route
        rep.count("routes_discovered_unlisted", 1);
        rep.sample(json!({"unlisted_route": format!("{method} {tpl}"), "status_without_credentials": status}));
        let method_s: &'static str = match method.as_str() {
            "GET" => "GET",
            "HEAD" => "HEAD",
            "POST" => "POST",
            "PUT" => "PUT",
            "PATCH" => "PATCH",
            _ => "DELETE",
        };
        routes.push(Route { name: format!("{method} {tpl} (unlisted)"), method: method_s, path: concrete.clone(), extra_query: String::new(), subject: Subject::Path, body: None, ws: false, probe_only: true, order: 0 });
        if (200..300).contains(status) {
            rep.violation(&format!("C11:{method} {tpl}:unlisted_route:answers_without_credentials"), &format!("{method} {tpl} is not in the route table of the check, is not a documented public route, and answered {status} without any credential"), json!({"check": "c11", "method": method, "path": concrete, "status": status}));
        }
    }
    for k in &known {
        if !live_known.contains(k) {
            rep.inconclusive(&format!("route table entry {} {} did not answer the unauthenticated probe (table out of date?)", k.0, k.1));
        }
    }
    let distinct: BTreeSet<String> = routes.iter().map(|r| r.name.clone()).collect();
    rep.max("routes", distinct.len() as u64);

    let mut fp = full_fingerprint(&ctx.client, &server).await;
    // 1. invalid credential forms on every route, whatever the config
    for r in &routes {
        for form in INVALID_FORMS {
            fp = expect_refused(ctx, rep, &server, m, r, form, &m.a, "credential", fp, &mut denied).await;
        }
        if server.died() {
            rep.violation("C11:server_task_ended", &format!("the server task ended while probing {}", r.name), json!({"check": "c11", "seed": ctx.args.seed, "config": ctx.cfg.name}));
            return Ok(());
        }
    }
    // 2. the body of a path-signed request is not covered by the signature
    for r in routes.iter().filter(|r| r.subject == Subject::Path && r.body.is_some() && r.method == "POST" && !r.probe_only) {
        if !ctx.cfg.documented_allows(&m.a.id) {
            continue;
        }
        let mut req = build(m, r, "valid", &m.a).await.unwrap();
        // another, well-formed body than the one the client built
        req.body = Some(FileSet(Default::default()).encode().await.unwrap_or_default());
        let mut h = Fnv::new();
        h.str(&r.name).str("body_replaced_after_signing").str(ctx.cfg.name).u64(ctx.server_db as u64);
        rep.case(h.finish(), true);
        rep.count("requests", 1);
        rep.count("form:body_replaced_after_signing", 1);
        if let Ok(resp) = http::raw(&ctx.client, &server.url, &req, WAIT).await {
            rep.count(&format!("status:{}", resp.status), 1);
            if (200..300).contains(&resp.status) {
                rep.violation(
                    &format!("C11:{}:body_replaced_after_signing:accepted", r.name),
                    &format!("{} carries a body but the bearer signature covers only the path: a request whose body was replaced after signing is answered {}", r.name, resp.status),
                    replay(ctx.args, ctx.server_db, ctx.cfg.name, r, "body_replaced_after_signing", "me", &req, Some(&resp)),
                );
            } else {
                rep.count("refused", 1);
            }
        }
    }

    // 3. identities the configuration refuses: every route, valid credential
    for who in [&m.a, &m.b, &m.c] {
        if ctx.cfg.documented_allows(&who.id) {
            continue;
        }
        let mut rs: Vec<&Route> = routes.iter().filter(|r| !r.probe_only).collect();
        rs.sort_by_key(|r| r.order);
        for r in rs {
            let mut r2 = r.clone();
            if who.name == "new" && r.method == "PUT" && r.path.ends_with("/sync/account") {
                r2.body = Some(m.c_create.clone());
            }
            fp = expect_refused(ctx, rep, &server, m, &r2, "valid", who, "config", fp, &mut denied).await;
        }
    }
    for (k, list) in &denied {
        rep.violation(
            &format!("C11:config_{}:{}:accepted", ctx.cfg.name, k.replace(':', "_credential_")),
            &format!("access config '{}' (allow={:?} deny={:?}) must refuse this account on every endpoint, but {} route(s) were served: {:?}", ctx.cfg.name, ctx.cfg.allow.as_ref().map(|v| v.len()), ctx.cfg.deny.as_ref().map(|v| v.len()), list.len(), list),
            json!({"check": "c11", "seed": ctx.args.seed, "shard": ctx.args.shard, "config": ctx.cfg.name, "identity_and_form": k, "server_backend": if ctx.server_db {"db"} else {"fs"}, "routes": list}),
        );
    }

    if ctx.cfg.name == "none" {
        ws_preregistration(ctx, rep, &server, stage).await;
        revocation_survives_refused_patch(ctx, rep, &server, stage).await;
    }
    // 4. valid controls for admitted identities: the handler must be reached
    if ctx.cfg.documented_allows(&m.a.id) {
        let mut rs: Vec<&Route> = routes.iter().filter(|r| !r.probe_only).collect();
        rs.sort_by_key(|r| r.order);
        for r in rs {
            // creation of the new account just before the account is deleted
            if r.order == 99 && ctx.cfg.documented_allows(&m.c.id) {
                let put = routes.iter().find(|x| x.method == "PUT" && x.path.ends_with("/sync/account")).unwrap();
                let r2 = Route { body: Some(m.c_create.clone()), ..put.clone() };
                valid_control(ctx, rep, &server, m, &r2, &m.c).await;
            }
            valid_control(ctx, rep, &server, m, r, &m.a).await;
        }
    }
    if server.died() {
        rep.violation("C11:server_task_ended", "the server task ended during the run", json!({"check": "c11", "seed": ctx.args.seed, "config": ctx.cfg.name}));
    }
    server.shutdown().await;
    let _ = std::fs::remove_dir_all(dir);
    Ok(())
}


/// A REFUSED request of a trusted device must not bring a revoked device back: the owner's
/// own device sends a rewind-and-patch for the device log that rewinds past the Revoke event,
/// brings the discarded records back (so the rewind itself is admissible) but carries a proof
/// that is not the head of the rewound log; the server answers with a conflict and restores
/// the log. Afterwards the revoked key is still refused and not in the trusted set.
async fn revocation_survives_refused_patch(ctx: &Ctx<'_>, rep: &mut Reporter, server: &TestServer, stage: &Stage) {
    use sos_core::events::EventLog;
    use sos_sync::StorageEventLogs;
    let m = &stage.material;
    let revoked_pk = hex::encode(m.revoked.verifying_key().as_bytes());
    let Some(acc) = ({ server.backend.read().await.accounts().read().await.get(&m.a.id).cloned() }) else { return };
    let (records, head) = {
        let acc = acc.read().await;
        let Ok(log) = acc.device_log().await else { return };
        let log = log.read().await;
        let Ok(records) = log.diff_records(None).await else { return };
        let Ok(head) = log.tree().head() else { return };
        (records, head)
    };
    // the last Revoke of that key
    let mut at = None;
    for (i, r) in records.iter().enumerate() {
        if let Ok(DeviceEvent::Revoke(k)) = r.decode_event::<DeviceEvent>().await {
            if hex::encode(k.as_ref()) == revoked_pk {
                at = Some(i);
            }
        }
    }
    let Some(at) = at else {
        rep.count("refused_patch_probe_skipped_no_revoke_event", 1);
        return;
    };
    if at == 0 {
        return;
    }
    let body = match (PatchRequest { log_type: EventLogType::Device, commit: Some(*records[at - 1].commit()), proof: head, patch: records[at..].to_vec() }).encode().await {
        Ok(b) => b,
        Err(_) => return,
    };
    let Some(route) = m.routes.iter().find(|r| r.method == "PATCH" && r.path.ends_with("/sync/account/events")).cloned() else { return };
    let r2 = Route { body: Some(body), ..route };
    let Some(req) = build(m, &r2, "valid", &m.a).await else { return };
    let status = match http::raw(&ctx.client, &server.url, &req, WAIT).await {
        Ok(resp) => resp.status,
        Err(_) => 0,
    };
    rep.count("requests", 1);
    rep.count(&format!("refused_device_rewind_patch:status_{status}"), 1);
    let mut h = Fnv::new();
    h.str("refused_device_rewind_patch").u64(ctx.server_db as u64).u64(at as u64);
    rep.case(h.finish(), true);
    let replay = json!({"check": "c11", "seed": ctx.args.seed, "shard": ctx.args.shard, "step": "refused device rewind-and-patch past the Revoke event", "server_backend": if ctx.server_db {"db"} else {"fs"}, "answer": status});
    let trusted = server.trusted_keys(&m.a.id).await.unwrap_or_default();
    if trusted.contains(&revoked_pk) {
        rep.violation("C11:refused_patch:revoked_device_trusted_again", "after a refused rewind-and-patch of the device log (sent by the owner's trusted device) the running server lists the revoked device key as trusted again", replay.clone());
    }
    let Some(status_route) = m.routes.iter().find(|r| r.method == "GET" && r.path.ends_with("/status")).cloned() else { return };
    if let Some(probe) = build(m, &status_route, "revoked_key", &m.a).await {
        match http::raw(&ctx.client, &server.url, &probe, WAIT).await {
            Ok(resp) if (200..300).contains(&resp.status) => rep.violation("C11:refused_patch:revoked_key_served", &format!("after a refused rewind-and-patch of the device log a request signed by the revoked device was answered {}", resp.status), replay),
            Ok(_) => rep.count("revoked_key_refused_after_refused_patch", 1),
            Err(_) => {}
        }
    }
}

/// Consequence of `verify_device` answering Ok for an account the server
/// does not hold: anybody can register a websocket for an account id that
/// is not there YET; once the owner creates the account and pushes
/// changes the server broadcasts the change notifications to that socket.
async fn ws_preregistration(ctx: &Ctx<'_>, rep: &mut Reporter, server: &TestServer, stage: &Stage) {
    use futures::StreamExt;
    use sos_protocol::tokio_tungstenite::{connect_async, tungstenite::client::IntoClientRequest, tungstenite::Message};
    use sos_protocol::RemoteSync;
    let m = &stage.material;
    let Some(cdev) = stage.devices.iter().find(|d| d.account_id == m.c.id) else { return };
    if server.account_ids().await.contains(&m.c.id) {
        return;
    }
    let path = format!("{V1}/sync/changes");
    let bearer = http::bearer_for(&http::fresh_signer(), path.as_bytes()).await;
    let url = format!("ws://{}{}?connection_id=stranger", server.addr, path);
    let Ok(mut req) = url.into_client_request() else { return };
    req.headers_mut().insert(http::ACCOUNT_HEADER, m.c.id.to_string().parse().unwrap());
    req.headers_mut().insert("authorization", format!("Bearer {bearer}").parse().unwrap());
    let mut h = Fnv::new();
    h.str("ws_preregistration").str(ctx.cfg.name).u64(ctx.server_db as u64);
    rep.case(h.finish(), true);
    rep.count("requests", 1);
    rep.count("form:ws_unknown_key_for_absent_account", 1);
    let mut stream = match tokio::time::timeout(WAIT, connect_async(req)).await {
        Ok(Ok((s, _))) => s,
        Ok(Err(_)) => {
            rep.count("refused", 1);
            return;
        }
        Err(_) => {
            rep.inconclusive("websocket handshake not answered within the bounded wait");
            return;
        }
    };
    // the owner now creates the account on the server and pushes a change
    let Ok(bridge) = HttpDevice::bridge_for(cdev.account.clone(), cdev.account_id, &cdev.signer, &server.origin, "dev-c") else { return };
    if let Err(e) = bridge.sync().await.result {
        rep.inconclusive(&format!("owner could not create the account: {e}"));
        return;
    }
    {
        let mut acc = cdev.account.lock().await;
        let folder = match acc.default_folder().await {
            Some(f) => *f.id(),
            None => return,
        };
        let meta = SecretMeta::new("owner's note".into(), sos_vault::secret::SecretType::Note);
        if acc.create_secret(meta, Secret::Note { text: "x".to_string().into(), user_data: Default::default() }, AccessOptions { folder: Some(folder), ..Default::default() }).await.is_err() {
            return;
        }
    }
    if let Err(e) = bridge.sync().await.result {
        rep.inconclusive(&format!("owner could not push a change: {e}"));
        return;
    }
    // bounded read on the stranger's socket
    let got = tokio::time::timeout(Duration::from_secs(5), async {
        while let Some(msg) = stream.next().await {
            match msg {
                Ok(Message::Binary(b)) => return Some(b.to_vec()),
                Ok(_) => continue,
                Err(_) => return None,
            }
        }
        None
    })
    .await;
    match got {
        Ok(Some(frame)) => {
            let decoded = sos_protocol::NetworkChangeEvent::decode(bytes::Bytes::from(frame.clone())).await.map(|e| format!("{e:?}")).unwrap_or_else(|e| format!("undecodable: {e}"));
            rep.violation(
                &format!("C11:GET {V1}/sync/changes:unknown_key_for_absent_account:receives_change_notifications"),
                &format!("a websocket opened with a never-trusted key for an account id the server did not hold yet kept receiving the account's change notifications after the owner created the account: {}", &decoded[..decoded.len().min(300)]),
                json!({"check": "c11", "seed": ctx.args.seed, "shard": ctx.args.shard, "config": ctx.cfg.name, "server_backend": if ctx.server_db {"db"} else {"fs"}, "frame_len": frame.len()}),
            );
        }
        _ => rep.count("ws_preregistration_no_frame", 1),
    }
}

async fn valid_control(ctx: &Ctx<'_>, rep: &mut Reporter, server: &TestServer, m: &Material, r: &Route, who: &Ident) {
    let Some(req) = build(m, r, "valid", who).await else { return };
    let mut h = Fnv::new();
    h.str(&r.name).str("valid").str(ctx.cfg.name).str(who.name).u64(ctx.server_db as u64);
    rep.case(h.finish(), true);
    rep.count("requests", 1);
    rep.count("form:valid", 1);
    rep.count(&format!("config:{}", ctx.cfg.name), 1);
    match http::raw(&ctx.client, &server.url, &req, WAIT).await {
        Ok(resp) => {
            rep.count(&format!("status:{}", resp.status), 1);
            if [400u16, 401, 403].contains(&resp.status) {
                rep.violation(
                    &format!("C11:{}:valid_credential:refused", r.name),
                    &format!("a request correctly signed by a trusted device of an admitted account was refused with {} under config '{}': {}", resp.status, ctx.cfg.name, String::from_utf8_lossy(&resp.body[..resp.body.len().min(200)])),
                    replay(ctx.args, ctx.server_db, ctx.cfg.name, r, "valid", who.name, &req, Some(&resp)),
                );
            } else {
                rep.count("accepted_valid", 1);
                if (200..300).contains(&resp.status) || resp.status == 101 {
                    rep.count("accepted_valid_2xx", 1);
                } else {
                    rep.count(&format!("valid_reached_with:{}:{}", r.name, resp.status), 1);
                }
            }
        }
        Err(RawErr::Timeout) => rep.inconclusive(&format!("no answer within the bounded wait for the valid control of {}", r.name)),
        Err(RawErr::NoResponse(e)) => rep.violation(&format!("C11:{}:valid_credential:no_response", r.name), &format!("connection closed without a response: {e}"), replay(ctx.args, ctx.server_db, ctx.cfg.name, r, "valid", who.name, &req, None)),
    }
}

fn configs(m: &Material) -> Vec<Access> {
    let me = m.a.id;
    let other = m.b.id;
    vec![
        Access::none(),
        Access { name: "allow_me", allow: Some(vec![me, m.c.id]), deny: None },
        Access { name: "allow_other_only", allow: Some(vec![other]), deny: None },
        Access { name: "deny_me", allow: None, deny: Some(vec![me, m.c.id]) },
        Access { name: "deny_other", allow: None, deny: Some(vec![other]) },
        Access { name: "allow_and_deny_me", allow: Some(vec![me, other, m.c.id]), deny: Some(vec![me, m.c.id]) },
    ]
}

pub async fn run(args: &Args, rep: &mut Reporter) {
    http::install_panic_watch();
    let mut rng = Rng::new(args.shard_seed() ^ 0xC11);
    let base = args.dir.join(format!("c11-s{}-{}of{}", args.seed, args.shard, args.shards));
    let _ = std::fs::remove_dir_all(&base);
    if let Err(e) = std::fs::create_dir_all(&base) {
        rep.inconclusive(&format!("cannot create scratch dir: {e}"));
        return;
    }
    let backends: Vec<bool> = if args.thorough() { vec![false, true] } else { vec![false] };
    let panics0 = http::panics_seen();
    for server_db in backends {
        let sub = base.join(if server_db { "db" } else { "fs" });
        let stage = match build_stage(args, rep, &mut rng, &sub, server_db).await {
            Ok(s) => s,
            Err(e) => {
                rep.inconclusive(&format!("staging the server failed ({}): {e}", if server_db { "db" } else { "fs" }));
                continue;
            }
        };
        let cfgs = configs(&stage.material);
        for (i, cfg) in cfgs.iter().enumerate() {
            if i % args.shards.max(1) != args.shard % args.shards.max(1) {
                continue;
            }
            if args.budget_s > 0 && rep.elapsed_s() > args.budget_s as f64 {
                rep.inconclusive("time budget reached before every configuration of this shard was run");
                break;
            }
            let ctx = Ctx { args, server_db, cfg, client: http::raw_client() };
            if let Err(e) = run_config(&ctx, rep, &stage, &sub.join(format!("server-{}", cfg.name))).await {
                rep.inconclusive(&format!("config {} could not be run: {e}", cfg.name));
            }
        }
        for d in stage.devices {
            d.close().await;
        }
    }
    // panics are the subject of C15 (see `run_c15_http`); here they are only noted
    for p in http::panics_since(panics0) {
        rep.count("panics_observed_in_process", 1);
        rep.sample(json!({"panic_while_probing": p}));
    }
    let _ = std::fs::remove_dir_all(&base);
}

// =====================================================================
// C15 (server part): malformed request bodies

fn mutate(rng: &mut Rng, valid: &[u8], k: usize) -> (String, Vec<u8>) {
    let n = valid.len();
    match k % 8 {
        0 => ("empty".into(), vec![]),
        1 if n > 0 => {
            let mut b = valid.to_vec();
            let i = rng.usize(n);
            b[i] ^= 1 << rng.below(8);
            ("bit_flip".into(), b)
        }
        2 if n > 1 => {
            let cut = rng.usize(n - 1) + 1;
            ("truncated".into(), valid[..cut].to_vec())
        }
        3 if n > 4 => {
            // fixed 32-bit length field style edit
            let mut b = valid.to_vec();
            let i = rng.usize(n - 4);
            b[i..i + 4].copy_from_slice(&[0xff, 0xff, 0xff, 0xff]);
            ("length_ffffffff".into(), b)
        }
        4 if n > 0 => {
            // protobuf varint length blown up: insert a 5-byte varint (~4 GiB)
            let mut b = valid.to_vec();
            let i = rng.usize(n);
            b.splice(i..i + 1, [0xff, 0xff, 0xff, 0xff, 0x0f]);
            ("varint_huge".into(), b)
        }
        5 => {
            let len = [1usize, 7, 64, 1000][rng.usize(4)];
            ("random_bytes".into(), rng.bytes(len))
        }
        6 if n > 8 => {
            // splice a piece of the message over another place
            let mut b = valid.to_vec();
            let a = rng.usize(n - 4);
            let c = rng.usize(n - 4);
            let piece: Vec<u8> = b[a..a + 4].to_vec();
            b[c..c + 4].copy_from_slice(&piece);
            ("splice".into(), b)
        }
        7 if n > 0 => {
            let mut b = valid.to_vec();
            let extra = 1 + rng.usize(16);
            b.extend(rng.bytes(extra));
            ("trailing_garbage".into(), b)
        }
        _ => {
            let len = 1 + rng.usize(40);
            ("random_bytes".into(), rng.bytes(len))
        }
    }
}

pub async fn run_c15_http(args: &Args, rep: &mut Reporter) {
    http::install_panic_watch();
    let mut rng = Rng::new(args.shard_seed() ^ 0xC15);
    let base = args.dir.join(format!("c15http-s{}-{}of{}", args.seed, args.shard, args.shards));
    let _ = std::fs::remove_dir_all(&base);
    let _ = std::fs::create_dir_all(&base);
    let server_db = args.thorough() && args.shard % 2 == 1;
    let stage = match build_stage(args, rep, &mut rng, &base, server_db).await {
        Ok(s) => s,
        Err(e) => {
            rep.inconclusive(&format!("staging the server failed: {e}"));
            return;
        }
    };
    let m = &stage.material;
    let dir = base.join("server-run");
    let _ = std::fs::remove_dir_all(&dir);
    if let Err(e) = setup::copy_dir(&stage.snapshot, &dir) {
        rep.inconclusive(&format!("copy of the staged server failed: {e}"));
        return;
    }
    let server = match TestServer::start(&dir, &Access::none(), server_db).await {
        Ok(s) => s,
        Err(e) => {
            rep.inconclusive(&format!("server start failed: {e}"));
            return;
        }
    };
    let client = http::raw_client();
    let per_route = args.by_tier(120usize, 600usize);
    let status_route = m.routes.iter().find(|r| r.method == "GET" && r.path.ends_with("/status")).unwrap().clone();
    let body_routes: Vec<Route> = m.routes.iter().filter(|r| r.body.is_some() && !r.probe_only).cloned().collect();
    let panics0 = http::panics_seen();
    let mut dead = false;
    'outer: for (ri, r) in body_routes.iter().enumerate() {
        if ri % args.shards.max(1) != args.shard % args.shards.max(1) && args.shards > 1 && !args.thorough() {
            // quick: routes are spread over the shards; thorough: every shard runs all routes with its own seed
            continue;
        }
        let valid = r.body.clone().unwrap_or_default();
        for k in 0..per_route {
            let (kind, body) = mutate(&mut rng, &valid, k);
            // creation is decoded only for an account that does not exist yet
            let create = r.method == "PUT" && r.path.ends_with("/sync/account");
            let who = Ident { name: "me", id: if create { AccountId::random() } else { m.a.id }, signer: m.a.signer.clone() };
            let r2 = Route { body: Some(body.clone()), ..r.clone() };
            let Some(req) = build(m, &r2, "valid", &who).await else { continue };
            let mut h = Fnv::new();
            h.str(&r.name).str(&kind).bytes(&body);
            rep.case(h.finish(), true);
            rep.count("http_malformed_requests", 1);
            rep.count(&format!("mutation:{kind}"), 1);
            let p0 = http::panics_seen();
            vkit::alloc::begin();
            let rp = json!({"check": "c15http", "seed": args.seed, "shard": format!("{}/{}", args.shard, args.shards), "route": r.name, "mutation": kind, "body_hex": hex::encode(&body[..body.len().min(4096)]), "body_len": body.len(), "server_backend": if server_db {"db"} else {"fs"}});
            match http::raw(&client, &server.url, &req, WAIT).await {
                Ok(resp) => {
                    rep.count(&format!("status:{}", resp.status), 1);
                    if resp.status >= 400 {
                        rep.count("error_responses", 1);
                    }
                }
                Err(RawErr::Timeout) => rep.inconclusive(&format!("no answer within the bounded wait: {} with a {kind} body", r.name)),
                Err(RawErr::NoResponse(e)) => {
                    let panics = http::panics_since(p0);
                    rep.violation(&format!("C15:http:{}:no_response", r.name), &format!("a {kind} body made the server close the connection without a response ({e}); panics recorded: {panics:?}"), rp.clone());
                }
            }
            let (_peak, largest) = vkit::alloc::end();
            rep.max("largest_single_allocation_during_request", largest as u64);
            if largest > (64 << 20) + 64 * body.len() {
                rep.violation(&format!("C15:http:{}:alloc_out_of_proportion", r.name), &format!("a {kind} body of {} bytes made the process request {} bytes in one allocation", body.len(), largest), rp.clone());
            }
            let panics = http::panics_since(p0);
            if !panics.is_empty() {
                // A panic inside `WireEncodeDecode::decode` runs in `spawn_blocking`: the
                // repo turns it into `Error::Join` and the handler answers 500. Same rule
                // as the decoder monitors (vcore c15): counted, not flagged.
                let loc = panics[0].split(": ").next().unwrap_or("?").trim_start_matches("/repo/").to_string();
                rep.count("panic_caught_by_repo", 1);
                rep.count(&format!("panic_caught_by_repo_at:{loc}"), 1);
                rep.sample(json!({"panic_caught_by_repo": panics[0], "route": r.name, "mutation": kind}));
            }
            // the server must keep serving: a valid request of ANOTHER account
            let probe = build(m, &status_route, "valid", &m.b).await.unwrap();
            match http::raw(&client, &server.url, &probe, WAIT).await {
                Ok(resp) if resp.status == 200 => rep.count("liveness_probes_ok", 1),
                Ok(resp) => {
                    rep.violation(&format!("C15:http:{}:server_died", r.name), &format!("after a {kind} body a valid sync_status request of another account was answered {}", resp.status), rp.clone());
                }
                Err(RawErr::Timeout) => rep.inconclusive("liveness probe not answered within the bounded wait"),
                Err(RawErr::NoResponse(e)) => {
                    rep.violation(&format!("C15:http:{}:server_died", r.name), &format!("after a {kind} body a valid sync_status request got no response: {e}"), rp.clone());
                    dead = true;
                }
            }
            if server.died() {
                rep.violation(&format!("C15:http:{}:server_died", r.name), &format!("the server task ended after a {kind} body"), rp);
                dead = true;
            }
            if dead {
                break 'outer;
            }
        }
    }
    let _ = panics0;
    rep.max("http_body_routes", body_routes.len() as u64);
    if !dead {
        server.shutdown().await;
    }
    for d in stage.devices {
        d.close().await;
    }
    let _ = std::fs::remove_dir_all(&base);
}
