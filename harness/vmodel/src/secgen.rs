//! Structure-aware generator of secrets and meta data. Every free-text
//! field is built around a fresh high-entropy marker (`MK` + 22 base62
//! characters) so that (a) every write is unique (unambiguous histories)
//! and (b) the byte scanner of C03 can hunt for it. The planted markers
//! are returned with the (kind, field) position they were planted in.
use secrecy::SecretBox;
use sos_core::UtcDateTime;
use sos_vault::secret::{
    FileContent, IdentityKind, Secret, SecretFlags, SecretId, SecretMeta,
    SecretRow, SecretSigner, UserData,
};
use std::collections::{HashMap, HashSet};
use vkit::Rng;

pub const KINDS: [&str; 15] = [
    "note", "file", "account", "list", "pem", "page", "signer", "contact",
    "totp", "card", "bank", "link", "password", "identity", "age",
];

#[derive(Clone, Debug)]
pub struct Marker {
    pub token: String,
    pub place: String,
}

pub struct Gen<'a> {
    pub rng: &'a mut Rng,
    pub markers: Vec<Marker>,
    /// allow multi-hundred-KB values
    pub allow_large: bool,
}

impl<'a> Gen<'a> {
    pub fn new(rng: &'a mut Rng) -> Self {
        Gen { rng, markers: vec![], allow_large: true }
    }

    /// Fresh marker token registered under `place`.
    pub fn mk(&mut self, place: &str) -> String {
        let token = format!("MK{}", self.rng.token(22));
        self.markers.push(Marker { token: token.clone(), place: place.to_string() });
        token
    }

    /// Free text around a marker: sometimes bare, sometimes with
    /// non-ASCII padding, occasionally large.
    pub fn text(&mut self, place: &str) -> String {
        let m = self.mk(place);
        match self.rng.below(10) {
            0 => m,
            1 => format!("{} ünïcödé ✓ 秘密 {}", m, "🔑"),
            2 if self.allow_large => {
                let n = self.rng.range(10_000, 300_000) as usize;
                let mut s = String::with_capacity(n + 40);
                s.push_str(&m);
                while s.len() < n {
                    s.push_str(" lorem ipsum dolor sit amet");
                }
                s.push_str(&m);
                s
            }
            3 => format!("\n\t{} \"quoted\" \\ back/slash\r\n", m),
            _ => format!("{} {}", m, self.rng.token(8)),
        }
    }

    fn opt_text(&mut self, place: &str) -> Option<String> {
        if self.rng.bool() {
            Some(self.text(place))
        } else {
            None
        }
    }

    fn date(&mut self) -> UtcDateTime {
        let secs = self.rng.range(946_684_800, 4_000_000_000) as i64;
        UtcDateTime::from(time::OffsetDateTime::from_unix_timestamp(secs).unwrap())
    }

    pub fn user_data(&mut self, kind: &str, depth: u32) -> UserData {
        let mut ud = UserData::default();
        if self.rng.chance(1, 3) {
            ud.set_comment(Some(self.text(&format!("{kind}.comment"))));
        }
        if self.rng.chance(1, 4) {
            ud.set_recovery_note(Some(self.text(&format!("{kind}.recovery_note"))));
        }
        if depth == 0 && self.rng.chance(1, 3) {
            let n = self.rng.range(1, 3);
            for _ in 0..n {
                let k = self.rng.usize(KINDS.len());
                let k = if KINDS[k] == "file" { 0 } else { k };
                let (meta, secret) = self.secret_of_kind(k, depth + 1);
                ud.push(SecretRow::new(SecretId::new_v4(), meta, secret));
            }
        }
        ud
    }

    pub fn meta_for(&mut self, secret: &Secret, kind: &str) -> SecretMeta {
        let label = if self.rng.chance(1, 20) { String::new() } else { self.text(&format!("{kind}.label")) };
        let mut meta = SecretMeta::new(label, secret.kind());
        let ntags = self.rng.below(4);
        let mut tags = HashSet::new();
        for _ in 0..ntags {
            tags.insert(self.mk(&format!("{kind}.tag")));
        }
        meta.set_tags(tags);
        meta.set_favorite(self.rng.chance(1, 3));
        if self.rng.chance(1, 5) {
            let urn: urn::Urn = format!("urn:sos:test:{}", self.rng.token(12).to_lowercase()).parse().unwrap();
            meta.set_urn(Some(urn));
        }
        if self.rng.chance(1, 5) {
            meta.set_owner_id(Some(format!("owner-{}", self.rng.token(6))));
        }
        if self.rng.chance(1, 4) {
            *meta.flags_mut() = SecretFlags::VERIFY;
        }
        meta
    }

    /// Generate (meta, secret) of kind index `k` (see KINDS). File secrets
    /// here are *embedded*; external file secrets are made by the op
    /// executor from a real temp file.
    pub fn secret_of_kind(&mut self, k: usize, depth: u32) -> (SecretMeta, Secret) {
        let kind = KINDS[k % KINDS.len()];
        let user_data = self.user_data(kind, depth);
        let secret = match kind {
            "note" => Secret::Note { text: self.text("note.text").into(), user_data },
            "file" => {
                let n = match self.rng.below(4) {
                    0 => 0,
                    1 => self.rng.range(1, 64) as usize,
                    _ => self.rng.range(64, 20_000) as usize,
                };
                let mut buffer = self.mk("file.embedded_content").into_bytes();
                buffer.extend(self.rng.bytes(n));
                let checksum = vkit::sha256(&buffer);
                Secret::File {
                    content: FileContent::Embedded {
                        name: format!("{}.bin", self.mk("file.name")),
                        mime: "application/octet-stream".into(),
                        buffer: SecretBox::new(buffer.into()),
                        checksum,
                    },
                    user_data,
                }
            }
            "account" => {
                let n = self.rng.below(3);
                let url = (0..n)
                    .map(|_| url::Url::parse(&format!("https://{}.example.com/{}", self.rng.token(6).to_lowercase(), self.mk("account.url"))).unwrap())
                    .collect();
                Secret::Account { account: self.text("account.account"), password: self.text("account.password").into(), url, user_data }
            }
            "list" => {
                let n = self.rng.below(4);
                let mut items = HashMap::new();
                for _ in 0..n {
                    items.insert(self.mk("list.key"), self.text("list.value").into());
                }
                Secret::List { items, user_data }
            }
            "pem" => {
                let n = self.rng.range(1, 2);
                let certificates = (0..n)
                    .map(|_| {
                        let mut body = self.mk("pem.contents").into_bytes();
                        body.extend(self.rng.bytes(64));
                        pem::Pem::new("CERTIFICATE", body)
                    })
                    .collect();
                Secret::Pem { certificates, user_data }
            }
            "page" => Secret::Page { title: self.text("page.title"), mime: "text/markdown".into(), document: self.text("page.document").into(), user_data },
            "signer" => {
                let key = self.rng.bytes(32);
                self.markers.push(Marker { token: hex::encode(&key), place: "signer.private_key(hex)".into() });
                let private_key = if self.rng.bool() {
                    SecretSigner::SinglePartyEd25519(SecretBox::new(key.into()))
                } else {
                    SecretSigner::SinglePartyEcdsa(SecretBox::new(key.into()))
                };
                Secret::Signer { private_key, user_data }
            }
            "contact" => {
                let name = self.mk("contact.fn");
                let text = format!("BEGIN:VCARD\nVERSION:4.0\nFN:{}\nEND:VCARD", name);
                let vcard: vcard4::Vcard = text.as_str().try_into().unwrap();
                Secret::Contact { vcard: Box::new(vcard), user_data }
            }
            "totp" => {
                let secret = self.mk("totp.secret");
                let mut bytes = secret.into_bytes();
                bytes.extend_from_slice(b"-padding-to-be-long-enough");
                let totp = totp_rs::TOTP::new(
                    totp_rs::Algorithm::SHA1,
                    6,
                    1,
                    30,
                    bytes,
                    Some(format!("Issuer{}", self.rng.token(5))),
                    format!("{}@example.com", self.mk("totp.account")),
                )
                .unwrap();
                Secret::Totp { totp, user_data }
            }
            "card" => Secret::Card {
                number: self.text("card.number").into(),
                expiry: if self.rng.bool() { Some(self.date()) } else { None },
                cvv: self.mk("card.cvv").into(),
                name: self.opt_text("card.name").map(Into::into),
                atm_pin: self.opt_text("card.atm_pin").map(Into::into),
                user_data,
            },
            "bank" => Secret::Bank {
                number: self.text("bank.number").into(),
                routing: self.text("bank.routing").into(),
                iban: self.opt_text("bank.iban").map(Into::into),
                swift: self.opt_text("bank.swift").map(Into::into),
                bic: self.opt_text("bank.bic").map(Into::into),
                user_data,
            },
            "link" => Secret::Link {
                url: format!("https://example.com/{}", self.mk("link.url")).into(),
                label: self.opt_text("link.label").map(Into::into),
                title: self.opt_text("link.title").map(Into::into),
                user_data,
            },
            "password" => Secret::Password { password: self.text("password.password").into(), name: self.opt_text("password.name").map(Into::into), user_data },
            "identity" => {
                let kinds = [
                    IdentityKind::PersonalIdNumber,
                    IdentityKind::IdCard,
                    IdentityKind::Passport,
                    IdentityKind::DriverLicense,
                    IdentityKind::SocialSecurity,
                    IdentityKind::TaxNumber,
                    IdentityKind::MedicalCard,
                ];
                let idx = self.rng.usize(kinds.len());
                Secret::Identity {
                    id_kind: kinds.into_iter().nth(idx).unwrap(),
                    number: self.text("identity.number").into(),
                    issue_place: self.opt_text("identity.issue_place"),
                    issue_date: if self.rng.bool() { Some(self.date()) } else { None },
                    expiry_date: if self.rng.bool() { Some(self.date()) } else { None },
                    user_data,
                }
            }
            _ => {
                use secrecy::ExposeSecret;
                let id = age::x25519::Identity::generate().to_string();
                self.markers.push(Marker { token: id.expose_secret().to_string(), place: "age.key".into() });
                Secret::Age { version: Default::default(), key: id, user_data }
            }
        };
        let meta = self.meta_for(&secret, kind);
        (meta, secret)
    }
}

/// Canonical JSON of a secret value (secret strings exposed by the repo's
/// own Serialize impl).
pub fn secret_json(secret: &Secret) -> serde_json::Value {
    let mut v = serde_json::to_value(secret).unwrap_or(serde_json::Value::Null);
    normalise(&mut v);
    v
}

/// Canonical JSON of meta data without `lastUpdated` (touched by the code
/// on every write) and with tags sorted.
pub fn meta_json(meta: &SecretMeta) -> serde_json::Value {
    let mut v = serde_json::to_value(meta).unwrap_or(serde_json::Value::Null);
    normalise(&mut v);
    v
}

fn normalise(v: &mut serde_json::Value) {
    use serde_json::Value;
    match v {
        Value::Object(map) => {
            map.remove("lastUpdated");
            if let Some(Value::Array(tags)) = map.get_mut("tags") {
                tags.sort_by(|a, b| a.to_string().cmp(&b.to_string()));
            }
            for (_, x) in map.iter_mut() {
                normalise(x);
            }
        }
        Value::Array(a) => {
            for x in a.iter_mut() {
                normalise(x);
            }
        }
        _ => {}
    }
}
