//! Reference model of an account: a deterministic map
//! folder id -> {name, flags, description, secret id -> (meta, value)}.
use crate::snapshot::{AccountView, FolderView};
use serde_json::Value;
use sos_core::{SecretId, VaultId};

pub type FolderModel = FolderView;

#[derive(Clone, Debug, Default)]
pub struct AccountModel {
    pub view: AccountView,
    /// ids of secrets that were deleted (for negative probes)
    pub deleted: Vec<(VaultId, SecretId)>,
    /// folders that were deleted
    pub deleted_folders: Vec<VaultId>,
}

impl AccountModel {
    pub fn from_view(view: AccountView) -> Self {
        AccountModel { view, deleted: vec![], deleted_folders: vec![] }
    }
    pub fn folder(&self, id: &VaultId) -> Option<&FolderModel> {
        self.view.folders.get(id)
    }
    pub fn folder_mut(&mut self, id: &VaultId) -> Option<&mut FolderModel> {
        self.view.folders.get_mut(id)
    }
    pub fn put(&mut self, folder: &VaultId, id: SecretId, meta: Value, secret: Value) {
        if let Some(f) = self.view.folders.get_mut(folder) {
            f.secrets.insert(id, (meta, secret));
        }
    }
    pub fn remove(&mut self, folder: &VaultId, id: &SecretId) -> Option<(Value, Value)> {
        let r = self.view.folders.get_mut(folder).and_then(|f| f.secrets.remove(id));
        if r.is_some() {
            self.deleted.push((*folder, *id));
        }
        r
    }
    pub fn live_secrets(&self) -> Vec<(VaultId, SecretId)> {
        let mut out = vec![];
        for (fid, f) in &self.view.folders {
            for sid in f.secrets.keys() {
                out.push((*fid, *sid));
            }
        }
        out
    }
    pub fn total_secrets(&self) -> usize {
        self.view.folders.values().map(|f| f.secrets.len()).sum()
    }
}
