//! SplitMix64: tiny deterministic PRNG for workload generation.
//! (Never used for anything cryptographic; the code under test keeps
//! using the OS RNG for ids, salts and nonces.)
#[derive(Clone, Debug)]
pub struct Rng(pub u64);

impl Rng {
    pub fn new(seed: u64) -> Self {
        let mut r = Rng(seed ^ 0x9E3779B97F4A7C15);
        r.next();
        r
    }
    /// Derive an independent stream.
    pub fn fork(&mut self, salt: u64) -> Rng {
        Rng::new(self.next() ^ salt.wrapping_mul(0xD1342543DE82EF95))
    }
    pub fn next(&mut self) -> u64 {
        self.0 = self.0.wrapping_add(0x9E3779B97F4A7C15);
        let mut z = self.0;
        z = (z ^ (z >> 30)).wrapping_mul(0xBF58476D1CE4E5B9);
        z = (z ^ (z >> 27)).wrapping_mul(0x94D049BB133111EB);
        z ^ (z >> 31)
    }
    /// Uniform in 0..n (n > 0).
    pub fn below(&mut self, n: u64) -> u64 {
        if n == 0 {
            return 0;
        }
        self.next() % n
    }
    pub fn usize(&mut self, n: usize) -> usize {
        self.below(n as u64) as usize
    }
    /// Inclusive range.
    pub fn range(&mut self, lo: u64, hi: u64) -> u64 {
        lo + self.below(hi - lo + 1)
    }
    pub fn bool(&mut self) -> bool {
        self.next() & 1 == 1
    }
    /// True with probability num/den.
    pub fn chance(&mut self, num: u64, den: u64) -> bool {
        self.below(den) < num
    }
    pub fn pick<'a, T>(&mut self, items: &'a [T]) -> &'a T {
        &items[self.usize(items.len())]
    }
    pub fn bytes(&mut self, n: usize) -> Vec<u8> {
        let mut v = Vec::with_capacity(n);
        while v.len() < n {
            let x = self.next().to_le_bytes();
            let take = (n - v.len()).min(8);
            v.extend_from_slice(&x[..take]);
        }
        v
    }
    /// Weighted choice: returns the index.
    pub fn weighted(&mut self, weights: &[u32]) -> usize {
        let total: u64 = weights.iter().map(|w| *w as u64).sum();
        let mut x = self.below(total.max(1));
        for (i, w) in weights.iter().enumerate() {
            if x < *w as u64 {
                return i;
            }
            x -= *w as u64;
        }
        weights.len() - 1
    }
    /// Random token of base62 characters.
    pub fn token(&mut self, n: usize) -> String {
        const A: &[u8] =
            b"0123456789ABCDEFGHIJKLMNOPQRSTUVWXYZabcdefghijklmnopqrstuvwxyz";
        (0..n).map(|_| A[self.usize(A.len())] as char).collect()
    }
    pub fn shuffle<T>(&mut self, items: &mut [T]) {
        for i in (1..items.len()).rev() {
            let j = self.usize(i + 1);
            items.swap(i, j);
        }
    }
}
