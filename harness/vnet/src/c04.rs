//! C04 / C05 — convergence once edits stop; merging never loses,
//! duplicates or resurrects.
//!
//! One run feeds both properties (separate verdicts): 2-3 devices (copies
//! of one account) make offline edits with UNEQUAL counts per device on the
//! same folders / same secrets (incl. byte-identical events), with
//! per-device logical clocks (equal, skewed, tied), then sync in generated
//! orders through the repo's own `execute_sync` over the loopback server.
//!
//! C04: (safety) a sync that returned Ok leaves the device's status equal to
//! the server's at that moment; (bounded progress) within 2n+2 rounds all
//! statuses are equal, per log, and all devices serve equal folders.
//! C05 at convergence (or when convergence fails): per log, the events after
//! the common ancestor are exactly the union of what the devices committed
//! (identical events once), divergent events in timestamp order, per-device
//! order kept, nothing else; derived state == last-writer-wins.
use crate::sched::Scheduler;
use crate::world::*;
use serde_json::{json, Value};
use sos_account::Account;
use sos_client_storage::{AccessOptions, NewFolderOptions};
use sos_core::{SecretId, VaultFlags, VaultId};
use std::collections::{BTreeMap, BTreeSet};
use std::sync::Arc;
use vkit::{Args, Fnv, Reporter, Rng};
use vmodel::secgen::{meta_json, secret_json, Gen, KINDS};
use vmodel::setup::{self, Backend, Config};
use vmodel::snapshot::{self, diff_views, AccountView};

#[derive(Clone, Debug)]
pub struct Edit {
    pub device: usize,
    pub desc: String,
    pub target: Option<(VaultId, SecretId)>,
    /// "put" (create/update) or "delete"
    pub effect: &'static str,
    pub value: Option<(Value, Value)>,
    /// records this edit appended, per log
    pub appended: BTreeMap<LogId, Vec<Rec>>,
}

fn opts(f: &VaultId) -> AccessOptions {
    AccessOptions { folder: Some(*f), ..Default::default() }
}

/// Apply one random offline edit on device `d`. `pool` = secrets that exist
/// on every device at the common ancestor; `mine` = secrets this device
/// created since.
async fn one_edit(
    w: &mut World,
    d: usize,
    rng: &mut Rng,
    folders: &[VaultId],
    pool: &[(VaultId, SecretId)],
    mine: &mut Vec<(VaultId, SecretId)>,
    gone: &mut BTreeSet<SecretId>,
    allow_folder_ops: bool,
    allow_rewrite: bool,
) -> Result<Edit, String> {
    w.clock_in(d);
    let before = {
        let a = w.devices[d].account.lock().await;
        all_logs(&*a).await?
    };
    let mut edit = Edit { device: d, desc: String::new(), target: None, effect: "other", value: None, appended: BTreeMap::new() };
    {
        let mut a = w.devices[d].account.lock().await;
        let live_pool: Vec<(VaultId, SecretId)> = pool.iter().chain(mine.iter()).filter(|(_, s)| !gone.contains(s)).cloned().collect();
        let choice = rng.weighted(&[30, 28, 16, 4, 4, 5, 5, if allow_folder_ops { 6 } else { 0 }, 5, if allow_rewrite { 4 } else { 0 }, 5]);
        match choice {
            1 if !live_pool.is_empty() => {
                let (f, id) = *rng.pick(&live_pool);
                let row = a.read_secret(&id, Some(&f)).await.map_err(|e| format!("read before update: {e}"))?.0;
                let kname = row.secret().kind().to_string().to_lowercase();
                let k = KINDS.iter().position(|x| kname.starts_with(&x[..3])).unwrap_or(0);
                let mut g = Gen::new(rng);
                g.allow_large = false;
                let (meta, secret) = g.secret_of_kind(k, 0);
                a.update_secret(&id, meta.clone(), Some(secret.clone()), opts(&f)).await.map_err(|e| format!("update: {e}"))?;
                edit.desc = format!("d{d}: update {id} in {f}");
                edit.target = Some((f, id));
                edit.effect = "put";
                edit.value = Some((meta_json(&meta), secret_json(&secret)));
            }
            2 if !live_pool.is_empty() => {
                let (f, id) = *rng.pick(&live_pool);
                a.delete_secret(&id, opts(&f)).await.map_err(|e| format!("delete: {e}"))?;
                gone.insert(id);
                edit.desc = format!("d{d}: delete {id} in {f}");
                edit.target = Some((f, id));
                edit.effect = "delete";
            }
            3 => {
                let f = *rng.pick(folders);
                a.rename_folder(&f, "Same Name On Every Device".to_string()).await.map_err(|e| format!("rename: {e}"))?;
                edit.desc = format!("d{d}: rename {f} to the shared name");
            }
            4 => {
                let f = *rng.pick(folders);
                let name = format!("Name {}", rng.token(5));
                a.rename_folder(&f, name.clone()).await.map_err(|e| format!("rename: {e}"))?;
                edit.desc = format!("d{d}: rename {f} to {name}");
            }
            5 => {
                let f = *rng.pick(folders);
                let cur = a.list_folders().await.map_err(|e| format!("{e}"))?.into_iter().find(|s| s.id() == &f).map(|s| s.flags().bits()).unwrap_or(0);
                a.update_folder_flags(&f, VaultFlags::from_bits_truncate(cur | VaultFlags::LOCAL.bits())).await.map_err(|e| format!("flags: {e}"))?;
                edit.desc = format!("d{d}: set LOCAL flag on {f}");
            }
            6 => {
                let f = *rng.pick(folders);
                let text = format!("description {}", rng.token(8));
                a.set_folder_description(&f, &text).await.map_err(|e| format!("describe: {e}"))?;
                edit.desc = format!("d{d}: describe {f}");
            }
            7 => {
                let name = format!("New folder {}", rng.token(5));
                let fc = a.create_folder(NewFolderOptions::new(name.clone())).await.map_err(|e| format!("create_folder: {e}"))?;
                edit.desc = format!("d{d}: create folder {} ({name})", fc.folder.id());
            }
            10 => {
                // the same device commits a byte-identical event twice with another in
                // between (rename A -> B -> A, or flags set / cleared / set)
                let f = *rng.pick(folders);
                if rng.bool() {
                    let (x, y) = (format!("Cycle {}", rng.token(4)), format!("Cycle {}", rng.token(4)));
                    for name in [&x, &y, &x] {
                        a.rename_folder(&f, name.clone()).await.map_err(|e| format!("rename: {e}"))?;
                    }
                    edit.desc = format!("d{d}: rename {f} {x} -> {y} -> {x}");
                } else {
                    let cur = a.list_folders().await.map_err(|e| format!("{e}"))?.into_iter().find(|s| s.id() == &f).map(|s| s.flags().bits()).unwrap_or(0);
                    for bits in [cur | VaultFlags::LOCAL.bits(), cur & !VaultFlags::LOCAL.bits(), cur | VaultFlags::LOCAL.bits()] {
                        a.update_folder_flags(&f, VaultFlags::from_bits_truncate(bits)).await.map_err(|e| format!("flags: {e}"))?;
                    }
                    edit.desc = format!("d{d}: flags of {f} LOCAL on -> off -> on");
                }
            }
            9 => {
                let f = *rng.pick(folders);
                a.compact_folder(&f).await.map_err(|e| format!("compact: {e}"))?;
                edit.desc = format!("d{d}: compact folder {f}");
                edit.effect = "rewrite";
            }
            8 if !live_pool.is_empty() && folders.len() > 1 => {
                let (f, id) = *rng.pick(&live_pool);
                let others: Vec<VaultId> = folders.iter().copied().filter(|g| *g != f).collect();
                let g = *rng.pick(&others);
                let mv = a.move_secret(&id, &f, &g, Default::default()).await.map_err(|e| format!("move: {e}"))?;
                gone.insert(id);
                mine.push((g, mv.id));
                edit.desc = format!("d{d}: move {id} from {f} to {g} (new id {})", mv.id);
                edit.target = Some((f, id));
                edit.effect = "delete";
            }
            _ => {
                let f = *rng.pick(folders);
                let k = rng.usize(KINDS.len());
                let k = if KINDS[k] == "file" { 0 } else { k };
                let mut g = Gen::new(rng);
                g.allow_large = false;
                let (meta, secret) = g.secret_of_kind(k, 0);
                let ch = a.create_secret(meta.clone(), secret.clone(), opts(&f)).await.map_err(|e| format!("create: {e}"))?;
                mine.push((f, ch.id));
                edit.desc = format!("d{d}: create {} ({}) in {f}", ch.id, KINDS[k]);
                edit.target = Some((f, ch.id));
                edit.effect = "put";
                edit.value = Some((meta_json(&meta), secret_json(&secret)));
            }
        }
    }
    let after = {
        let a = w.devices[d].account.lock().await;
        all_logs(&*a).await?
    };
    w.clock_out(d);
    for (log, recs) in &after {
        let n = before.get(log).map(|r| r.len()).unwrap_or(0);
        if recs.len() > n {
            edit.appended.insert(*log, recs[n..].to_vec());
        }
    }
    Ok(edit)
}

async fn device_view(w: &World, d: usize) -> Result<AccountView, String> {
    let mut a = w.devices[d].account.lock().await;
    snapshot::live(&mut a).await.map(|v| v.0).map_err(|e| format!("{} {}", e.class, e.detail))
}

fn hex3(c: &[u8; 32]) -> String {
    hex::encode(&c[..3])
}

pub async fn run(args: &Args, rep: &mut Reporter, prop: &'static str) {
    let histories = args.by_tier(10usize, 120usize);
    let mut rng = Rng::new(args.shard_seed() ^ 0xC04);
    let rt_dir = args.dir.clone();
    // one pristine per backend, reused for every history of this worker
    let mut pristines = vec![];
    for backend in [Backend::Fs, Backend::Db] {
        let config = Config { backend, cipher: Default::default(), kdf: Default::default() };
        match setup::create_pristine(&rt_dir.join(format!("pristine-{}", backend.name())), &config, &mut rng).await {
            Ok(p) => pristines.push(p),
            Err(e) => {
                rep.inconclusive(&format!("cannot create pristine account: {e}"));
                return;
            }
        }
    }
    for h in 0..histories {
        let pristine = &pristines[h % 2];
        let backend = pristine.config.backend.name();
        let n = if rng.chance(1, 3) { 3 } else { 2 };
        let sched = Arc::new(Scheduler::free());
        let mut w = match World::from_pristine(&rt_dir.join(format!("w{h}")), pristine, n, rng.bool(), sched).await {
            Ok(w) => w,
            Err(e) => {
                rep.inconclusive(&format!("cannot build world: {e}"));
                continue;
            }
        };
        // clocks: equal, skewed or tied
        let clock_mode = rng.below(3);
        for d in 0..n {
            match clock_mode {
                0 => w.devices[d].now_ns += (d as i128) * 7 * MS + 13,
                1 => w.devices[d].now_ns += (d as i128) * 3_600_000 * MS * if d % 2 == 0 { 1 } else { -1 },
                _ => {}
            }
        }
        rep.count(&format!("clock_mode:{}", ["near", "skewed", "tied"][clock_mode as usize]), 1);
        rep.count(&format!("devices:{n}"), 1);
        let mut hash = Fnv::new();
        let mut log: Vec<String> = vec![];
        let mut history_ok = true;
        let mut any_divergent = false;
        if prop == "C20" {
            for d in 0..n {
                let mut a = w.devices[d].account.lock().await;
                let _ = a.initialize_search_index().await;
            }
        }
        // bring every device in sync with the server first
        for d in 1..n {
            let r = w.sync(d).await;
            if !matches!(r, SyncResult::Ok(_)) {
                rep.inconclusive(&format!("initial sync of device {d} failed: {r:?}"));
                history_ok = false;
            }
        }
        let phases = rng.range(1, 3);
        'phases: for phase in 0..phases {
            if !history_ok {
                break;
            }
            // ---- common ancestor ------------------------------------------------
            let ancestor = match w.device_logs(0).await {
                Ok(l) => l,
                Err(e) => {
                    rep.inconclusive(&format!("cannot read ancestor logs: {e}"));
                    break;
                }
            };
            let view0 = match device_view(&w, 0).await {
                Ok(v) => v,
                Err(e) => {
                    rep.inconclusive(&format!("cannot snapshot: {e}"));
                    break;
                }
            };
            // order by names / labels (generated from the seed), not by random uuid,
            // so that a seed regenerates the same history
            let mut fsorted: Vec<(&VaultId, &vmodel::snapshot::FolderView)> = view0.folders.iter().collect();
            fsorted.sort_by(|a, b| (a.1.name.as_str(), a.1.flags).cmp(&(b.1.name.as_str(), b.1.flags)));
            let folders: Vec<VaultId> = fsorted.iter().map(|(id, _)| **id).collect();
            let mut pool: Vec<(String, VaultId, SecretId)> = vec![];
            for (f, v) in &fsorted {
                for (sid, (m, _)) in &v.secrets {
                    pool.push((format!("{}|{}", v.name, m.get("label").and_then(|l| l.as_str()).unwrap_or("")), **f, *sid));
                }
            }
            pool.sort();
            let pool: Vec<(VaultId, SecretId)> = pool.into_iter().map(|(_, f, s)| (f, s)).collect();
            // ---- offline edits, unequal counts ------------------------------------
            let mut edits: Vec<Edit> = vec![];
            let mut counts: Vec<usize> = (0..n).map(|_| rng.below(5) as usize).collect();
            if counts.iter().all(|c| *c == 0) {
                counts[0] = 2;
            }
            if rng.chance(1, 3) {
                counts[n - 1] = 0; // one device only syncs (fast-forward)
            }
            // a burst: two devices make a dozen or more edits each while their clocks stand still
            // (coarse clock), so the merged patch is long and full of equal timestamps
            let burst = rng.chance(1, 4);
            if burst {
                counts[0] = 14 + rng.below(6) as usize;
                counts[n - 1] = 14 + rng.below(6) as usize;
                for d in 0..n {
                    w.devices[d].step_ns = 0;
                }
                rep.count("burst_phases", 1);
            }
            let allow_folder_ops = rng.chance(1, 2);
            let mut mines: Vec<Vec<(VaultId, SecretId)>> = vec![vec![]; n];
            let mut gones: Vec<BTreeSet<SecretId>> = vec![BTreeSet::new(); n];
            // interleave devices so that logical times interleave too
            let mut order: Vec<usize> = counts.iter().enumerate().flat_map(|(d, c)| std::iter::repeat(d).take(*c)).collect();
            rng.shuffle(&mut order);
            let burst_folders: Vec<VaultId> = if folders.is_empty() { vec![] } else { vec![folders[rng.usize(folders.len())]] };
            let burst_pool: Vec<(VaultId, SecretId)> = pool.iter().copied().filter(|(f, _)| burst_folders.contains(f)).collect();
            let mut burst_k = vec![0i128; n];
            let burst_base: Vec<i128> = (0..n).map(|d| w.devices[d].now_ns).collect();
            for d in order {
                if burst {
                    // pairs of equal timestamps, advancing: t0 t0 t1 t1 ... (a clock with a coarse tick)
                    w.devices[d].now_ns = burst_base[d] + (burst_k[d] / 2) * MS;
                    burst_k[d] += 1;
                }
                let (mine, gone) = (&mut mines[d], &mut gones[d]);
                let mut m = std::mem::take(mine);
                let mut g = std::mem::take(gone);
                let allow_rewrite = !burst && matches!(prop, "C02" | "C20") && rng.chance(1, 2);
                // a burst stays in one folder, so that ONE log receives a long patch
                let r = if burst {
                    one_edit(&mut w, d, &mut rng, &burst_folders, &burst_pool, &mut m, &mut g, false, false).await
                } else {
                    one_edit(&mut w, d, &mut rng, &folders, &pool, &mut m, &mut g, allow_folder_ops, allow_rewrite).await
                };
                mines[d] = m;
                gones[d] = g;
                match r {
                    Ok(e) => {
                        hash.str(&e.desc);
                        log.push(e.desc.clone());
                        rep.count("edits", 1);
                        edits.push(e);
                    }
                    Err(e) => {
                        rep.count("edit_errors", 1);
                        log.push(format!("d{d}: edit failed: {e}"));
                    }
                }
            }
            if burst {
                for d in 0..n {
                    w.devices[d].step_ns = MS;
                    // move on, so that later events are later
                    w.devices[d].now_ns = burst_base[d] + (burst_k[d] / 2 + 2) * MS;
                }
            }
            let editing_devices = edits.iter().map(|e| e.device).collect::<BTreeSet<_>>().len();
            if editing_devices >= 2 {
                any_divergent = true;
                rep.count("phases_with_divergent_devices", 1);
            }
            rep.count("phases", 1);
            // ---- sync rounds --------------------------------------------------------
            let max_rounds = 2 * n + 2;
            let mut converged_at = None;
            let mut last_errors: Vec<String> = vec![];
            for round in 0..max_rounds {
                let mut order: Vec<usize> = (0..n).collect();
                rng.shuffle(&mut order);
                last_errors.clear();
                for d in order {
                    let r = w.sync(d).await;
                    rep.count(&format!("sync:{}", r.class()), 1);
                    if std::env::var("VERIF_DEBUG").is_ok() {
                        let trace = w.sched.take_trace();
                        let mut names = vec![];
                        for dd in 0..n {
                            let a = w.devices[dd].account.lock().await;
                            if let Ok(fl) = a.list_folders().await {
                                names.push(format!("d{dd}:{:?}", fl.iter().map(|s| s.name().to_string()).filter(|n| n.starts_with("Cycle") || n.starts_with("Name") || n.starts_with("Same")).collect::<Vec<_>>()));
                            }
                        }
                        eprintln!("DEBUG h{h} round {round} sync d{d} => {} requests {:?} names {:?}", r.class(), trace.iter().map(|(d, k)| format!("d{d}:{k}")).collect::<Vec<_>>(), names);
                    }
                    log.push(format!("round {round}: sync d{d} => {}", match &r { SyncResult::Ok(_) => "ok".to_string(), other => format!("{other:?}").chars().take(160).collect() }));
                    let ctx = json!({"backend": backend, "history": h, "phase": phase, "devices": n, "clock_mode": clock_mode, "log": log});
                    if prop == "C02" {
                        check_c02(rep, &w, d, backend, r.class(), &ctx).await;
                    }
                    if prop == "C20" {
                        check_c20(rep, &w, d, backend, r.class(), &ctx).await;
                    }
                    match &r {
                        SyncResult::Ok(_) => {
                            // safety: Ok => replica equals server now
                            if prop == "C04" {
                                if let (Ok(ds), Ok(ss)) = (w.device_status(d).await, w.server_status().await) {
                                    rep.count("ok_syncs_checked", 1);
                                    let diff = status_diff(&ds, &ss);
                                    if !diff.is_empty() {
                                        let classes: BTreeSet<String> = diff.iter().map(|s| s.split(':').next().unwrap().to_string()).collect();
                                        // shape of the trigger: does a differing log hold the same event hash twice?
                                        let mut dup = false;
                                        // on the device's side or on the server's side of a differing log
                                        for logs in [w.device_logs(d).await, w.server_logs().await].into_iter().flatten() {
                                            for (id, recs) in &logs {
                                                let differs = diff.iter().any(|x| match id { LogId::Folder(f) => x.contains(&f.to_string()), other => x == other.class() });
                                                let set: BTreeSet<[u8; 32]> = recs.iter().map(|r| r.commit).collect();
                                                if differs && set.len() != recs.len() {
                                                    dup = true;
                                                }
                                            }
                                        }
                                        let mut same_index = false;
                                        let mut detail = vec![];
                                        if let (Ok(dl), Ok(sl)) = (w.device_logs(d).await, w.server_logs().await) {
                                            for (id, recs) in &dl {
                                                if let Some(srv) = sl.get(id) {
                                                    if srv.iter().map(|r| r.commit).collect::<Vec<_>>() != recs.iter().map(|r| r.commit).collect::<Vec<_>>() {
                                                        detail.push(json!({"log": format!("{id:?}"), "device": recs.iter().map(|r| format!("{}@{}", hex3(&r.commit), r.time_ns % 1_000_000_000_000)).collect::<Vec<_>>(), "server": srv.iter().map(|r| format!("{}@{}", hex3(&r.commit), r.time_ns % 1_000_000_000_000)).collect::<Vec<_>>()}));
                                                    }
                                                }
                                            }
                                        }
                                        // second trigger shape: diverged logs that hold the same event at the same
                                        // position after the point of divergence
                                        if let (Ok(dl), Ok(sl)) = (w.device_logs(d).await, w.server_logs().await) {
                                            for (id, recs) in &dl {
                                                if let Some(srv) = sl.get(id) {
                                                    let first_div = recs.iter().zip(srv.iter()).position(|(a, b)| a.commit != b.commit);
                                                    if let Some(fd) = first_div {
                                                        if recs.iter().zip(srv.iter()).skip(fd).any(|(a, b)| a.commit == b.commit) {
                                                            same_index = true;
                                                        }
                                                    }
                                                }
                                            }
                                        }
                                        let trigger = if dup { "repeated_event_hash_in_log" } else if same_index { "same_event_at_same_index_in_diverged_logs" } else { "other" };
                                        let classes_s = if trigger == "other" { format!("{}:", classes.iter().cloned().collect::<Vec<_>>().join("+")) } else { String::new() };
                                        let trace = w.sched.take_trace();
                                        let ctx = json!({"ctx": ctx, "differing_logs": detail, "requests_of_recent_syncs": trace.iter().rev().take(40).rev().map(|(d, k)| format!("d{d}:{k}")).collect::<Vec<_>>()});
                                        rep.violation(
                                            &format!("C04:{backend}:ok_sync_but_differs:{classes_s}{trigger}"),
                                            &format!("sync of device {d} returned Ok but its status differs from the server's on: {diff:?}"),
                                            ctx.clone(),
                                        );
                                        history_ok = false;
                                    }
                                }
                            }
                        }
                        SyncResult::Err(e) => last_errors.push(format!("d{d}: {e}")),
                        SyncResult::RequestBound => {
                            if prop == "C04" {
                                rep.violation(&format!("C04:{backend}:sync_request_bound"), &format!("a single sync call of device {d} issued more than {} requests", crate::sched::REQUEST_BOUND), ctx.clone());
                            }
                            history_ok = false;
                        }
                        SyncResult::Panicked(m) => {
                            if prop == "C04" {
                                rep.violation(&format!("C04:{backend}:sync_panicked"), &format!("sync of device {d} panicked: {m}"), ctx.clone());
                            }
                            history_ok = false;
                        }
                    }
                }
                if !history_ok {
                    break;
                }
                // converged?
                let ss = w.server_status().await;
                let mut all_equal = ss.is_ok();
                if let Ok(ss) = &ss {
                    for d in 0..n {
                        match w.device_status(d).await {
                            Ok(ds) => {
                                if !status_diff(&ds, ss).is_empty() {
                                    all_equal = false;
                                }
                            }
                            Err(_) => all_equal = false,
                        }
                    }
                }
                if all_equal && last_errors.is_empty() {
                    converged_at = Some(round + 1);
                    break;
                }
            }
            let ctx = json!({"backend": backend, "history": h, "phase": phase, "devices": n, "clock_mode": clock_mode, "log": log});
            if !history_ok {
                break 'phases;
            }
            match converged_at {
                Some(r) => {
                    rep.count(&format!("converged_in_rounds:{r}"), 1);
                    rep.count("phases_converged", 1);
                }
                None => {
                    if prop == "C04" {
                        // which logs differ, and is it errors?
                        let mut differing = BTreeSet::new();
                        if let Ok(ss) = w.server_status().await {
                            for d in 0..n {
                                if let Ok(ds) = w.device_status(d).await {
                                    for x in status_diff(&ds, &ss) {
                                        differing.insert(x.split(':').next().unwrap().to_string());
                                    }
                                }
                            }
                        }
                        let kind = if !last_errors.is_empty() { "sync_keeps_failing" } else { "statuses_differ" };
                        let err_class = last_errors.first().map(|e| {
                            let e = e.to_lowercase();
                            if e.contains("could not be found") { "commit_not_found" } else if e.contains("conflict") { "conflict" } else { "other" }
                        }).unwrap_or("none");
                        rep.violation(
                            &format!("C04:{backend}:no_convergence:{kind}:{err_class}:{}", differing.iter().cloned().collect::<Vec<_>>().join("+")),
                            &format!("after {max_rounds} rounds of syncs by all {n} devices the replicas have not converged ({kind}); differing logs: {differing:?}; last errors: {last_errors:?}"),
                            ctx.clone(),
                        );
                    }
                    history_ok = false;
                }
            }
            // ---- decrypted folders equal on all devices (C04) --------------------------
            let mut views = vec![];
            for d in 0..n {
                match device_view(&w, d).await {
                    Ok(v) => views.push(v),
                    Err(e) => {
                        if prop == "C04" {
                            rep.violation(&format!("C04:{backend}:device_unreadable_after_sync"), &format!("device {d} cannot serve its folders after syncing: {e}"), ctx.clone());
                        }
                        history_ok = false;
                    }
                }
            }
            if views.len() == n && converged_at.is_some() && prop == "C04" {
                for d in 1..n {
                    let diffs = diff_views(&views[0], &views[d]);
                    rep.count("view_comparisons", 1);
                    if let Some(first) = diffs.first() {
                        // where does each device get the differing value from?
                        let mut origin = vec![];
                        for dd in [0usize, d] {
                            let a = w.devices[dd].account.lock().await;
                            if let Ok(keys) = snapshot::folder_keys(&a).await {
                                for (f, key) in &keys {
                                    if first.detail.contains(&f.to_string()) {
                                        let served = views[dd].folders.get(f).map(|v| v.name.clone());
                                        let replayed = snapshot::replay_folder(&a, f, key, None).await.ok().map(|v| v.name);
                                        let mirror = snapshot::mirror_folder(&w.devices[dd].target, &w.account_id, f, key).await.ok().map(|v| v.name);
                                        origin.push(json!({"device": dd, "served": served, "log_replay": replayed, "vault_store": mirror}));
                                    }
                                }
                            }
                        }
                        let ctx = json!({"ctx": ctx, "origin": origin});
                        rep.violation(
                            &format!("C04:{backend}:converged_status_but_folders_differ:{}", first.class),
                            &format!("statuses are equal but device 0 and device {d} serve different folders: {}", first.detail),
                            ctx.clone(),
                        );
                        history_ok = false;
                    }
                }
            }
            // ---- C05 oracles ---------------------------------------------------------------
            if prop == "C05" && editing_devices >= 1 {
                check_c05(rep, &w, &ancestor, &edits, &views, backend, n, converged_at.is_some(), &ctx).await;
            }
            if !history_ok {
                break 'phases;
            }
        }
        rep.case(hash.finish(), any_divergent);
        if h == 0 {
            rep.sample(json!({"backend": backend, "devices": n, "log": log.iter().take(16).collect::<Vec<_>>()}));
        }
        w.close().await;
    }
    for p in pristines {
        let _ = std::fs::remove_dir_all(&p.dir);
    }
}

async fn check_c05(
    rep: &mut Reporter,
    w: &World,
    ancestor: &BTreeMap<LogId, Vec<Rec>>,
    edits: &[Edit],
    views: &[AccountView],
    backend: &str,
    n: usize,
    converged: bool,
    ctx: &Value,
) {
    // expected per log: union of appended records (identical hashes once)
    let mut expected: BTreeMap<LogId, Vec<(usize, Rec)>> = BTreeMap::new();
    for e in edits {
        for (log, recs) in &e.appended {
            for r in recs {
                expected.entry(*log).or_default().push((e.device, r.clone()));
            }
        }
    }
    let mut replicas: Vec<(String, BTreeMap<LogId, Vec<Rec>>)> = vec![];
    if let Ok(s) = w.server_logs().await {
        replicas.push(("server".into(), s));
    }
    for d in 0..n {
        if let Ok(l) = w.device_logs(d).await {
            replicas.push((format!("device{d}"), l));
        }
    }
    let phase_tag = if converged { "converged" } else { "not_converged" };
    for (log, exp) in &expected {
        let anc = ancestor.get(log).cloned().unwrap_or_default();
        let exp_set: BTreeSet<[u8; 32]> = exp.iter().map(|(_, r)| r.commit).collect();
        for (who, logs) in &replicas {
            let Some(recs) = logs.get(log) else {
                // a folder created on one device may legitimately be absent elsewhere only before convergence
                if converged {
                    rep.violation(&format!("C05:{backend}:{phase_tag}:log_missing:{}", log.class()), &format!("{who} has no {log:?} log although a device committed events to it"), ctx.clone());
                }
                continue;
            };
            rep.count("c05_log_checks", 1);
            // the ancestor must still be the prefix (no history rewrite in these runs)
            if recs.len() < anc.len() || recs[..anc.len()].iter().map(|r| r.commit).collect::<Vec<_>>() != anc.iter().map(|r| r.commit).collect::<Vec<_>>() {
                rep.violation(&format!("C05:{backend}:{phase_tag}:ancestor_rewritten:{}", log.class()), &format!("{who}: the common ancestor prefix of {log:?} is no longer a prefix of the log"), ctx.clone());
                continue;
            }
            let suffix = &recs[anc.len()..];
            let got: Vec<[u8; 32]> = suffix.iter().map(|r| r.commit).collect();
            let got_set: BTreeSet<[u8; 32]> = got.iter().copied().collect();
            if !converged && who != "server" {
                // before convergence a device may simply not have received everything yet
                continue;
            }
            // (1) nothing lost
            let lost: Vec<String> = exp_set.difference(&got_set).map(hex3).collect();
            if !lost.is_empty() && converged {
                let by: BTreeSet<usize> = exp.iter().filter(|(_, r)| !got_set.contains(&r.commit)).map(|(d, _)| *d).collect();
                rep.violation(
                    &format!("C05:{backend}:{phase_tag}:event_lost:{}", log.class()),
                    &format!("{who}: {} event(s) committed by device(s) {by:?} on the {log:?} log are missing after the merge: {lost:?}; log suffix now {:?}", lost.len(), got.iter().map(hex3).collect::<Vec<_>>()),
                    ctx.clone(),
                );
            }
            // (2) nothing duplicated: an event may appear as often as the device that
            // committed it most often committed it (identical events by different
            // devices count once)
            let mut allowed: BTreeMap<[u8; 32], usize> = BTreeMap::new();
            {
                let mut per_dev: BTreeMap<(usize, [u8; 32]), usize> = BTreeMap::new();
                for (d, r) in exp.iter() {
                    *per_dev.entry((*d, r.commit)).or_insert(0) += 1;
                }
                for ((_, c), n) in per_dev {
                    let e = allowed.entry(c).or_insert(0);
                    *e = (*e).max(n);
                }
            }
            let mut seen: BTreeMap<[u8; 32], usize> = BTreeMap::new();
            for c in &got {
                *seen.entry(*c).or_insert(0) += 1;
            }
            let over = seen.iter().any(|(c, n)| *n > allowed.get(c).copied().unwrap_or(1));
            // ... and at least as often as the device that committed it most often did
            // (a device's own repeated events are separate commits, none may be dropped)
            if converged {
                let under: Vec<String> = allowed.iter().filter(|(c, n)| seen.get(*c).copied().unwrap_or(0) < **n).map(|(c, n)| format!("{} x{} (log has {})", hex3(c), n, seen.get(c).copied().unwrap_or(0))).collect();
                if !under.is_empty() && lost.is_empty() {
                    rep.violation(
                        &format!("C05:{backend}:{phase_tag}:repeated_event_lost:{}", log.class()),
                        &format!("{who}: a device committed the same event more than once on the {log:?} log but the merged log holds fewer occurrences: {under:?}"),
                        ctx.clone(),
                    );
                }
            }
            if over {
                rep.violation(
                    &format!("C05:{backend}:{phase_tag}:event_duplicated:{}", log.class()),
                    &format!("{who}: the {log:?} log holds the same event more than once after the merge: {:?}", got.iter().map(hex3).collect::<Vec<_>>()),
                    ctx.clone(),
                );
            }
            // (3) nothing else added
            let extra: Vec<String> = got_set.difference(&exp_set).map(hex3).collect();
            if !extra.is_empty() {
                rep.violation(
                    &format!("C05:{backend}:{phase_tag}:event_invented:{}", log.class()),
                    &format!("{who}: the {log:?} log holds {} event(s) no device committed: {extra:?}", extra.len()),
                    ctx.clone(),
                );
            }
            // (4) order: per-device relative order kept; timestamps non-decreasing
            if converged && lost.is_empty() && !over && got.len() == got_set.len() {
                let pos: BTreeMap<[u8; 32], usize> = got.iter().enumerate().map(|(i, c)| (*c, i)).collect();
                let devices: BTreeSet<usize> = exp.iter().map(|(d, _)| *d).collect();
                // identical events committed independently by several devices have no
                // single position in any one device's order: leave them out
                let mut owners0: BTreeMap<[u8; 32], BTreeSet<usize>> = BTreeMap::new();
                for (d, r) in exp.iter() {
                    owners0.entry(r.commit).or_default().insert(*d);
                }
                for d in &devices {
                    let mine: Vec<usize> = exp.iter().filter(|(x, r)| x == d && owners0[&r.commit].len() == 1).filter_map(|(_, r)| pos.get(&r.commit).copied()).collect();
                    if mine.windows(2).any(|w| w[0] > w[1]) {
                        rep.violation(&format!("C05:{backend}:{phase_tag}:device_order_broken:{}", log.class()), &format!("{who}: events of device {d} on {log:?} are no longer in the order the device committed them"), ctx.clone());
                    }
                }
                if devices.len() > 1 {
                    // an identical event committed independently by several devices has
                    // several timestamps; which one survives is not specified: skip those
                    let mut owners: BTreeMap<[u8; 32], BTreeSet<usize>> = BTreeMap::new();
                    for (d, r) in exp.iter() {
                        owners.entry(r.commit).or_default().insert(*d);
                    }
                    let times: Vec<i128> = suffix.iter().filter(|r| owners.get(&r.commit).map(|o| o.len()).unwrap_or(0) == 1).map(|r| r.time_ns).collect();
                    if times.windows(2).any(|w| w[0] > w[1]) {
                        rep.violation(&format!("C05:{backend}:{phase_tag}:not_in_timestamp_order:{}", log.class()), &format!("{who}: divergent events on {log:?} are not interleaved in timestamp order: {times:?}"), ctx.clone());
                    }
                }
            }
        }
    }
    // derived state: last-writer-wins over the committed edits
    if converged && views.len() == n {
        let mut by_secret: BTreeMap<(VaultId, SecretId), Vec<(i128, &Edit)>> = BTreeMap::new();
        for e in edits {
            if let Some(t) = e.target {
                let time = e.appended.get(&LogId::Folder(t.0)).and_then(|r| r.last()).map(|r| r.time_ns);
                if let Some(time) = time {
                    by_secret.entry(t).or_default().push((time, e));
                }
            }
        }
        // byte-identical events committed by several devices count as one event with
        // no single timestamp: last-writer-wins is undefined for the secrets they touch
        let mut owners: BTreeMap<[u8; 32], BTreeSet<usize>> = BTreeMap::new();
        for e in edits {
            for recs in e.appended.values() {
                for r in recs {
                    owners.entry(r.commit).or_default().insert(e.device);
                }
            }
        }
        for ((f, id), mut ops) in by_secret {
            let ambiguous = ops.iter().any(|(_, e)| e.appended.get(&LogId::Folder(f)).map(|rs| rs.iter().any(|r| owners.get(&r.commit).map(|o| o.len()).unwrap_or(0) > 1)).unwrap_or(false));
            if ambiguous {
                rep.count("lww_skipped_identical_events", 1);
                continue;
            }
            ops.sort_by_key(|(t, _)| *t);
            let last_t = ops.last().unwrap().0;
            if ops.iter().filter(|(t, _)| *t == last_t).count() > 1 {
                rep.count("lww_ties_skipped", 1);
                continue;
            }
            let (_, winner) = ops.last().unwrap();
            rep.count("lww_checks", 1);
            for (d, view) in views.iter().enumerate() {
                let Some(fv) = view.folders.get(&f) else { continue };
                let got = fv.secrets.get(&id);
                match (winner.effect, got) {
                    ("delete", Some(_)) => rep.violation(
                        &format!("C05:{backend}:lww:deleted_secret_came_back"),
                        &format!("device {d}: secret {id} is present although the latest committed edit ({}) deleted it", winner.desc),
                        ctx.clone(),
                    ),
                    ("put", None) => rep.violation(
                        &format!("C05:{backend}:lww:latest_edit_lost"),
                        &format!("device {d}: secret {id} is absent although the latest committed edit by timestamp is {}", winner.desc),
                        ctx.clone(),
                    ),
                    ("put", Some((m, s))) => {
                        if let Some((wm, ws)) = &winner.value {
                            if wm != m || ws != s {
                                rep.violation(
                                    &format!("C05:{backend}:lww:stale_value_wins"),
                                    &format!("device {d}: secret {id} does not hold the value of the latest committed edit ({})", winner.desc),
                                    ctx.clone(),
                                );
                            }
                        }
                    }
                    _ => {}
                }
            }
        }
    }
}


/// C02 after a sync on device `d`: served folder == replay of its persisted log == persisted
/// vault store, for every folder (merges, auto-merges, force merges, imports just happened).
async fn check_c02(rep: &mut Reporter, w: &World, d: usize, backend: &str, sync_class: &str, ctx: &Value) {
    let mut a = w.devices[d].account.lock().await;
    let keys = match snapshot::folder_keys(&a).await {
        Ok(k) => k,
        Err(e) => {
            rep.violation(&format!("C02:{backend}:after_sync:{}", e.class), &format!("device {d} after sync ({sync_class}): {}", e.detail), ctx.clone());
            return;
        }
    };
    let (live, _) = match snapshot::live(&mut a).await {
        Ok(v) => v,
        Err(e) => {
            rep.violation(&format!("C02:{backend}:after_sync:served:{}", e.class), &format!("device {d} after sync ({sync_class}): {}", e.detail), ctx.clone());
            return;
        }
    };
    let target = w.devices[d].target.clone();
    for (f, key) in &keys {
        let Some(served) = live.folders.get(f) else { continue };
        match snapshot::replay_folder(&a, f, key, None).await {
            Ok(replayed) => {
                rep.count("replay_comparisons", 1);
                let mut dd = vec![];
                snapshot::diff_folder(served, &replayed, f, &mut dd);
                if let Some(first) = dd.first() {
                    let why = name_trigger(&a, f, served, first.class).await;
                    rep.violation(&format!("C02:{backend}:after_sync:replay_vs_served:{}{why}", first.class), &format!("device {d} after sync ({sync_class}): {}", first.detail), ctx.clone());
                }
            }
            Err(e) => rep.violation(&format!("C02:{backend}:after_sync:replay:{}", e.class), &format!("device {d} after sync ({sync_class}): {}", e.detail), ctx.clone()),
        }
        match snapshot::mirror_folder(&target, &w.account_id, f, key).await {
            Ok(mirror) => {
                rep.count("mirror_comparisons", 1);
                let mut dd = vec![];
                snapshot::diff_folder(served, &mirror, f, &mut dd);
                if let Some(first) = dd.first() {
                    let why = name_trigger(&a, f, served, first.class).await;
                    rep.violation(&format!("C02:{backend}:after_sync:mirror_vs_served:{}{why}", first.class), &format!("device {d} after sync ({sync_class}): {}", first.detail), ctx.clone());
                }
            }
            Err(e) => rep.violation(&format!("C02:{backend}:after_sync:mirror:{}", e.class), &format!("device {d} after sync ({sync_class}): {}", e.detail), ctx.clone()),
        }
    }
}

/// Shape of a folder-name mismatch: the served name was never written to the folder's
/// own log (it comes from an account-level RenameFolder event only, which happens when
/// a hard conflict replaced the folder log that held the matching SetVaultName).
async fn name_trigger(a: &sos_account::LocalAccount, f: &sos_core::VaultId, served: &snapshot::FolderView, class: &str) -> &'static str {
    use futures::StreamExt;
    use sos_core::events::{EventLog, WriteEvent};
    use sos_sync::StorageEventLogs;
    if class != "folder_name" {
        return "";
    }
    let Ok(log) = a.folder_log(f).await else { return "" };
    let log = log.read().await;
    let stream = log.event_stream(false).await;
    futures::pin_mut!(stream);
    while let Some(item) = stream.next().await {
        let Ok((_, event)) = item else { return "" };
        match event {
            WriteEvent::SetVaultName(n) if n == served.name => return "",
            WriteEvent::CreateVault(buf) => {
                if let Ok(v) = sos_core::decode::<sos_vault::Vault>(&buf).await {
                    if v.name() == served.name {
                        return "";
                    }
                }
            }
            _ => {}
        }
    }
    ":name_only_in_account_log"
}

/// C20 after a sync on device `d`: live index == recount from the served folders == rebuild.
async fn check_c20(rep: &mut Reporter, w: &World, d: usize, backend: &str, sync_class: &str, ctx: &Value) {
    let mut a = w.devices[d].account.lock().await;
    let (live, _) = match snapshot::live(&mut a).await {
        Ok(v) => v,
        Err(_) => return,
    };
    let model = vmodel::model::AccountModel::from_view(live);
    vmodel::index::check_index(rep, &a, &model, &[], backend, &format!("sync_{sync_class}"), ctx).await;
}
