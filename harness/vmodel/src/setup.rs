//! Account set-up helpers: configurations, pristine accounts, copies,
//! opening a data directory with either backend.
use secrecy::SecretString;
use sos_account::{Account, LocalAccount};
use sos_backend::BackendTarget;
use sos_core::{
    crypto::{AccessKey, Cipher, KeyDerivation},
    AccountId, Paths,
};
use std::path::{Path, PathBuf};

#[derive(Clone, Copy, Debug, PartialEq, Eq)]
pub enum Backend {
    Fs,
    Db,
}
impl Backend {
    pub fn name(&self) -> &'static str {
        match self {
            Backend::Fs => "fs",
            Backend::Db => "db",
        }
    }
}

#[derive(Clone, Debug)]
pub struct Config {
    pub backend: Backend,
    pub cipher: Cipher,
    pub kdf: KeyDerivation,
}

impl Config {
    pub fn name(&self) -> String {
        format!("{}/{}/{}", self.backend.name(), self.cipher, self.kdf)
    }
    /// backend x cipher (kdf default)
    pub fn matrix() -> Vec<Config> {
        let mut v = vec![];
        for backend in [Backend::Fs, Backend::Db] {
            for cipher in [Cipher::AesGcm256, Cipher::XChaCha20Poly1305] {
                v.push(Config { backend, cipher, kdf: KeyDerivation::Argon2Id });
            }
        }
        v
    }
}

/// Backend target for a data directory (creating the sqlite file and
/// running migrations when needed).
pub async fn target_for(dir: &Path, backend: Backend) -> anyhow::Result<BackendTarget> {
    std::fs::create_dir_all(dir)?;
    let paths = Paths::new_client(dir);
    Ok(match backend {
        Backend::Fs => {
            Paths::scaffold(&dir.to_path_buf()).await?;
            BackendTarget::FileSystem(paths)
        }
        Backend::Db => {
            let mut client = sos_database::open_file(paths.database_file()).await?;
            sos_database::migrations::migrate_client(&mut client).await?;
            BackendTarget::Database(paths, client)
        }
    })
}

#[derive(Clone)]
pub struct Pristine {
    pub dir: PathBuf,
    pub account_id: AccountId,
    pub password: SecretString,
    pub config: Config,
}

pub fn key_of(password: &SecretString) -> AccessKey {
    password.clone().into()
}

pub fn new_password(rng: &mut vkit::Rng) -> SecretString {
    // high entropy, also used as a C03 marker
    SecretString::new(format!("PW{}-{}-{}", rng.token(12), rng.token(12), rng.token(12)).into())
}

/// Create an account (default + archive + authenticator + contacts
/// folders, file password) with the configuration's cipher, then sign out.
pub async fn create_pristine(dir: &Path, config: &Config, rng: &mut vkit::Rng) -> anyhow::Result<Pristine> {
    let _ = std::fs::remove_dir_all(dir);
    let target = target_for(dir, config.backend).await?;
    let password = new_password(rng);
    let mut account = LocalAccount::new_account_with_builder(
        format!("acct-{}", rng.token(6)),
        password.clone(),
        target.clone(),
        |b| b.create_archive(true).create_authenticator(true).create_contacts(true).create_file_password(true),
    )
    .await?;
    let account_id = *account.account_id();
    let key = key_of(&password);
    account.sign_in(&key).await?;
    if config.cipher != Cipher::default() || config.kdf != KeyDerivation::default() {
        account.change_cipher(&key, &config.cipher, Some(config.kdf.clone())).await?;
    }
    account.sign_out().await?;
    drop(account);
    close_target(target).await;
    Ok(Pristine { dir: dir.to_path_buf(), account_id, password, config: config.clone() })
}

/// Close the sqlite connection behind a target (no-op for the file system).
pub async fn close_target(target: BackendTarget) {
    if let BackendTarget::Database(_, client) = target {
        let _ = client.close().await;
    }
}

pub fn copy_dir(from: &Path, to: &Path) -> std::io::Result<()> {
    std::fs::create_dir_all(to)?;
    for entry in std::fs::read_dir(from)? {
        let entry = entry?;
        let ty = entry.file_type()?;
        let dest = to.join(entry.file_name());
        if ty.is_dir() {
            copy_dir(&entry.path(), &dest)?;
        } else if ty.is_file() {
            std::fs::copy(entry.path(), dest)?;
        }
    }
    Ok(())
}

/// A signed-in account on a data directory.
pub struct Opened {
    pub account: LocalAccount,
    pub target: BackendTarget,
}

/// Cold open: new target (new sqlite connection), new account object, sign in.
pub async fn open(dir: &Path, backend: Backend, account_id: &AccountId, password: &SecretString) -> anyhow::Result<Opened> {
    let target = target_for(dir, backend).await?;
    let mut account = LocalAccount::new_unauthenticated(*account_id, target.clone()).await?;
    account.sign_in(&key_of(password)).await?;
    Ok(Opened { account, target })
}

impl Opened {
    pub async fn close(mut self) {
        let _ = self.account.sign_out().await;
        let target = self.target.clone();
        drop(self.account);
        close_target(target).await;
    }
}

/// Copy a pristine account into `dest` and open it.
pub async fn instantiate(p: &Pristine, dest: &Path) -> anyhow::Result<Opened> {
    let _ = std::fs::remove_dir_all(dest);
    copy_dir(&p.dir, dest)?;
    open(dest, p.config.backend, &p.account_id, &p.password).await
}
