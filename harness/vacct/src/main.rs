fn main(){}
