#!/bin/sh
# usage: scripts/try_mutant.sh <seeded-dir> <CHECK-ID> [more check ids...]
# Applies seeded/<dir>/patch.diff to /repo, runs the quick checks, restores /repo.
set -u
D=/verif/seeded/$1; shift
cd /repo || exit 2
if ! git diff --quiet; then echo "repo working tree is dirty"; exit 2; fi
git apply "$D/patch.diff" || { echo "patch does not apply"; exit 2; }
for id in "$@"; do
  echo "=== $id with $(basename $D)"
  (cd /verif && bin/check $id --tier quick 2>&1 | grep -E "VIOLATION|signature:|what:|HELD|INCONCLUSIVE|HARNESS" | cut -c1-400 | head -14; )
done
git -C /repo checkout -- .
# evidence files were rewritten by the mutant run: restore the committed ones
(cd /verif && git checkout -- evidence 2>/dev/null)
# rebuild the harness from the restored tree so later --no-build runs do not use mutant binaries
(cd /verif/harness && cargo build --workspace --offline --quiet 2>/dev/null)
echo "=== repo restored: $(git -C /repo status --short | wc -l) dirty files"
