//! C17 — external file blobs are content-addressed and follow their secret.
//!
//! Device 1 is a `NetworkAccount` talking real HTTP to an in-process
//! server; it performs generated histories of file-secret operations
//! (create from a temp file, `update_file`, move between folders, delete
//! secret, delete folder). After EVERY operation, on device 1:
//!   blobs on disk == `FileReducer::reduce(None)` of its file log
//!                 == the blobs named by the live file secrets (model),
//!   every blob's sha256 == its name, and `download_file` (decrypt) gives
//!   back the original bytes.
//! At generated sync points and at the end the background transfers are
//! left to settle (bounded polling of the inflight set and of the
//! notification tallies; running out of polls => *inconclusive*) and the
//! same equality is checked on the server's files directory and on device 2
//! (a second `NetworkAccount` on a copy of the account taken BEFORE the file
//! operations, synced at those points).
//!
//! Upload endpoint, driven directly: a correct body is stored under its
//! name; altered / truncated / empty / extended bodies are refused and leave
//! neither the file nor an `.upload` temp file; while a harness-paced
//! upload is in flight a GET of the same name and a file comparison never
//! expose the partial file; an aborted upload leaves nothing behind.
use crate::http::{self, Access, RawReq, TestServer};
use serde_json::{json, Value};
use sos_account::Account;
use sos_client_storage::{AccessOptions, NewFolderOptions};
use sos_core::{AccountId, ExternalFile, ExternalFileName, SecretId, SecretPath, VaultId};
use sos_net::{InflightNotification, NetworkAccount};
use sos_protocol::transfer::{FileSet, FileTransfersSet};
use sos_protocol::{AccountSync, WireEncodeDecode};
use sos_sync::StorageEventLogs;
use sos_vault::secret::{FileContent, Secret, SecretMeta};
use std::collections::{BTreeMap, BTreeSet};
use std::path::{Path, PathBuf};
use std::sync::atomic::{AtomicBool, AtomicU64, Ordering};
use std::sync::{Arc, Mutex as StdMutex};
use std::time::{Duration, Instant};
use vkit::{Args, Fnv, Reporter, Rng};
use vmodel::setup::{self, Backend, Pristine};

const V1: &str = "/api/v1";
const WAIT: Duration = Duration::from_secs(30);
type Key = (String, String, String);

fn key_of(f: &ExternalFile) -> Key {
    (f.vault_id().to_string(), f.secret_id().to_string(), f.file_name().to_string())
}

// ---------------------------------------------------------------- listings

#[derive(Default, Debug)]
struct Listing {
    blobs: BTreeMap<Key, PathBuf>,
    strays: Vec<String>,
}

fn list_blobs(files_dir: &Path) -> Listing {
    let mut out = Listing::default();
    let Ok(l1) = std::fs::read_dir(files_dir) else { return out };
    for v in l1.flatten() {
        let vp = v.path();
        let vn = v.file_name().to_string_lossy().to_string();
        if !vp.is_dir() {
            out.strays.push(vn);
            continue;
        }
        for s in std::fs::read_dir(&vp).into_iter().flatten().flatten() {
            let sp = s.path();
            let sn = s.file_name().to_string_lossy().to_string();
            if !sp.is_dir() {
                out.strays.push(format!("{vn}/{sn}"));
                continue;
            }
            for f in std::fs::read_dir(&sp).into_iter().flatten().flatten() {
                let fp = f.path();
                let fname = f.file_name().to_string_lossy().to_string();
                let is_name = fname.len() == 64 && fname.bytes().all(|b| b.is_ascii_hexdigit());
                if fp.is_file() && is_name && vn.parse::<VaultId>().is_ok() && sn.parse::<SecretId>().is_ok() {
                    out.blobs.insert((vn.clone(), sn.clone(), fname), fp);
                } else {
                    out.strays.push(format!("{vn}/{sn}/{fname}"));
                }
            }
        }
    }
    out
}

async fn file_log_commits(account: &sos_net::NetworkAccount) -> Vec<[u8; 32]> {
    use sos_core::events::EventLog;
    match account.file_log().await {
        Ok(log) => log.read().await.tree().leaves().unwrap_or_default(),
        Err(_) => vec![],
    }
}

/// Compare one place's blobs with an expected set; returns true when equal.
fn judge_listing(rep: &mut Reporter, place: &str, against: &str, listing: &Listing, expected: &BTreeSet<Key>, ctx: &Value, report: bool) -> bool {
    let have: BTreeSet<Key> = listing.blobs.keys().cloned().collect();
    let missing: Vec<&Key> = expected.difference(&have).collect();
    let leftover: Vec<&Key> = have.difference(expected).collect();
    let ok = missing.is_empty() && leftover.is_empty() && listing.strays.is_empty();
    if !report {
        return ok;
    }
    rep.count(&format!("set_checks:{place}"), 1);
    if !missing.is_empty() {
        rep.violation(&format!("C17:blobs_vs_{against}:{place}:missing_blob"), &format!("{place}: {} blob(s) named by the {against} are not on disk: {:?}", missing.len(), &missing[..missing.len().min(4)]), ctx.clone());
    }
    if !leftover.is_empty() {
        rep.violation(&format!("C17:blobs_vs_{against}:{place}:leftover_blob"), &format!("{place}: {} blob(s) on disk are not named by the {against} (left behind): {:?}", leftover.len(), &leftover[..leftover.len().min(4)]), ctx.clone());
    }
    if !listing.strays.is_empty() {
        rep.violation(&format!("C17:blobs_dir:{place}:stray_file"), &format!("{place}: files that are not blobs in the files directory: {:?}", &listing.strays[..listing.strays.len().min(6)]), ctx.clone());
    }
    ok
}

fn judge_names(rep: &mut Reporter, place: &str, listing: &Listing, ctx: &Value) {
    for (k, p) in &listing.blobs {
        rep.count("blob_hash_checks", 1);
        match std::fs::read(p) {
            Ok(b) => {
                if hex::encode(vkit::sha256(&b)) != k.2 {
                    rep.violation(&format!("C17:blob_name_vs_sha256:{place}"), &format!("{place}: blob {}/{}/{} ({} bytes) does not hash to its name", k.0, k.1, k.2, b.len()), ctx.clone());
                }
            }
            Err(e) => rep.violation(&format!("C17:blob_unreadable:{place}"), &format!("{place}: blob {k:?}: {e}"), ctx.clone()),
        }
    }
}

// ------------------------------------------------------------------ devices

#[derive(Default)]
struct Tally {
    added: AtomicU64,
    done: AtomicU64,
    errors: AtomicU64,
    retries: AtomicU64,
    last_ms: AtomicU64,
    lagged: AtomicBool,
    reasons: StdMutex<BTreeMap<String, u64>>,
}

struct Dev {
    name: &'static str,
    account: NetworkAccount,
    target: sos_backend::BackendTarget,
    tally: Arc<Tally>,
    epoch: Instant,
}

impl Dev {
    async fn open(name: &'static str, p: &Pristine, dir: &Path, origin: &sos_core::Origin) -> anyhow::Result<Dev> {
        let _ = std::fs::remove_dir_all(dir);
        setup::copy_dir(&p.dir, dir)?;
        let target = setup::target_for(dir, p.config.backend).await?;
        let mut account = NetworkAccount::new_unauthenticated(p.account_id, target.clone(), Default::default()).await?;
        account.set_connection_id(Some(name.to_string()));
        account.sign_in(&setup::key_of(&p.password)).await?;
        let tally = Arc::new(Tally::default());
        let epoch = Instant::now();
        {
            let inflight = account.inflight_transfers()?;
            let mut rx = inflight.notifications().subscribe();
            let t = tally.clone();
            tokio::spawn(async move {
                loop {
                    match rx.recv().await {
                        Ok(ev) => {
                            t.last_ms.store(epoch.elapsed().as_millis() as u64, Ordering::SeqCst);
                            match ev {
                                InflightNotification::TransferAdded { .. } => {
                                    t.added.fetch_add(1, Ordering::SeqCst);
                                }
                                InflightNotification::TransferDone { .. } => {
                                    t.done.fetch_add(1, Ordering::SeqCst);
                                }
                                InflightNotification::TransferError { reason, .. } => {
                                    t.errors.fetch_add(1, Ordering::SeqCst);
                                    *t.reasons.lock().unwrap().entry(format!("{reason:?}")).or_insert(0) += 1;
                                }
                                InflightNotification::TransferRetry { .. } => {
                                    t.retries.fetch_add(1, Ordering::SeqCst);
                                }
                                InflightNotification::TransferUpdate { .. } => {}
                            }
                        }
                        Err(tokio::sync::broadcast::error::RecvError::Lagged(_)) => t.lagged.store(true, Ordering::SeqCst),
                        Err(_) => break,
                    }
                }
            });
        }
        if let Some(r) = account.add_server(origin.clone()).await? {
            if let Err(e) = r.result {
                anyhow::bail!("{name}: initial sync failed: {e}");
            }
        }
        Ok(Dev { name, account, target, tally, epoch })
    }

    fn files_dir(&self) -> PathBuf {
        self.account.paths().into_files_dir()
    }

    async fn close(mut self) {
        let _ = self.account.sign_out().await;
        setup::close_target(self.target).await;
    }

    fn tally_text(&self) -> String {
        format!(
            "added={} done={} errors={} retries={} reasons={:?}",
            self.tally.added.load(Ordering::SeqCst),
            self.tally.done.load(Ordering::SeqCst),
            self.tally.errors.load(Ordering::SeqCst),
            self.tally.retries.load(Ordering::SeqCst),
            self.tally.reasons.lock().unwrap()
        )
    }
}

#[derive(Debug, PartialEq)]
enum Settle {
    /// nothing in flight, every announced transfer finished, quiet, and `ok()` holds
    Settled,
    /// nothing in flight, every announced transfer finished, quiet for the long window, `ok()` does not hold
    QuietButDiffers,
    /// polls used up
    OutOfPolls,
}

/// Bounded wait for the background transfers of `dev`.
async fn settle(dev: &Dev, polls: usize, ok: &(dyn Fn() -> bool + Send + Sync)) -> Settle {
    const STEP: u64 = 50;
    const QUIET: u64 = 700;
    const LONG_QUIET: u64 = 4000;
    let inflight = match dev.account.inflight_transfers() {
        Ok(i) => i,
        Err(_) => return Settle::OutOfPolls,
    };
    let start = dev.epoch.elapsed().as_millis() as u64;
    for _ in 0..polls {
        tokio::time::sleep(Duration::from_millis(STEP)).await;
        let now = dev.epoch.elapsed().as_millis() as u64;
        let t = &dev.tally;
        let idle = inflight.is_empty().await && t.added.load(Ordering::SeqCst) == t.done.load(Ordering::SeqCst) + t.errors.load(Ordering::SeqCst);
        let last = t.last_ms.load(Ordering::SeqCst).max(start);
        let quiet = now.saturating_sub(last);
        if idle && quiet >= QUIET {
            if ok() {
                return Settle::Settled;
            }
            if quiet >= LONG_QUIET {
                return Settle::QuietButDiffers;
            }
        }
    }
    Settle::OutOfPolls
}

// -------------------------------------------------------------------- model

#[derive(Clone)]
struct FileSecret {
    folder: VaultId,
    plain: Vec<u8>,
}

struct World {
    server: TestServer,
    account_id: AccountId,
    d1: Dev,
    d2: Dev,
    folders: Vec<VaultId>,
    default_folder: VaultId,
    secrets: BTreeMap<SecretId, FileSecret>,
    /// secrets that are NOT file secrets but carry external files as attachments (custom
    /// fields): id -> folder
    notes: BTreeMap<SecretId, VaultId>,
    /// files whose events reached device 2 in a sync during which device 2's file log was
    /// rewound (auto-merge of the file log)
    via_auto_merge: BTreeSet<Key>,
    /// number of sync points so far (every other one delays a blob on the server)
    sync_points: usize,
    /// secrets whose blob was (re)written since the last decrypt check, per device
    /// (decrypting costs one scrypt run, so only touched blobs are decrypted)
    dirty1: BTreeSet<SecretId>,
    dirty2: BTreeSet<SecretId>,
    log: Vec<String>,
    tmp: PathBuf,
    max_bytes: usize,
}

fn opts(f: &VaultId) -> AccessOptions {
    AccessOptions { folder: Some(*f), ..Default::default() }
}

/// Source file name: mostly ordinary, sometimes content-addressed (hex SHA-256 of the
/// content) inside its own directory so that equal contents do not collide.
fn src_name(rng: &mut Rng, plain: &[u8]) -> String {
    let dir = rng.token(8);
    let _ = dir;
    match rng.below(6) {
        0 => format!("{}-{}", "d", hex::encode(vkit::sha256(plain))).trim_start_matches("d-").to_string(),
        1 => format!("photo {}.heic", rng.token(5)),
        _ => format!("att-{}.bin", rng.token(10)),
    }
}

fn make_plain(rng: &mut Rng, max: usize) -> Vec<u8> {
    let n = match rng.below(8) {
        0 => 0,
        1 => rng.range(1, 64) as usize,
        2 => rng.range(65_000, 66_500) as usize,
        3 => max,
        _ => rng.range(64, max as u64) as usize,
    };
    rng.bytes(n)
}

impl World {
    fn ctx(&self, args: &Args, history: usize, server_db: bool, client: Backend) -> Value {
        json!({"check": "c17", "seed": args.seed, "shard": format!("{}/{}", args.shard, args.shards), "tier": args.tier, "history": history, "server_backend": if server_db {"db"} else {"fs"}, "client_backend": client.name(), "ops": self.log})
    }

    fn server_files_dir(&self) -> PathBuf {
        self.server.account_paths(&self.account_id).into_files_dir()
    }

    /// Blobs named by the live secrets of the model (a file secret's own blob and every
    /// external-file attachment of a secret), read through device 1.
    async fn model_set(&self) -> Result<BTreeSet<Key>, String> {
        let mut out = BTreeSet::new();
        let all: Vec<(SecretId, VaultId, bool)> = self.secrets.iter().map(|(id, fs)| (*id, fs.folder, true)).chain(self.notes.iter().map(|(id, f)| (*id, *f, false))).collect();
        for (id, folder, is_file) in all {
            let (row, _) = self.d1.account.read_secret(&id, Some(&folder)).await.map_err(|e| format!("read_secret {id}: {e}"))?;
            match row.secret() {
                Secret::File { content: FileContent::External { checksum, .. }, .. } => {
                    let name: ExternalFileName = (*checksum).into();
                    out.insert((folder.to_string(), id.to_string(), name.to_string()));
                }
                other if is_file => return Err(format!("file secret {id} reads back as {}", other.kind())),
                _ => {}
            }
            for field in row.secret().user_data().fields() {
                if let Secret::File { content: FileContent::External { checksum, .. }, .. } = field.secret() {
                    let name: ExternalFileName = (*checksum).into();
                    out.insert((folder.to_string(), id.to_string(), name.to_string()));
                }
            }
        }
        Ok(out)
    }

    /// Add an external file as a custom field of an existing secret.
    async fn attach(&mut self, rng: &mut Rng, id: SecretId, f: VaultId) -> Result<(), String> {
        let plain = make_plain(rng, self.max_bytes.min(50_000));
        let path = self.tmp.join(src_name(rng, &plain));
        std::fs::write(&path, &plain).map_err(|e| e.to_string())?;
        let att: Secret = path.clone().try_into().map_err(|e| format!("{e}"))?;
        let att_meta = SecretMeta::new(format!("attachment {}", rng.token(6)), att.kind());
        let (mut row, _) = self.d1.account.read_secret(&id, Some(&f)).await.map_err(|e| format!("read before attach: {e}"))?;
        row.secret_mut().add_field(sos_vault::secret::SecretRow::new(SecretId::new_v4(), att_meta, att));
        let r = self.d1.account.update_secret(&id, row.meta().clone(), Some(row.secret().clone()), opts(&f)).await;
        let _ = std::fs::remove_file(&path);
        r.map(|_| ()).map_err(|e| format!("attach file: {e}"))
    }

    async fn one_op(&mut self, rng: &mut Rng) -> Result<&'static str, String> {
        let ids: Vec<SecretId> = self.secrets.keys().copied().collect();
        let extra_folders: Vec<VaultId> = self.folders.iter().copied().filter(|f| *f != self.default_folder).collect();
        let note_ids: Vec<SecretId> = self.notes.keys().copied().collect();
        let choice = rng.weighted(&[
            30,
            if ids.is_empty() { 0 } else { 16 },
            if ids.is_empty() || self.folders.len() < 2 { 0 } else { 16 },
            if ids.is_empty() { 0 } else { 12 },
            if extra_folders.is_empty() { 0 } else { 6 },
            if self.folders.len() < 4 { 9 } else { 0 },
            10,
            if note_ids.is_empty() { 0 } else { 8 },
            if note_ids.is_empty() || self.folders.len() < 2 { 0 } else { 8 },
            if ids.is_empty() { 0 } else { 6 },
        ]);
        match choice {
            6 => {
                // a note that carries an external file as an attachment
                let f = *rng.pick(&self.folders);
                let secret = Secret::Note { text: format!("note {}", rng.token(12)).into(), user_data: Default::default() };
                let meta = SecretMeta::new(format!("note {}", rng.token(6)), secret.kind());
                let id = self.d1.account.create_secret(meta, secret, opts(&f)).await.map_err(|e| format!("create note: {e}"))?.id;
                self.notes.insert(id, f);
                self.attach(rng, id, f).await?;
                self.log.push(format!("create note {id} in {f} with a file attachment"));
                Ok("note_with_attachment")
            }
            7 => {
                let id = *rng.pick(&note_ids);
                let f = self.notes[&id];
                self.d1.account.delete_secret(&id, opts(&f)).await.map_err(|e| format!("delete note: {e}"))?;
                self.notes.remove(&id);
                self.log.push(format!("delete note {id} (with attachment) in {f}"));
                Ok("delete_note_with_attachment")
            }
            8 => {
                let id = *rng.pick(&note_ids);
                let from = self.notes[&id];
                let others: Vec<VaultId> = self.folders.iter().copied().filter(|g| *g != from).collect();
                let to = *rng.pick(&others);
                let mv = self.d1.account.move_secret(&id, &from, &to, Default::default()).await.map_err(|e| format!("move note: {e}"))?;
                self.notes.remove(&id);
                self.notes.insert(mv.id, to);
                self.log.push(format!("move note {id} (with attachment) from {from} to {to} (new id {})", mv.id));
                Ok("move_note_with_attachment")
            }
            9 => {
                // a file secret that also carries an attachment
                let id = *rng.pick(&ids);
                let f = self.secrets[&id].folder;
                self.attach(rng, id, f).await?;
                self.log.push(format!("attach a file to file secret {id} in {f}"));
                Ok("attach_to_file_secret")
            }
            0 => {
                let f = *rng.pick(&self.folders);
                let plain = make_plain(rng, self.max_bytes);
                let path = self.tmp.join(src_name(rng, &plain));
                std::fs::write(&path, &plain).map_err(|e| e.to_string())?;
                let secret: Secret = path.clone().try_into().map_err(|e| format!("{e}"))?;
                let meta = SecretMeta::new(format!("file {}", rng.token(6)), secret.kind());
                let r = self.d1.account.create_secret(meta, secret, opts(&f)).await;
                let _ = std::fs::remove_file(&path);
                let ch = r.map_err(|e| format!("create_secret: {e}"))?;
                self.log.push(format!("create file secret {} in {f} ({} bytes)", ch.id, plain.len()));
                self.secrets.insert(ch.id, FileSecret { folder: f, plain });
                self.dirty1.insert(ch.id);
                self.dirty2.insert(ch.id);
                Ok("create")
            }
            1 => {
                let id = *rng.pick(&ids);
                let f = self.secrets[&id].folder;
                let plain = make_plain(rng, self.max_bytes);
                let path = self.tmp.join(src_name(rng, &plain));
                std::fs::write(&path, &plain).map_err(|e| e.to_string())?;
                let (row, _) = self.d1.account.read_secret(&id, Some(&f)).await.map_err(|e| format!("read before update: {e}"))?;
                let meta = row.meta().clone();
                let r = self.d1.account.update_file(&id, meta, &path, opts(&f)).await;
                let _ = std::fs::remove_file(&path);
                let ch = r.map_err(|e| format!("update_file: {e}"))?;
                self.log.push(format!("update_file {id} in {f} ({} bytes)", plain.len()));
                if ch.id != id {
                    self.secrets.remove(&id);
                }
                self.secrets.insert(ch.id, FileSecret { folder: f, plain });
                self.dirty1.insert(ch.id);
                self.dirty2.insert(ch.id);
                Ok("update")
            }
            2 => {
                let id = *rng.pick(&ids);
                let from = self.secrets[&id].folder;
                let others: Vec<VaultId> = self.folders.iter().copied().filter(|g| *g != from).collect();
                let to = *rng.pick(&others);
                let mv = self.d1.account.move_secret(&id, &from, &to, Default::default()).await.map_err(|e| format!("move_secret: {e}"))?;
                self.log.push(format!("move {id} from {from} to {to} (new id {})", mv.id));
                let mut fs = self.secrets.remove(&id).unwrap();
                fs.folder = to;
                self.secrets.insert(mv.id, fs);
                // a moved blob is byte-identical (name == sha256 is checked): decrypt it on device 2 only
                self.dirty2.insert(mv.id);
                Ok("move")
            }
            3 => {
                let id = *rng.pick(&ids);
                let f = self.secrets[&id].folder;
                self.d1.account.delete_secret(&id, opts(&f)).await.map_err(|e| format!("delete_secret: {e}"))?;
                self.log.push(format!("delete secret {id} in {f}"));
                self.secrets.remove(&id);
                Ok("delete_secret")
            }
            4 => {
                let f = *rng.pick(&extra_folders);
                self.d1.account.delete_folder(&f).await.map_err(|e| format!("delete_folder: {e}"))?;
                let n = self.secrets.values().filter(|s| s.folder == f).count();
                self.log.push(format!("delete folder {f} holding {n} file secret(s)"));
                self.secrets.retain(|_, s| s.folder != f);
                self.notes.retain(|_, g| *g != f);
                self.folders.retain(|g| *g != f);
                Ok("delete_folder")
            }
            _ => {
                let fc = self.d1.account.create_folder(NewFolderOptions::new(format!("folder {}", rng.token(5)))).await.map_err(|e| format!("create_folder: {e}"))?;
                self.log.push(format!("create folder {}", fc.folder.id()));
                self.folders.push(*fc.folder.id());
                Ok("create_folder")
            }
        }
    }

    /// The invariant on the editing device, after every operation.
    async fn check_device1(&mut self, rep: &mut Reporter, ctx: &Value) {
        let from_log: BTreeSet<Key> = match self.d1.account.canonical_files().await {
            Ok(s) => s.iter().map(key_of).collect(),
            Err(e) => {
                rep.violation("C17:file_log:device1:unreadable", &format!("canonical_files failed: {e}"), ctx.clone());
                return;
            }
        };
        let listing = list_blobs(&self.d1.files_dir());
        judge_listing(rep, "device1", "file_log", &listing, &from_log, ctx, true);
        judge_names(rep, "device1", &listing, ctx);
        match self.model_set().await {
            Ok(model) => {
                if model != from_log {
                    let only_log: Vec<&Key> = from_log.difference(&model).collect();
                    let only_model: Vec<&Key> = model.difference(&from_log).collect();
                    rep.violation("C17:file_log_vs_secrets:device1", &format!("replaying the file log names other blobs than the live file secrets do; only in log: {:?}; only in secrets: {:?}", &only_log[..only_log.len().min(4)], &only_model[..only_model.len().min(4)]), ctx.clone());
                }
                judge_listing(rep, "device1", "live_secrets", &listing, &model, ctx, true);
            }
            Err(e) => rep.violation("C17:secret_readback:device1", &e, ctx.clone()),
        }
        let ids: Vec<SecretId> = std::mem::take(&mut self.dirty1).into_iter().collect();
        self.check_decrypt(rep, &self.d1, ctx, &ids).await;
    }

    async fn check_decrypt(&self, rep: &mut Reporter, dev: &Dev, ctx: &Value, ids: &[SecretId]) {
        for id in ids {
            let Some(fs) = self.secrets.get(id) else { continue };
            let (row, _) = match dev.account.read_secret(id, Some(&fs.folder)).await {
                Ok(r) => r,
                Err(e) => {
                    rep.violation(&format!("C17:secret_readback:{}", dev.name), &format!("read_secret {id}: {e}"), ctx.clone());
                    continue;
                }
            };
            let Secret::File { content: FileContent::External { checksum, .. }, .. } = row.secret() else { continue };
            let name: ExternalFileName = (*checksum).into();
            rep.count("decrypt_checks", 1);
            match dev.account.download_file(&fs.folder, id, &name).await {
                Ok(bytes) => {
                    if bytes != fs.plain {
                        rep.violation(&format!("C17:decrypt:{}:differs", dev.name), &format!("{}: blob of secret {id} decrypts to {} bytes that differ from the {} original bytes", dev.name, bytes.len(), fs.plain.len()), ctx.clone());
                    }
                }
                // age refuses a work factor it measures as too slow for this machine *right now*:
                // under load that is an environment condition, not a property verdict
                Err(e) if e.to_string().contains("Excessive work parameter") => rep.count("decrypt_skipped_machine_too_loaded", 1),
                Err(e) => rep.violation(&format!("C17:decrypt:{}:failed", dev.name), &format!("{}: download_file of secret {id}: {e}", dev.name), ctx.clone()),
            }
        }
    }

    /// Let transfers settle, then check the server and device 2.
    async fn sync_point(&mut self, rep: &mut Reporter, ctx: &Value, polls: usize) {
        rep.count("sync_points", 1);
        let dbg = std::env::var("C17_DEBUG").is_ok();
        if dbg {
            eprintln!("DBG t={:.2} sync point", rep.elapsed_s());
        }
        // device 1 -> server
        if let Some(e) = self.d1.account.sync().await.first_error() {
            rep.inconclusive(&format!("device 1 sync failed: {e}"));
            return;
        }
        let expected: BTreeSet<Key> = match self.d1.account.canonical_files().await {
            Ok(s) => s.iter().map(key_of).collect(),
            Err(_) => return,
        };
        let sdir = self.server_files_dir();
        let exp = expected.clone();
        let sdir2 = sdir.clone();
        let ok = move || {
            let l = list_blobs(&sdir2);
            l.strays.is_empty() && l.blobs.keys().cloned().collect::<BTreeSet<_>>() == exp
        };
        let s = settle(&self.d1, polls, &ok).await;
        rep.count(&format!("settle:device1:{s:?}"), 1);
        if dbg {
            eprintln!("DBG t={:.2} device1 settle {s:?} {}", rep.elapsed_s(), self.d1.tally_text());
        }
        let listing = list_blobs(&sdir);
        match s {
            Settle::OutOfPolls => {
                rep.inconclusive(&format!("transfers of device 1 did not settle within the poll bound ({})", self.d1.tally_text()));
                return;
            }
            Settle::Settled | Settle::QuietButDiffers => {
                let mut c = ctx.clone();
                c["transfers"] = json!(self.d1.tally_text());
                judge_listing(rep, "server", "file_log", &listing, &expected, &c, true);
                judge_names(rep, "server", &listing, &c);
                // the server's own file log must name the same set
                if let Some(acc) = { self.server.backend.read().await.accounts().read().await.get(&self.account_id).cloned() } {
                    let acc = acc.read().await;
                    if let Ok(files) = acc.canonical_files().await {
                        let server_log: BTreeSet<Key> = files.iter().map(key_of).collect();
                        if server_log != expected {
                            rep.violation("C17:file_log:server_vs_device1:differs", "after a successful sync the server's file log replays to another set of files than device 1's", c.clone());
                        }
                    }
                }
            }
        }
        // a late upload: at every other sync point one of the blobs device 2 still needs is
        // moved aside on the server (as if its upload were still in flight) while at least one
        // other new blob is there; it comes back 1.5 s after device 2's first sync, and the
        // device must still end up with it (failed downloads are retried)
        self.sync_points += 1;
        let mut late: Option<(PathBuf, PathBuf)> = None;
        if self.sync_points % 4 != 1 {
            let have2: BTreeSet<Key> = list_blobs(&self.d2.files_dir()).blobs.keys().cloned().collect();
            let pending: Vec<&Key> = expected.difference(&have2).collect();
            if pending.len() >= 2 {
                let k = pending[pending.len() / 2];
                let path = self.server_files_dir().join(&k.0).join(&k.1).join(&k.2);
                let aside = path.with_extension("late");
                if std::fs::rename(&path, &aside).is_ok() {
                    rep.count("late_blobs_on_server", 1);
                    late = Some((aside, path));
                }
            }
        }
        // server -> device 2; "synced" means converged: a device that itself logged file
        // events while merging (a merged folder deletion) needs a further round (bound as in C04)
        let mut expected2: BTreeSet<Key> = BTreeSet::new();
        for round in 0..3 {
            let commits_before = file_log_commits(&self.d2.account).await;
            let set_before: BTreeSet<Key> = self.d2.account.canonical_files().await.map(|s| s.iter().map(key_of).collect()).unwrap_or_default();
            if let Some(e) = self.d2.account.sync().await.first_error() {
                rep.inconclusive(&format!("device 2 sync failed: {e}"));
                return;
            }
            expected2 = match self.d2.account.canonical_files().await {
                Ok(s) => s.iter().map(key_of).collect(),
                Err(_) => return,
            };
            if let Some((aside, path)) = late.take() {
                tokio::time::sleep(Duration::from_millis(1500)).await;
                let _ = std::fs::rename(&aside, &path);
            }
            let commits_after = file_log_commits(&self.d2.account).await;
            if !commits_after.starts_with(&commits_before) {
                rep.count("device2_file_log_auto_merges", 1);
                self.via_auto_merge.extend(expected2.difference(&set_before).cloned());
            }
            if expected2 == expected {
                rep.count(&format!("device2_converged_in_rounds:{}", round + 1), 1);
                break;
            }
            if let Some(e) = self.d1.account.sync().await.first_error() {
                rep.inconclusive(&format!("device 1 sync failed: {e}"));
                return;
            }
        }
        if expected2 != expected {
            // raw file logs for the witness
            let mut raw = vec![];
            for (name, acc) in [("device1", &self.d1.account), ("device2", &self.d2.account)] {
                if let Ok(log) = acc.file_log().await {
                    use futures::StreamExt;
                    use sos_core::events::EventLog;
                    let log = log.read().await;
                    let st = log.event_stream(false).await;
                    futures::pin_mut!(st);
                    let mut evs = vec![];
                    while let Some(Ok((rec, ev))) = st.next().await {
                        evs.push(format!("{} {:?}", hex::encode(&rec.commit().0[..3]), ev).chars().take(150).collect::<String>());
                    }
                    raw.push(json!({"who": name, "file_log": evs}));
                }
            }
            let mut ctx = ctx.clone();
            ctx["raw_file_logs"] = json!(raw);
            let only1: Vec<&Key> = expected.difference(&expected2).take(4).collect();
            let only2: Vec<&Key> = expected2.difference(&expected).take(4).collect();
            rep.violation("C17:file_log:device2_vs_device1:differs", &format!("after three rounds of syncs without error the file logs of the two devices replay to different sets of files; only on device 1: {only1:?}; only on device 2: {only2:?}"), ctx.clone());
        }
        let ddir = self.d2.files_dir();
        let exp = expected2.clone();
        let ddir2 = ddir.clone();
        let ok2 = move || {
            let l = list_blobs(&ddir2);
            l.strays.is_empty() && l.blobs.keys().cloned().collect::<BTreeSet<_>>() == exp
        };
        let s = settle(&self.d2, polls, &ok2).await;
        rep.count(&format!("settle:device2:{s:?}"), 1);
        if dbg {
            eprintln!("DBG t={:.2} device2 settle {s:?} {}", rep.elapsed_s(), self.d2.tally_text());
        }
        if s == Settle::OutOfPolls {
            rep.inconclusive(&format!("transfers of device 2 did not settle within the poll bound ({})", self.d2.tally_text()));
            return;
        }
        let listing = list_blobs(&ddir);
        let mut c = ctx.clone();
        c["transfers"] = json!(self.d2.tally_text());
        // blobs whose events came in through an auto-merge of the file log are judged under
        // their own signature (the merge outcome of that path never reaches the download queue)
        let have: BTreeSet<Key> = listing.blobs.keys().cloned().collect();
        let missing_am: Vec<Key> = expected2.difference(&have).filter(|k| self.via_auto_merge.contains(*k)).cloned().collect();
        if !missing_am.is_empty() {
            rep.violation("C17:blobs_vs_file_log:device2:missing_blob_after_file_log_auto_merge", &format!("device2: {} blob(s) named by its file log were never downloaded; their events arrived while the device's file log was auto-merged: {:?}", missing_am.len(), &missing_am[..missing_am.len().min(4)]), c.clone());
        }
        let expected2: BTreeSet<Key> = expected2.into_iter().filter(|k| !missing_am.contains(k)).collect();
        let equal = judge_listing(rep, "device2", "file_log", &listing, &expected2, &c, true);
        judge_names(rep, "device2", &listing, &c);
        let _ = equal;
        {
            // at most two decrypts per sync point (one scrypt run each)
            let skip: BTreeSet<String> = missing_am.iter().map(|k| k.1.clone()).collect();
            let ids: Vec<SecretId> = self.dirty2.iter().copied().filter(|i| self.secrets.contains_key(i) && !skip.contains(&i.to_string())).take(2).collect();
            self.check_decrypt(rep, &self.d2, &c, &ids).await;
            self.dirty2.clear();
        }
    }
}

// ----------------------------------------------------------- upload checks

struct Signer<'a> {
    id: AccountId,
    signer: &'a sos_signer::ed25519::BoxedEd25519Signer,
}

async fn signed(s: &Signer<'_>, method: &str, path: &str, body: Option<Vec<u8>>) -> RawReq {
    let bearer = http::bearer_for(s.signer, path.as_bytes()).await;
    RawReq { method: method.into(), target: format!("{path}?connection_id=verif"), headers: vec![(http::ACCOUNT_HEADER.into(), s.id.to_string()), ("authorization".into(), format!("Bearer {bearer}"))], body }
}

fn leftovers(files_dir: &Path, vault: &VaultId, secret: &SecretId) -> Vec<String> {
    let d = files_dir.join(vault.to_string()).join(secret.to_string());
    std::fs::read_dir(&d).into_iter().flatten().flatten().map(|e| e.file_name().to_string_lossy().to_string()).collect()
}

async fn upload_checks(args: &Args, rep: &mut Reporter, rng: &mut Rng, w: &World, ctx: &Value) {
    let client = http::raw_client();
    let signer: sos_signer::ed25519::BoxedEd25519Signer = match w.d1.account.device_signer().await {
        Ok(s) => s.into(),
        Err(_) => return,
    };
    let s = Signer { id: w.account_id, signer: &signer };
    let sdir = w.server_files_dir();
    let vault = w.default_folder;
    let sizes: Vec<usize> = if args.thorough() { vec![1, 300, 70_000, 400_000] } else { vec![300, 70_000] };
    for size in sizes {
        let good = rng.bytes(size);
        let name = hex::encode(vkit::sha256(&good));
        let variants: Vec<(&str, Vec<u8>)> = vec![
            ("altered_body", {
                let mut b = good.clone();
                let i = rng.usize(b.len());
                b[i] ^= 1 << rng.below(8);
                b
            }),
            ("truncated_body", good[..good.len() - 1 - rng.usize(good.len().min(50))].to_vec()),
            ("empty_body", vec![]),
            ("extended_body", {
                let mut b = good.clone();
                let extra = 1 + rng.usize(20);
                b.extend(rng.bytes(extra));
                b
            }),
        ];
        for (kind, body) in variants {
            let secret = SecretId::new_v4();
            let path = format!("{V1}/sync/file/{vault}/{secret}/{name}");
            let mut h = Fnv::new();
            h.str("upload").str(kind).u64(size as u64).bytes(&body[..body.len().min(64)]);
            rep.case(h.finish(), true);
            rep.count("upload_requests", 1);
            let req = signed(&s, "PUT", &path, Some(body.clone())).await;
            let mut c = ctx.clone();
            c["upload"] = json!({"kind": kind, "size": size, "path": path});
            match http::raw(&client, &w.server.url, &req, WAIT).await {
                Ok(r) => {
                    rep.count(&format!("upload:{kind}:status:{}", r.status), 1);
                    if (200..300).contains(&r.status) {
                        rep.violation(&format!("C17:upload:{kind}:accepted"), &format!("an upload whose bytes do not hash to the requested name was answered {}", r.status), c.clone());
                    } else {
                        rep.count("upload_refused", 1);
                    }
                }
                Err(e) => {
                    rep.inconclusive(&format!("upload ({kind}) got no answer: {e:?}"));
                    continue;
                }
            }
            let left = leftovers(&sdir, &vault, &secret);
            if !left.is_empty() {
                let clause = if left.iter().any(|n| n == &name) { "file_present_after_refusal" } else { "temp_file_left_behind" };
                rep.violation(&format!("C17:upload:{kind}:{clause}"), &format!("after the refused upload the secret's directory on the server holds {left:?}"), c.clone());
            }
            // and the name is not served
            let get = signed(&s, "GET", &path, None).await;
            if let Ok(r) = http::raw(&client, &w.server.url, &get, WAIT).await {
                if r.status == 200 {
                    rep.violation(&format!("C17:upload:{kind}:served_after_refusal"), &format!("GET of the refused upload answers 200 with {} bytes", r.body.len()), c.clone());
                }
            }
        }

        // correct upload, paced by the harness, with concurrent readers
        let secret = SecretId::new_v4();
        let path = format!("{V1}/sync/file/{vault}/{secret}/{name}");
        let mut c = ctx.clone();
        c["upload"] = json!({"kind": "paced_valid", "size": size, "path": path});
        let mut h = Fnv::new();
        h.str("upload").str("paced_valid").u64(size as u64).bytes(&good[..good.len().min(64)]);
        rep.case(h.finish(), true);
        rep.count("upload_requests", 1);
        let (tx, rx) = tokio::sync::mpsc::channel::<Result<Vec<u8>, std::io::Error>>(4);
        let stream = futures::stream::unfold(rx, |mut rx| async move { rx.recv().await.map(|x| (x, rx)) });
        let bearer = http::bearer_for(&signer, path.as_bytes()).await;
        let url = format!("{}{}?connection_id=verif", w.server.url.as_str().trim_end_matches('/'), path);
        let put = client.put(&url).header(http::ACCOUNT_HEADER, w.account_id.to_string()).header("authorization", format!("Bearer {bearer}")).body(reqwest::Body::wrap_stream(stream)).send();
        let put = tokio::spawn(put);
        let half = (good.len() / 2).max(1).min(good.len());
        let _ = tx.send(Ok(good[..half].to_vec())).await;
        // wait (bounded) until the server has started writing the temp file
        let mut started = false;
        for _ in 0..200 {
            if leftovers(&sdir, &vault, &secret).iter().any(|n| n.ends_with(".upload")) {
                started = true;
                break;
            }
            tokio::time::sleep(Duration::from_millis(25)).await;
        }
        if started {
            rep.count("paced_uploads_observed_in_flight", 1);
            let get = signed(&s, "GET", &path, None).await;
            match http::raw(&client, &w.server.url, &get, WAIT).await {
                Ok(r) => {
                    rep.count(&format!("get_during_upload:status:{}", r.status), 1);
                    if r.status == 200 {
                        rep.violation("C17:upload:in_flight:partial_file_served", &format!("GET during an unfinished upload answered 200 with {} of {} bytes", r.body.len(), good.len()), c.clone());
                    }
                }
                Err(e) => rep.inconclusive(&format!("GET during upload got no answer: {e:?}")),
            }
            // the comparison must not offer the unfinished file for download
            let cmp_path = format!("{V1}/sync/files");
            let cmp = signed(&s, "POST", &cmp_path, Some(FileSet(Default::default()).encode().await.unwrap_or_default())).await;
            if let Ok(r) = http::raw(&client, &w.server.url, &cmp, WAIT).await {
                if r.status == 200 {
                    if let Ok(set) = FileTransfersSet::decode(bytes::Bytes::from(r.body.clone())).await {
                        rep.count("compare_during_upload", 1);
                        if set.downloads.0.iter().any(|f| f.secret_id() == &secret) {
                            rep.violation("C17:upload:in_flight:listed_by_compare_files", "the file comparison offers an unfinished upload for download", c.clone());
                        }
                    }
                }
            }
            let names = leftovers(&sdir, &vault, &secret);
            if names.iter().any(|n| n == &name) {
                rep.violation("C17:upload:in_flight:final_name_present", "the final file name exists on the server before the upload finished", c.clone());
            }
        } else {
            rep.count("paced_uploads_not_observed_in_flight", 1);
        }
        let _ = tx.send(Ok(good[half..].to_vec())).await;
        drop(tx);
        match tokio::time::timeout(WAIT, put).await {
            Ok(Ok(Ok(r))) => {
                let st = r.status().as_u16();
                rep.count(&format!("upload:valid:status:{st}"), 1);
                if st != 200 {
                    rep.violation("C17:upload:valid_body:refused", &format!("a correct upload was answered {st}"), c.clone());
                } else {
                    match std::fs::read(sdir.join(vault.to_string()).join(secret.to_string()).join(&name)) {
                        Ok(b) if b == good => rep.count("upload_valid_stored", 1),
                        Ok(b) => rep.violation("C17:upload:valid_body:stored_bytes_differ", &format!("stored {} bytes, sent {}", b.len(), good.len()), c.clone()),
                        Err(e) => rep.violation("C17:upload:valid_body:not_stored", &format!("answered 200 but the file is not there: {e}"), c.clone()),
                    }
                    let left = leftovers(&sdir, &vault, &secret);
                    if left.iter().any(|n| n.ends_with(".upload")) {
                        rep.violation("C17:upload:valid_body:temp_file_left_behind", &format!("{left:?}"), c.clone());
                    }
                    let get = signed(&s, "GET", &path, None).await;
                    if let Ok(r) = http::raw(&client, &w.server.url, &get, WAIT).await {
                        if r.status != 200 || r.body != good {
                            rep.violation("C17:upload:valid_body:download_differs", &format!("GET after upload: status {} with {} bytes", r.status, r.body.len()), c.clone());
                        }
                    }
                }
            }
            Ok(Ok(Err(e))) => rep.inconclusive(&format!("paced upload failed on the client side: {e}")),
            _ => rep.inconclusive("paced upload not answered within the bounded wait"),
        }

        // aborted upload: half the body, then the client goes away
        let secret = SecretId::new_v4();
        let path = format!("{V1}/sync/file/{vault}/{secret}/{name}");
        let mut c = ctx.clone();
        c["upload"] = json!({"kind": "aborted", "size": size, "path": path});
        rep.count("upload_requests", 1);
        let mut h = Fnv::new();
        h.str("upload").str("aborted").u64(size as u64).bytes(&good[..good.len().min(64)]);
        rep.case(h.finish(), true);
        let (tx, rx) = tokio::sync::mpsc::channel::<Result<Vec<u8>, std::io::Error>>(4);
        let stream = futures::stream::unfold(rx, |mut rx| async move { rx.recv().await.map(|x| (x, rx)) });
        let bearer = http::bearer_for(&signer, path.as_bytes()).await;
        let url = format!("{}{}?connection_id=verif", w.server.url.as_str().trim_end_matches('/'), path);
        let abort_client = http::raw_client();
        let put = tokio::spawn(abort_client.put(&url).header(http::ACCOUNT_HEADER, w.account_id.to_string()).header("authorization", format!("Bearer {bearer}")).body(reqwest::Body::wrap_stream(stream)).send());
        let _ = tx.send(Ok(good[..half].to_vec())).await;
        let mut started = false;
        for _ in 0..200 {
            if leftovers(&sdir, &vault, &secret).iter().any(|n| n.ends_with(".upload")) {
                started = true;
                break;
            }
            tokio::time::sleep(Duration::from_millis(25)).await;
        }
        let _ = tx.send(Err(std::io::Error::new(std::io::ErrorKind::Other, "client gone"))).await;
        drop(tx);
        put.abort();
        let _ = put.await;
        if started {
            // the per-file lock is released when the first handler has returned:
            // only then is the directory judged (no wall-clock oracle)
            let mut released = false;
            for _ in 0..200 {
                let get = signed(&s, "GET", &path, None).await;
                match http::raw(&client, &w.server.url, &get, WAIT).await {
                    Ok(r) if r.status == 409 => tokio::time::sleep(Duration::from_millis(25)).await,
                    Ok(r) => {
                        released = true;
                        if r.status == 200 {
                            rep.violation("C17:upload:aborted:partial_file_served", &format!("after an aborted upload GET answers 200 with {} bytes", r.body.len()), c.clone());
                        }
                        break;
                    }
                    Err(_) => break,
                }
            }
            if released {
                rep.count("aborted_uploads_checked", 1);
                let left = leftovers(&sdir, &vault, &secret);
                if !left.is_empty() {
                    rep.violation("C17:upload:aborted:file_left_behind", &format!("after an aborted upload the server keeps {left:?}"), c.clone());
                }
            } else {
                rep.inconclusive("the file lock of an aborted upload was not released within the poll bound");
            }
        }
    }
}

// --------------------------------------------------------------------- run

async fn history(args: &Args, rep: &mut Reporter, rng: &mut Rng, base: &Path, p: &Pristine, hix: usize, server_db: bool) -> anyhow::Result<()> {
    let dir = base.join(format!("h{hix}"));
    let _ = std::fs::remove_dir_all(&dir);
    std::fs::create_dir_all(&dir)?;
    let server = TestServer::start(&dir.join("server"), &Access::none(), server_db).await?;
    let d1 = Dev::open("device1", p, &dir.join("device1"), &server.origin).await?;
    let d2 = Dev::open("device2", p, &dir.join("device2"), &server.origin).await?;
    let default_folder = *d1.account.default_folder().await.ok_or_else(|| anyhow::anyhow!("no default folder"))?.id();
    let tmp = dir.join("tmp");
    std::fs::create_dir_all(&tmp)?;
    let mut w = World { server, account_id: p.account_id, d1, d2, folders: vec![default_folder], default_folder, secrets: BTreeMap::new(), notes: BTreeMap::new(), via_auto_merge: BTreeSet::new(), sync_points: 0, dirty1: BTreeSet::new(), dirty2: BTreeSet::new(), log: vec![], tmp, max_bytes: args.by_tier(200_000, 2_000_000) };
    let n_ops = args.by_tier(8usize, 24usize);
    let polls = args.by_tier(400usize, 1200usize);
    let mut kinds: BTreeSet<&'static str> = BTreeSet::new();
    for step in 0..n_ops {
        let kind = match w.one_op(rng).await {
            Ok(k) => k,
            Err(e) => {
                let ctx = w.ctx(args, hix, server_db, p.config.backend);
                rep.violation("C17:operation_failed:device1", &format!("a legal file-secret operation failed: {e}"), ctx);
                break;
            }
        };
        kinds.insert(kind);
        if std::env::var("C17_DEBUG").is_ok() {
            eprintln!("DBG t={:.2} op {kind}: {}", rep.elapsed_s(), w.log.last().cloned().unwrap_or_default());
        }
        rep.count(&format!("op:{kind}"), 1);
        if hix == 0 && w.log.len() == 6 {
            rep.sample(json!({"history": hix, "first_ops": w.log.clone(), "server_backend": if server_db { "db" } else { "fs" }}));
        }
        let ctx = w.ctx(args, hix, server_db, p.config.backend);
        let mut h = Fnv::new();
        h.str(kind).u64(w.secrets.len() as u64).u64(w.folders.len() as u64).u64(w.secrets.values().map(|s| s.plain.len() as u64).sum());
        for l in &w.log {
            h.u64(l.len() as u64);
        }
        rep.case(h.finish(), !w.secrets.is_empty() || kind != "create_folder");
        w.check_device1(rep, &ctx).await;
        if step + 1 < n_ops && rng.chance(1, 4) {
            w.sync_point(rep, &ctx, polls).await;
        }
    }
    let ctx = w.ctx(args, hix, server_db, p.config.backend);
    w.sync_point(rep, &ctx, polls).await;
    rep.max("op_kinds_in_a_history", kinds.len() as u64);
    if std::env::var("C17_DEBUG").is_ok() {
        eprintln!("DBG t={:.2} upload checks", rep.elapsed_s());
    }
    upload_checks(args, rep, rng, &w, &ctx).await;
    if std::env::var("C17_DEBUG").is_ok() {
        eprintln!("DBG t={:.2} history done", rep.elapsed_s());
    }
    if w.server.died() {
        rep.violation("C17:server_task_ended", "the server task ended during the history", ctx.clone());
    }
    let World { server, d1, d2, .. } = w;
    d1.close().await;
    d2.close().await;
    server.shutdown().await;
    let _ = std::fs::remove_dir_all(&dir);
    Ok(())
}

pub async fn run(args: &Args, rep: &mut Reporter) {
    http::install_panic_watch();
    let mut rng = Rng::new(args.shard_seed() ^ 0xC17);
    let base = args.dir.join(format!("c17-s{}-{}of{}", args.seed, args.shard, args.shards));
    let _ = std::fs::remove_dir_all(&base);
    if let Err(e) = std::fs::create_dir_all(&base) {
        rep.inconclusive(&format!("cannot create scratch dir: {e}"));
        return;
    }
    let budget = if args.budget_s > 0 { args.budget_s as f64 } else { args.by_tier(75.0, 780.0) };
    let max_histories = args.by_tier(6usize, 400usize);
    let client_backends: Vec<Backend> = if args.thorough() { vec![Backend::Fs, Backend::Db] } else { vec![Backend::Fs] };
    let mut pristines = vec![];
    for (i, b) in client_backends.iter().enumerate() {
        match http::pristine(&base.join(format!("pristine-{i}")), *b, &mut rng).await {
            Ok(p) => pristines.push(p),
            Err(e) => rep.inconclusive(&format!("account creation failed: {e}")),
        }
    }
    if pristines.is_empty() {
        return;
    }
    let panics0 = http::panics_seen();
    let mut durations: Vec<f64> = vec![];
    for hix in 0..max_histories {
        let longest = durations.iter().cloned().fold(0.0, f64::max);
        if rep.elapsed_s() + longest > budget && hix > 0 {
            break;
        }
        let t0 = rep.elapsed_s();
        let p = &pristines[hix % pristines.len()];
        let server_db = args.thorough() && (hix / pristines.len()) % 2 == 1;
        let mut hrng = rng.fork(hix as u64);
        if let Err(e) = history(args, rep, &mut hrng, &base, p, hix, server_db).await {
            rep.inconclusive(&format!("history {hix} could not be set up: {e}"));
        }
        rep.count("histories", 1);
        durations.push(rep.elapsed_s() - t0);
    }
    for p in http::panics_since(panics0) {
        rep.count("panics_observed_in_process", 1);
        rep.sample(json!({"panic": p}));
    }
    let _ = std::fs::remove_dir_all(&base);
}
