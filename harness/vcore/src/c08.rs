//! C08 — commit comparison tells the truth.
//!
//! Oracle: plain list arithmetic on leaf sequences.
//!  (a) `a.compare(head(b))` == Equal iff a == b; Contains([len(b)-1]) iff
//!      b is a proper prefix of a; Unknown otherwise.
//!  (b) a single-leaf proof of index i taken from `a` verifies against the
//!      leaves of `b` (any length > i) iff a[i] == b[i].
//! Enumeration: all pairs of sequences over a 3-letter leaf alphabet with
//! lengths 1..=L (sharded by the index of `a`), plus random long pairs with
//! planted repeats / shared prefixes.
use serde_json::json;
use sos_core::commit::{CommitTree, Comparison};
use vkit::{Args, Reporter, Rng};

type Leaf = [u8; 32];

fn leaf(sym: u8) -> Leaf {
    CommitTree::hash(&[b'L', sym])
}

fn tree_of(seq: &[u8]) -> CommitTree {
    let mut t = CommitTree::new();
    let mut leaves: Vec<Leaf> = seq.iter().map(|s| leaf(*s)).collect();
    t.append(&mut leaves);
    t.commit();
    t
}

fn is_prefix(b: &[u8], a: &[u8]) -> bool {
    b.len() <= a.len() && a[..b.len()] == *b
}

fn seqs_up_to(alpha: u8, max_len: usize) -> Vec<Vec<u8>> {
    let mut out = vec![];
    for len in 1..=max_len {
        let total = (alpha as usize).pow(len as u32);
        for mut n in 0..total {
            let mut s = Vec::with_capacity(len);
            for _ in 0..len {
                s.push((n % alpha as usize) as u8);
                n /= alpha as usize;
            }
            out.push(s);
        }
    }
    out
}

fn show(seq: &[u8]) -> String {
    seq.iter().map(|s| (b'a' + (*s % 26)) as char).collect()
}

fn check_pair(rep: &mut Reporter, a: &[u8], ta: &CommitTree, b: &[u8], tb: &CommitTree, single: bool) {
    // (a) compare against the head proof of b
    let head_b = match tb.head() {
        Ok(h) => h,
        Err(e) => {
            rep.violation("C08:head_error", &format!("head() failed on non-empty tree: {e}"), json!({"b": show(b)}));
            return;
        }
    };
    let expect = if a == b {
        Comparison::Equal
    } else if is_prefix(b, a) {
        Comparison::Contains(vec![b.len() - 1])
    } else {
        Comparison::Unknown
    };
    match ta.compare(&head_b) {
        Ok(got) => {
            match &got {
                Comparison::Equal => rep.count("compare_equal", 1),
                Comparison::Contains(_) => rep.count("compare_contains", 1),
                Comparison::Unknown => rep.count("compare_unknown", 1),
            }
            if got != expect {
                let kind = match (&expect, &got) {
                    (Comparison::Unknown, Comparison::Contains(_)) => "contains_but_not_prefix",
                    (Comparison::Unknown, Comparison::Equal) => "equal_but_different",
                    (Comparison::Contains(_), Comparison::Unknown) => "prefix_but_unknown",
                    (Comparison::Contains(_), Comparison::Contains(_)) => "contains_wrong_position",
                    (Comparison::Equal, _) => "same_but_not_equal",
                    _ => "other",
                };
                rep.violation(
                    &format!("C08:compare:{kind}"),
                    &format!("local {:?}.compare(head of {:?}) = {:?}, sequence arithmetic says {:?}", show(a), show(b), got, expect),
                    json!({"kind":"compare","local": show(a), "other": show(b), "got": format!("{got:?}"), "expect": format!("{expect:?}")}),
                );
            }
        }
        Err(e) => rep.violation("C08:compare:error", &format!("compare returned Err on non-empty trees: {e}"), json!({"local": show(a), "other": show(b)})),
    }
    // contains() must agree with compare()
    if let Ok(c) = ta.contains(&head_b) {
        let want = matches!(expect, Comparison::Contains(_));
        if c.is_some() != want {
            rep.violation("C08:contains:disagrees", &format!("contains() = {:?} for local {:?} other {:?}", c.is_some(), show(a), show(b)), json!({"kind":"contains","local": show(a), "other": show(b)}));
        }
    }
    // (b) single-leaf proofs from a against the leaves of b
    if single {
        let leaves_b = tb.leaves().unwrap_or_default();
        for i in 0..a.len().min(b.len()) {
            let p = ta.proof(&[i]).expect("proof");
            let (ok, _) = p.verify_leaves(&leaves_b);
            rep.count("single_leaf_proofs", 1);
            let agree = a[i] == b[i];
            if agree && a.len() != b.len() {
                rep.count("single_leaf_proofs_agree_diff_len", 1);
            }
            if ok != agree {
                let kind = if agree {
                    if a.len() == b.len() { "agree_same_len_rejected" } else { "agree_diff_len_rejected" }
                } else {
                    "disagree_accepted"
                };
                rep.violation(
                    &format!("C08:verify_leaves:{kind}"),
                    &format!("proof of index {i} from {:?} (len {}) against leaves of {:?} (len {}): verified={ok}, positions agree={agree}", show(a), a.len(), show(b), b.len()),
                    json!({"kind":"verify_leaves","from": show(a), "against": show(b), "index": i}),
                );
            }
        }
    }
}

pub fn run(args: &Args, rep: &mut Reporter) {
    let max_len = args.by_tier(7usize, 8usize);
    let alpha = 3u8;
    let seqs = seqs_up_to(alpha, max_len);
    let trees: Vec<CommitTree> = seqs.iter().map(|s| tree_of(s)).collect();
    let mut evals = 0u64;
    let mut nontrivial = 0u64;
    // single-leaf clause is checked exhaustively up to a smaller bound
    let single_len = args.by_tier(6usize, 7usize);
    for (ia, a) in seqs.iter().enumerate() {
        if ia % args.shards != args.shard {
            continue;
        }
        for (ib, b) in seqs.iter().enumerate() {
            let single = a.len() <= single_len && b.len() <= single_len;
            check_pair(rep, a, &trees[ia], b, &trees[ib], single);
            evals += 1;
            if a != b {
                nontrivial += 1;
            }
        }
    }
    rep.cases_enumerated(evals, nontrivial);
    rep.set_extra("enumeration", json!({"alphabet": alpha, "max_len": max_len, "single_leaf_max_len": single_len, "sequences": seqs.len()}));
    if args.shard == 0 {
        rep.sample(json!({"local": show(&seqs[40 % seqs.len()]), "other": show(&seqs[13 % seqs.len()]), "kind": "enumerated pair"}));
    }

    // random long pairs with planted structure
    let mut rng = Rng::new(args.shard_seed());
    let n_random = args.by_tier(4_000u64, 200_000u64) / args.shards as u64 + 1;
    for k in 0..n_random {
        let la = rng.range(1, 300) as usize;
        let a: Vec<u8> = (0..la).map(|_| rng.below(5) as u8).collect();
        let b: Vec<u8> = match rng.below(6) {
            0 => a[..rng.range(1, la as u64) as usize].to_vec(), // prefix
            1 => {
                // shared prefix then divergence, same last leaf
                let cut = rng.usize(la);
                let mut b = a[..cut].to_vec();
                let extra = rng.range(1, 20) as usize;
                for _ in 0..extra {
                    b.push(rng.below(5) as u8);
                }
                b
            }
            2 => {
                // same length, one position changed, last leaf kept
                let mut b = a.clone();
                let i = rng.usize(la);
                b[i] = (b[i] + 1 + rng.below(4) as u8) % 5;
                b
            }
            3 => {
                // a extended
                let mut b = a.clone();
                for _ in 0..rng.range(1, 10) {
                    b.push(rng.below(5) as u8);
                }
                b
            }
            4 => a.clone(),
            _ => {
                let lb = rng.range(1, 300) as usize;
                (0..lb).map(|_| rng.below(5) as u8).collect()
            }
        };
        let ta = tree_of(&a);
        let tb = tree_of(&b);
        check_pair(rep, &a, &ta, &b, &tb, k % 16 == 0 && a.len() <= 64 && b.len() <= 64);
        let mut h = vkit::Fnv::new();
        h.bytes(&a).bytes(&[0xfe]).bytes(&b);
        rep.case(h.finish(), a != b);
        rep.count("random_pairs", 1);
    }
    rep.set_exhaustive(true);
}
