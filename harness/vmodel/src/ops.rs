//! Operation generator + executor over a `LocalAccount`, keeping the
//! reference model in step. The model follows what the API *reported as
//! written*; the oracles compare it with what the account then serves.
use crate::model::AccountModel;
use crate::secgen::{meta_json, secret_json, Gen, Marker, KINDS};
use crate::snapshot::FolderView;
use secrecy::SecretString;
use sos_account::{Account, LocalAccount};
use sos_client_storage::{AccessOptions, NewFolderOptions};
use sos_core::{
    crypto::{AccessKey, Cipher, KeyDerivation},
    SecretId, VaultFlags, VaultId,
};
use sos_login::DelegatedAccess;
use sos_vault::secret::{FileContent, Secret, SecretRow};
use std::collections::BTreeMap;
use std::path::PathBuf;
use vkit::Rng;

#[derive(Clone, Debug)]
pub struct Weights {
    pub create: u32,
    pub update: u32,
    pub delete: u32,
    pub mov: u32,
    pub archive: u32,
    pub unarchive: u32,
    pub create_folder: u32,
    pub rename_folder: u32,
    pub flags: u32,
    pub describe: u32,
    pub delete_folder: u32,
    pub file_create: u32,
    pub file_update: u32,
    pub relock: u32,
    pub resign: u32,
    pub compact: u32,
    pub compact_account: u32,
    pub change_folder_pw: u32,
    pub change_account_pw: u32,
    pub change_cipher: u32,
    pub folder_api: u32,
    pub illegal: u32,
    /// add an external-file attachment (custom field) to an existing secret
    pub file_attach: u32,
    /// export a folder and import it as a copy: the same secret ids then live in two folders
    pub copy_folder: u32,
}

impl Weights {
    pub fn c01() -> Self {
        Weights {
            create: 22, update: 18, delete: 9, mov: 7, archive: 4, unarchive: 4,
            create_folder: 3, rename_folder: 3, flags: 3, describe: 4, delete_folder: 2,
            file_create: 3, file_update: 2, relock: 3, resign: 2,
            compact: 0, compact_account: 0, change_folder_pw: 0, change_account_pw: 0, change_cipher: 0,
            folder_api: 0, illegal: 3, file_attach: 0, copy_folder: 0,
        }
    }
    pub fn with_rewrites(mut self) -> Self {
        self.compact = 5;
        self.compact_account = 2;
        self.change_folder_pw = 3;
        self.change_account_pw = 2;
        self.change_cipher = 2;
        self
    }
    pub fn with_folder_api(mut self) -> Self {
        self.folder_api = 6;
        self
    }
    pub fn no_files(mut self) -> Self {
        self.file_create = 0;
        self.file_update = 0;
        self
    }
    fn list(&self) -> [u32; 24] {
        [
            self.create, self.update, self.delete, self.mov, self.archive, self.unarchive,
            self.create_folder, self.rename_folder, self.flags, self.describe, self.delete_folder,
            self.file_create, self.file_update, self.relock, self.resign,
            self.compact, self.compact_account, self.change_folder_pw, self.change_account_pw, self.change_cipher,
            self.folder_api, self.illegal, self.file_attach, self.copy_folder,
        ]
    }
}

/// Operation classes in the order of `Weights::list`.
pub const CHOICES: [&str; 24] = [
    "create", "update", "delete", "move", "archive", "unarchive", "create_folder", "rename_folder", "flags", "describe", "delete_folder",
    "file_create", "file_update", "relock", "resign", "compact", "compact_account", "change_folder_pw", "change_account_pw", "change_cipher",
    "folder_api", "illegal", "file_attach", "copy_folder",
];

pub struct Driver {
    pub rng: Rng,
    pub weights: Weights,
    pub model: AccountModel,
    pub password: SecretString,
    pub markers: Vec<Marker>,
    pub files_dir: PathBuf,
    pub max_folders: usize,
    pub max_secrets_per_folder: usize,
    pub max_file_bytes: usize,
    pub allow_large: bool,
    /// plaintext of external files by secret id (for attachment checks)
    pub file_plain: BTreeMap<SecretId, Vec<u8>>,
    /// folder passwords that were replaced (old keys), per folder
    pub old_folder_keys: Vec<(VaultId, AccessKey)>,
    pub old_account_passwords: Vec<SecretString>,
    pub log: Vec<String>,
    /// call `initialize_search_index` after every sign-in (what a client does)
    pub init_search: bool,
    /// flag bits the `flags` operation toggles (one per call)
    pub flag_pool: Vec<u64>,
}

#[derive(Debug, Clone)]
pub struct StepOutcome {
    pub op: String,
    pub kind: &'static str,
    /// the model says this operation is legal
    pub legal: bool,
    pub result: Result<(), String>,
    /// folders whose content was (or should have been) touched
    pub touched: Vec<VaultId>,
    /// a rewrite op (compaction / key change) ran on these folders
    pub rewrote: Vec<VaultId>,
}

fn opts(folder: &VaultId) -> AccessOptions {
    AccessOptions { folder: Some(*folder), ..Default::default() }
}

impl Driver {
    pub fn new(rng: Rng, weights: Weights, model: AccountModel, password: SecretString, files_dir: PathBuf) -> Self {
        Driver {
            rng, weights, model, password, markers: vec![], files_dir,
            max_folders: 7, max_secrets_per_folder: 8, max_file_bytes: 200_000, allow_large: true,
            file_plain: BTreeMap::new(), old_folder_keys: vec![], old_account_passwords: vec![], log: vec![], init_search: false, flag_pool: vec![VaultFlags::LOCAL.bits()],
        }
    }

    pub fn key(&self) -> AccessKey {
        self.password.clone().into()
    }

    fn gen_secret(&mut self, k: usize) -> (sos_vault::secret::SecretMeta, Secret) {
        let mut g = Gen::new(&mut self.rng);
        g.allow_large = self.allow_large;
        let out = g.secret_of_kind(k, 0);
        self.markers.extend(g.markers);
        out
    }

    fn folder_ids(&self) -> Vec<VaultId> {
        self.model.folder_ids_sorted()
    }
    fn user_folders(&self) -> Vec<VaultId> {
        // folders without special flags (created by the harness)
        self.model.folder_ids_sorted().into_iter().filter(|id| self.model.view.folders[id].flags & 0xff == 0).collect()
    }
    fn archive_folder(&self) -> Option<VaultId> {
        self.model.view.folders.iter().find(|(_, f)| f.flags & VaultFlags::ARCHIVE.bits() != 0).map(|(id, _)| *id)
    }
    fn pick_folder_with_room(&mut self) -> Option<VaultId> {
        let ids: Vec<VaultId> = self.model.folder_ids_sorted().into_iter().filter(|id| self.model.view.folders[id].secrets.len() < self.max_secrets_per_folder).collect();
        if ids.is_empty() { None } else { Some(*self.rng.pick(&ids)) }
    }
    fn pick_live(&mut self) -> Option<(VaultId, SecretId)> {
        let live = self.model.live_secrets();
        if live.is_empty() { None } else { Some(*self.rng.pick(&live)) }
    }

    fn kind_index(secret: &Secret) -> usize {
        let name = secret.kind().to_string().to_lowercase();
        KINDS.iter().position(|k| name.starts_with(&k[..3.min(k.len())]) || *k == name).unwrap_or(0)
    }

    /// Choose the next operation class (index into `CHOICES`).
    pub fn choose(&mut self) -> usize {
        let w = self.weights.list();
        self.rng.weighted(&w)
    }

    /// One random step.
    pub async fn step(&mut self, account: &mut LocalAccount) -> StepOutcome {
        let choice = self.choose();
        self.run_choice(choice, account).await
    }

    /// Execute an operation of the chosen class.
    pub async fn run_choice(&mut self, choice: usize, account: &mut LocalAccount) -> StepOutcome {
        let out = match choice {
            0 => self.op_create(account).await,
            1 => self.op_update(account).await,
            2 => self.op_delete(account).await,
            3 => self.op_move(account).await,
            4 => self.op_archive(account).await,
            5 => self.op_unarchive(account).await,
            6 => self.op_create_folder(account).await,
            7 => self.op_rename_folder(account).await,
            8 => self.op_flags(account).await,
            9 => self.op_describe(account).await,
            10 => self.op_delete_folder(account).await,
            11 => self.op_file_create(account).await,
            12 => self.op_file_update(account).await,
            13 => self.op_relock(account).await,
            14 => self.op_resign(account).await,
            15 => self.op_compact(account).await,
            16 => self.op_compact_account(account).await,
            17 => self.op_change_folder_pw(account).await,
            18 => self.op_change_account_pw(account).await,
            19 => self.op_change_cipher(account).await,
            20 => self.op_folder_api(account).await,
            21 => self.op_illegal(account).await,
            22 => self.op_file_attach(account).await,
            _ => self.op_copy_folder(account).await,
        };
        let out = match out {
            Some(o) => o,
            None => self.op_create(account).await.unwrap_or(StepOutcome { op: "noop".into(), kind: "noop", legal: true, result: Ok(()), touched: vec![], rewrote: vec![] }),
        };
        self.log.push(format!("{} => {}", out.op, match &out.result { Ok(()) => "ok".to_string(), Err(e) => format!("ERR {e}") }));
        out
    }

    async fn op_create(&mut self, account: &mut LocalAccount) -> Option<StepOutcome> {
        let f = self.pick_folder_with_room()?;
        let k = self.rng.usize(KINDS.len());
        let (meta, secret) = self.gen_secret(k);
        let op = format!("create_secret(folder={f}, kind={})", KINDS[k]);
        let r = account.create_secret(meta.clone(), secret.clone(), opts(&f)).await;
        let result = match r {
            Ok(change) => {
                self.model.put(&f, change.id, meta_json(&meta), secret_json(&secret));
                Ok(())
            }
            Err(e) => Err(format!("{e}")),
        };
        Some(StepOutcome { op, kind: "create", legal: true, result, touched: vec![f], rewrote: vec![] })
    }

    async fn op_update(&mut self, account: &mut LocalAccount) -> Option<StepOutcome> {
        let (f, id) = self.pick_live()?;
        let (row, _) = match account.read_secret(&id, Some(&f)).await {
            Ok(r) => r,
            Err(e) => {
                return Some(StepOutcome { op: format!("update_secret: read of live {id} in {f}"), kind: "update", legal: true, result: Err(format!("read before update failed: {e}")), touched: vec![f], rewrote: vec![] });
            }
        };
        if self.file_plain.contains_key(&id) {
            // external file secrets are updated through update_file
            return self.op_file_update_for(account, f, id).await;
        }
        let k = Self::kind_index(row.secret());
        let mode = self.rng.below(3);
        let (new_meta, new_secret): (sos_vault::secret::SecretMeta, Option<Secret>) = match mode {
            0 => {
                let mut g = Gen::new(&mut self.rng);
                let m = g.meta_for(row.secret(), KINDS[k]);
                self.markers.extend(g.markers);
                (m, None)
            }
            1 => {
                let (_, s) = self.gen_secret(k);
                (row.meta().clone(), Some(s))
            }
            _ => {
                let (m, s) = self.gen_secret(k);
                (m, Some(s))
            }
        };
        let op = format!("update_secret(folder={f}, id={id}, mode={})", ["meta", "value", "both"][mode as usize]);
        let r = account.update_secret(&id, new_meta.clone(), new_secret.clone(), opts(&f)).await;
        let result = match r {
            Ok(change) => {
                let old = self.model.folder(&f).and_then(|fm| fm.secrets.get(&id)).cloned();
                let value = match &new_secret {
                    Some(s) => secret_json(s),
                    None => old.map(|o| o.1).unwrap_or(serde_json::Value::Null),
                };
                if change.id != id {
                    self.model.remove(&f, &id);
                }
                self.model.put(&f, change.id, meta_json(&new_meta), value);
                Ok(())
            }
            Err(e) => Err(format!("{e}")),
        };
        Some(StepOutcome { op, kind: "update", legal: true, result, touched: vec![f], rewrote: vec![] })
    }

    async fn op_delete(&mut self, account: &mut LocalAccount) -> Option<StepOutcome> {
        let (f, id) = self.pick_live()?;
        let op = format!("delete_secret(folder={f}, id={id})");
        let r = account.delete_secret(&id, opts(&f)).await;
        let result = match r {
            Ok(_) => {
                self.model.remove(&f, &id);
                self.file_plain.remove(&id);
                Ok(())
            }
            Err(e) => Err(format!("{e}")),
        };
        Some(StepOutcome { op, kind: "delete", legal: true, result, touched: vec![f], rewrote: vec![] })
    }

    async fn op_move(&mut self, account: &mut LocalAccount) -> Option<StepOutcome> {
        let (f, id) = self.pick_live()?;
        let others: Vec<VaultId> = self.model.folder_ids_sorted().into_iter().filter(|g| *g != f && self.model.view.folders[g].secrets.len() < self.max_secrets_per_folder + 2).collect();
        if others.is_empty() {
            return None;
        }
        let g = *self.rng.pick(&others);
        let op = format!("move_secret(id={id}, from={f}, to={g})");
        let r = account.move_secret(&id, &f, &g, Default::default()).await;
        let result = match r {
            Ok(mv) => {
                if let Some((m, s)) = self.model.remove(&f, &id) {
                    self.model.put(&g, mv.id, m, s);
                }
                if let Some(p) = self.file_plain.remove(&id) {
                    self.file_plain.insert(mv.id, p);
                }
                Ok(())
            }
            Err(e) => Err(format!("{e}")),
        };
        Some(StepOutcome { op, kind: "move", legal: true, result, touched: vec![f, g], rewrote: vec![] })
    }

    async fn op_archive(&mut self, account: &mut LocalAccount) -> Option<StepOutcome> {
        let a = self.archive_folder()?;
        let live: Vec<(VaultId, SecretId)> = self.model.live_secrets().into_iter().filter(|(f, _)| *f != a).collect();
        if live.is_empty() {
            return None;
        }
        let (f, id) = *self.rng.pick(&live);
        let op = format!("archive(folder={f}, id={id})");
        let r = account.archive(&f, &id, Default::default()).await;
        let result = match r {
            Ok(mv) => {
                if let Some((m, s)) = self.model.remove(&f, &id) {
                    self.model.put(&a, mv.id, m, s);
                }
                if let Some(p) = self.file_plain.remove(&id) {
                    self.file_plain.insert(mv.id, p);
                }
                Ok(())
            }
            Err(e) => Err(format!("{e}")),
        };
        Some(StepOutcome { op, kind: "archive", legal: true, result, touched: vec![f, a], rewrote: vec![] })
    }

    async fn op_unarchive(&mut self, account: &mut LocalAccount) -> Option<StepOutcome> {
        let a = self.archive_folder()?;
        let ids: Vec<SecretId> = self.model.folder(&a)?.secrets.keys().copied().collect();
        if ids.is_empty() {
            return None;
        }
        let id = *self.rng.pick(&ids);
        let (row, _) = account.read_secret(&id, Some(&a)).await.ok()?;
        let kind = *row.meta().kind();
        let op = format!("unarchive(id={id}, kind={kind})");
        let r = account.unarchive(&id, &kind, Default::default()).await;
        let mut touched = vec![a];
        let result = match r {
            Ok((mv, dest)) => {
                touched.push(*dest.id());
                if let Some((m, s)) = self.model.remove(&a, &id) {
                    self.model.put(dest.id(), mv.id, m, s);
                }
                if let Some(p) = self.file_plain.remove(&id) {
                    self.file_plain.insert(mv.id, p);
                }
                Ok(())
            }
            Err(e) => Err(format!("{e}")),
        };
        Some(StepOutcome { op, kind: "unarchive", legal: true, result, touched, rewrote: vec![] })
    }

    async fn op_create_folder(&mut self, account: &mut LocalAccount) -> Option<StepOutcome> {
        if self.model.view.folders.len() >= self.max_folders {
            return None;
        }
        let name = format!("Folder {}", self.rng.token(6));
        let mut options = NewFolderOptions::new(name.clone());
        if self.rng.chance(1, 3) {
            options.cipher = Some(if self.rng.bool() { Cipher::AesGcm256 } else { Cipher::XChaCha20Poly1305 });
        }
        if self.rng.chance(1, 6) {
            options.kdf = Some(KeyDerivation::BalloonHash);
        }
        let op = format!("create_folder(name={name:?})");
        let r = account.create_folder(options).await;
        let mut touched = vec![];
        let result = match r {
            Ok(fc) => {
                touched.push(*fc.folder.id());
                self.model.view.folders.insert(*fc.folder.id(), FolderView { name: fc.folder.name().to_string(), flags: fc.folder.flags().bits(), description: String::new(), secrets: BTreeMap::new() });
                Ok(())
            }
            Err(e) => Err(format!("{e}")),
        };
        Some(StepOutcome { op, kind: "create_folder", legal: true, result, touched, rewrote: vec![] })
    }

    async fn op_rename_folder(&mut self, account: &mut LocalAccount) -> Option<StepOutcome> {
        let ids = self.folder_ids();
        let f = *self.rng.pick(&ids);
        // sometimes rename to the current name or to a name used before (byte-identical events)
        let name = match self.rng.below(5) {
            0 => self.model.folder(&f)?.name.clone(),
            1 => "Shared Name".to_string(),
            _ => format!("Renamed {}", self.rng.token(5)),
        };
        let op = format!("rename_folder(folder={f}, name={name:?})");
        let r = account.rename_folder(&f, name.clone()).await;
        let result = match r {
            Ok(_) => {
                self.model.folder_mut(&f)?.name = name;
                Ok(())
            }
            Err(e) => Err(format!("{e}")),
        };
        Some(StepOutcome { op, kind: "rename_folder", legal: true, result, touched: vec![f], rewrote: vec![] })
    }

    async fn op_flags(&mut self, account: &mut LocalAccount) -> Option<StepOutcome> {
        let ids = self.folder_ids();
        let f = *self.rng.pick(&ids);
        let cur = self.model.folder(&f)?.flags;
        let bit = *self.rng.pick(&self.flag_pool.clone());
        let new = cur ^ bit;
        let op = format!("update_folder_flags(folder={f}, flags={new:#x})");
        let r = account.update_folder_flags(&f, VaultFlags::from_bits_truncate(new)).await;
        let result = match r {
            Ok(_) => {
                self.model.folder_mut(&f)?.flags = new;
                Ok(())
            }
            Err(e) => Err(format!("{e}")),
        };
        Some(StepOutcome { op, kind: "flags", legal: true, result, touched: vec![f], rewrote: vec![] })
    }

    async fn op_describe(&mut self, account: &mut LocalAccount) -> Option<StepOutcome> {
        let ids = self.folder_ids();
        let f = *self.rng.pick(&ids);
        let text = {
            let mut g = Gen::new(&mut self.rng);
            g.allow_large = false;
            let t = g.text("folder.description");
            self.markers.extend(g.markers);
            t
        };
        let op = format!("set_folder_description(folder={f})");
        let r = account.set_folder_description(&f, &text).await;
        let result = match r {
            Ok(_) => {
                self.model.folder_mut(&f)?.description = text;
                Ok(())
            }
            Err(e) => Err(format!("{e}")),
        };
        Some(StepOutcome { op, kind: "describe", legal: true, result, touched: vec![f], rewrote: vec![] })
    }

    async fn op_delete_folder(&mut self, account: &mut LocalAccount) -> Option<StepOutcome> {
        let ids = self.user_folders();
        if ids.is_empty() {
            return None;
        }
        let f = *self.rng.pick(&ids);
        let op = format!("delete_folder(folder={f})");
        let r = account.delete_folder(&f).await;
        let result = match r {
            Ok(_) => {
                if let Some(fm) = self.model.view.folders.remove(&f) {
                    for id in fm.secrets.keys() {
                        self.file_plain.remove(id);
                    }
                }
                self.model.deleted_folders.push(f);
                Ok(())
            }
            Err(e) => Err(format!("{e}")),
        };
        Some(StepOutcome { op, kind: "delete_folder", legal: true, result, touched: vec![], rewrote: vec![] })
    }

    fn make_file(&mut self) -> (PathBuf, Vec<u8>) {
        let n = match self.rng.below(5) {
            0 => 0,
            1 => self.rng.range(1, 100) as usize,
            2 => self.rng.range(60_000, 70_000) as usize,
            _ => self.rng.range(100, self.max_file_bytes as u64) as usize,
        };
        let mut content = vec![];
        if n > 0 {
            let mut g = Gen::new(&mut self.rng);
            let m = g.mk("file.external_content");
            self.markers.extend(g.markers);
            content.extend_from_slice(m.as_bytes());
            content.extend(self.rng.bytes(n));
        }
        let _ = std::fs::create_dir_all(&self.files_dir);
        // file names a user may pick from: plain, no extension, spaces / unicode, dotfile, a
        // uuid, and content-addressed (the hex SHA-256 of the content, the way blob stores and
        // this code base's own storage name files)
        let name = match self.rng.below(8) {
            0 => hex::encode(vkit::sha256(&content)),
            1 => format!("{}.{}", hex::encode(vkit::sha256(&content)), "bin"),
            2 => format!("report {} ünï.pdf", self.rng.token(5)),
            3 => format!(".hidden-{}", self.rng.token(6)),
            4 => uuid::Uuid::new_v4().to_string(),
            5 => format!("noext{}", self.rng.token(6)),
            _ => format!("att-{}.bin", self.rng.token(10)),
        };
        // identical content (the empty file) may be generated twice: keep names unique per call
        let dir = self.files_dir.join(self.rng.token(8));
        let _ = std::fs::create_dir_all(&dir);
        let path = dir.join(name);
        std::fs::write(&path, &content).expect("write temp file");
        (path, content)
    }

    /// After writing a file secret: read it back, check the content clause
    /// (checksum/size of the plaintext) and adopt the stored value.
    async fn adopt_file(&mut self, account: &mut LocalAccount, f: &VaultId, id: SecretId, meta: &sos_vault::secret::SecretMeta, plain: Vec<u8>) -> Result<(), String> {
        let (row, _) = account.read_secret(&id, Some(f)).await.map_err(|e| format!("read back of file secret failed: {e}"))?;
        match row.secret() {
            Secret::File { content: FileContent::External { checksum, size, .. }, .. } => {
                // checksum and size describe the *encrypted* blob; checked by C17
                let _ = (checksum, size);
            }
            Secret::File { .. } => {}
            other => return Err(format!("file secret read back as {}", other.kind())),
        }
        self.model.put(f, id, meta_json(meta), secret_json(row.secret()));
        self.file_plain.insert(id, plain);
        Ok(())
    }

    async fn op_file_create(&mut self, account: &mut LocalAccount) -> Option<StepOutcome> {
        let f = self.pick_folder_with_room()?;
        let (path, plain) = self.make_file();
        let secret: Secret = match path.clone().try_into() {
            Ok(s) => s,
            Err(_) => return None,
        };
        let meta = {
            let mut g = Gen::new(&mut self.rng);
            let m = g.meta_for(&secret, "file");
            self.markers.extend(g.markers);
            m
        };
        let op = format!("create_secret(folder={f}, kind=external-file, bytes={})", plain.len());
        let r = account.create_secret(meta.clone(), secret, opts(&f)).await;
        let result = match r {
            Ok(change) => self.adopt_file(account, &f, change.id, &meta, plain).await,
            Err(e) => Err(format!("{e}")),
        };
        let _ = std::fs::remove_file(&path);
        Some(StepOutcome { op, kind: "file_create", legal: true, result, touched: vec![f], rewrote: vec![] })
    }

    /// Export a folder and import the buffer as a copy (`overwrite = false`): the copy gets a
    /// new folder id but keeps the secret ids, so one secret id is live in two folders.
    async fn op_copy_folder(&mut self, account: &mut LocalAccount) -> Option<StepOutcome> {
        if self.model.view.folders.len() >= self.max_folders {
            return None;
        }
        let ids = self.folder_ids();
        // folders without external files (a copied blob reference is another story)
        // and not the special folders: a copy keeps the flags, and two "archive" folders are
        // not a state the account API defines
        let candidates: Vec<VaultId> = ids
            .into_iter()
            .filter(|f| self.model.view.folders.get(f).map(|v| v.flags & 0xff == 0).unwrap_or(false))
            .filter(|f| !self.model.live_secrets().iter().any(|(lf, s)| lf == f && self.file_plain.contains_key(s)))
            .collect();
        if candidates.is_empty() {
            return None;
        }
        let f = *self.rng.pick(&candidates);
        let key: AccessKey = crate::setup::new_password(&mut self.rng).into();
        let op = format!("copy_folder({f})");
        let result: Result<(), String> = async {
            let buf = account.export_folder_buffer(&f, key.clone(), false).await.map_err(|e| format!("export_folder_buffer: {e}"))?;
            account.import_folder_buffer(&buf, key, false).await.map_err(|e| format!("import_folder_buffer: {e}"))?;
            // the copy is adopted from what the account serves (this op is not what the model judges)
            let (view, _) = crate::snapshot::live(account).await.map_err(|e| format!("{} {}", e.class, e.detail))?;
            self.model = AccountModel::from_view(view);
            Ok(())
        }
        .await;
        Some(StepOutcome { op, kind: "copy_folder", legal: true, result, touched: self.folder_ids(), rewrote: vec![] })
    }

    /// Attach an external file (a custom field holding a file secret) to a live secret: the
    /// secret then owns more than one blob.
    async fn op_file_attach(&mut self, account: &mut LocalAccount) -> Option<StepOutcome> {
        let live = self.model.live_secrets();
        if live.is_empty() {
            return None;
        }
        // prefer secrets that already own a blob
        let with_blob: Vec<(VaultId, SecretId)> = live.iter().copied().filter(|(_, s)| self.file_plain.contains_key(s)).collect();
        let (f, id) = if !with_blob.is_empty() && self.rng.chance(2, 3) { *self.rng.pick(&with_blob) } else { *self.rng.pick(&live) };
        let (mut row, _) = account.read_secret(&id, Some(&f)).await.ok()?;
        let (path, plain) = self.make_file();
        let att: Secret = match path.clone().try_into() {
            Ok(s) => s,
            Err(_) => return None,
        };
        let att_meta = {
            let mut g = Gen::new(&mut self.rng);
            let m = g.meta_for(&att, "file");
            self.markers.extend(g.markers);
            m
        };
        row.secret_mut().add_field(sos_vault::secret::SecretRow::new(SecretId::new_v4(), att_meta, att));
        let op = format!("attach_file(folder={f}, id={id}, bytes={})", plain.len());
        let meta = row.meta().clone();
        let r = account.update_secret(&id, meta.clone(), Some(row.secret().clone()), opts(&f)).await;
        let result = match r {
            Ok(_) => match account.read_secret(&id, Some(&f)).await {
                Ok((back, _)) => {
                    self.model.put(&f, id, meta_json(back.meta()), secret_json(back.secret()));
                    Ok(())
                }
                Err(e) => Err(format!("read back after attaching a file failed: {e}")),
            },
            Err(e) => Err(format!("{e}")),
        };
        let _ = std::fs::remove_file(&path);
        Some(StepOutcome { op, kind: "file_attach", legal: true, result, touched: vec![f], rewrote: vec![] })
    }

    async fn op_file_update(&mut self, account: &mut LocalAccount) -> Option<StepOutcome> {
        let ids: Vec<SecretId> = self.file_plain.keys().copied().collect();
        if ids.is_empty() {
            return None;
        }
        let id = *self.rng.pick(&ids);
        let f = self.model.live_secrets().into_iter().find(|(_, s)| *s == id).map(|(f, _)| f)?;
        self.op_file_update_for(account, f, id).await
    }

    async fn op_file_update_for(&mut self, account: &mut LocalAccount, f: VaultId, id: SecretId) -> Option<StepOutcome> {
        let (row, _) = account.read_secret(&id, Some(&f)).await.ok()?;
        let (path, plain) = self.make_file();
        let meta = {
            let mut g = Gen::new(&mut self.rng);
            let m = g.meta_for(row.secret(), "file");
            self.markers.extend(g.markers);
            m
        };
        let op = format!("update_file(folder={f}, id={id}, bytes={})", plain.len());
        let r = account.update_file(&id, meta.clone(), &path, opts(&f)).await;
        let result = match r {
            Ok(change) => {
                if change.id != id {
                    self.model.remove(&f, &id);
                    self.file_plain.remove(&id);
                }
                self.adopt_file(account, &f, change.id, &meta, plain).await
            }
            Err(e) => Err(format!("{e}")),
        };
        let _ = std::fs::remove_file(&path);
        Some(StepOutcome { op, kind: "file_update", legal: true, result, touched: vec![f], rewrote: vec![] })
    }

    /// Lock and unlock every folder at the folder level.
    async fn op_relock(&mut self, account: &mut LocalAccount) -> Option<StepOutcome> {
        let mut result = Ok(());
        for f in self.folder_ids() {
            let key = match account.find_folder_password(&f).await {
                Ok(Some(k)) => k,
                other => {
                    result = Err(format!("no folder password for {f}: {other:?}"));
                    break;
                }
            };
            match account.folder(&f).await {
                Ok(mut folder) => {
                    folder.lock().await;
                    if let Err(e) = folder.unlock(&key).await {
                        result = Err(format!("unlock {f}: {e}"));
                        break;
                    }
                }
                Err(e) => {
                    result = Err(format!("folder {f}: {e}"));
                    break;
                }
            }
        }
        Some(StepOutcome { op: "lock+unlock all folders".into(), kind: "relock", legal: true, result, touched: vec![], rewrote: vec![] })
    }

    /// Sign out and sign in again on the same account object.
    async fn op_resign(&mut self, account: &mut LocalAccount) -> Option<StepOutcome> {
        let mut result = account.sign_out().await.map_err(|e| format!("sign_out: {e}"));
        if result.is_ok() {
            result = account.sign_in(&self.key()).await.map(|_| ()).map_err(|e| format!("sign_in: {e}"));
        }
        if result.is_ok() && self.init_search {
            result = account.initialize_search_index().await.map(|_| ()).map_err(|e| format!("initialize_search_index: {e}"));
        }
        Some(StepOutcome { op: "sign_out+sign_in".into(), kind: "resign", legal: true, result, touched: vec![], rewrote: vec![] })
    }

    async fn op_compact(&mut self, account: &mut LocalAccount) -> Option<StepOutcome> {
        let ids = self.folder_ids();
        let f = *self.rng.pick(&ids);
        let r = account.compact_folder(&f).await;
        Some(StepOutcome { op: format!("compact_folder({f})"), kind: "compact", legal: true, result: r.map(|_| ()).map_err(|e| format!("{e}")), touched: vec![f], rewrote: vec![f] })
    }

    async fn op_compact_account(&mut self, account: &mut LocalAccount) -> Option<StepOutcome> {
        let r = account.compact_account().await;
        let all = self.folder_ids();
        Some(StepOutcome { op: "compact_account".into(), kind: "compact_account", legal: true, result: r.map(|_| ()).map_err(|e| format!("{e}")), touched: all.clone(), rewrote: all })
    }

    async fn op_change_folder_pw(&mut self, account: &mut LocalAccount) -> Option<StepOutcome> {
        let ids = self.folder_ids();
        let f = *self.rng.pick(&ids);
        let old = account.find_folder_password(&f).await.ok().flatten();
        let new_pw = crate::setup::new_password(&mut self.rng);
        let r = account.change_folder_password(&f, new_pw.clone().into()).await;
        if r.is_ok() {
            if let Some(old) = old {
                self.old_folder_keys.push((f, old));
            }
        }
        Some(StepOutcome { op: format!("change_folder_password({f})"), kind: "change_folder_pw", legal: true, result: r.map_err(|e| format!("{e}")), touched: vec![f], rewrote: vec![f] })
    }

    async fn op_change_account_pw(&mut self, account: &mut LocalAccount) -> Option<StepOutcome> {
        let new_pw = crate::setup::new_password(&mut self.rng);
        let r = account.change_account_password(new_pw.clone()).await;
        if r.is_ok() {
            self.old_account_passwords.push(self.password.clone());
            self.password = new_pw;
        }
        Some(StepOutcome { op: "change_account_password".into(), kind: "change_account_pw", legal: true, result: r.map_err(|e| format!("{e}")), touched: vec![], rewrote: vec![] })
    }

    async fn op_change_cipher(&mut self, account: &mut LocalAccount) -> Option<StepOutcome> {
        let cipher = if self.rng.bool() { Cipher::AesGcm256 } else { Cipher::XChaCha20Poly1305 };
        let kdf = if self.rng.bool() { KeyDerivation::Argon2Id } else { KeyDerivation::BalloonHash };
        let mut olds = vec![];
        for f in self.folder_ids() {
            if let Ok(Some(k)) = account.find_folder_password(&f).await {
                olds.push((f, k));
            }
        }
        let r = account.change_cipher(&self.key(), &cipher, Some(kdf.clone())).await;
        let all = self.folder_ids();
        let _ = olds;
        // only the folders whose cipher/kdf differed are converted
        let converted: Vec<VaultId> = match &r {
            Ok(c) => c.folders.iter().map(|s| *s.id()).filter(|id| all.contains(id)).collect(),
            Err(_) => vec![],
        };
        Some(StepOutcome { op: format!("change_cipher({cipher}, {kdf}) converted {} folders", converted.len()), kind: "change_cipher", legal: true, result: r.map(|_| ()).map_err(|e| format!("{e}")), touched: all, rewrote: converted })
    }

    /// `sos_backend::Folder::{create,update,delete}_secret` with
    /// caller-chosen, possibly re-used ids. The model follows the return
    /// value: `Ok(event)` means "written".
    async fn op_folder_api(&mut self, account: &mut LocalAccount) -> Option<StepOutcome> {
        let ids = self.folder_ids();
        let f = *self.rng.pick(&ids);
        let mut folder = account.folder(&f).await.ok()?;
        let live: Vec<SecretId> = self.model.folder(&f)?.secrets.keys().copied().filter(|id| !self.file_plain.contains_key(id)).collect();
        let deleted: Vec<SecretId> = self.model.deleted.iter().filter(|(g, _)| *g == f).map(|(_, s)| *s).collect();
        let k = self.rng.usize(KINDS.len());
        let (meta, secret) = self.gen_secret(k);
        match self.rng.below(6) {
            // create with an id that is live in this folder (re-used id)
            0 if !live.is_empty() => {
                let id = *self.rng.pick(&live);
                let row = SecretRow::new(id, meta.clone(), secret.clone());
                let r = folder.create_secret(&row).await;
                let result = match r {
                    Ok(_) => {
                        self.model.put(&f, id, meta_json(&meta), secret_json(&secret));
                        Ok(())
                    }
                    Err(e) => Err(format!("{e}")),
                };
                // refusing a duplicate id is legitimate: not "legal must succeed"
                Some(StepOutcome { op: format!("Folder::create_secret(folder={f}, REUSED live id={id})"), kind: "folder_api_create_reused", legal: false, result, touched: vec![f], rewrote: vec![] })
            }
            // create with a previously deleted id
            1 if !deleted.is_empty() => {
                let id = *self.rng.pick(&deleted);
                let row = SecretRow::new(id, meta.clone(), secret.clone());
                let r = folder.create_secret(&row).await;
                let result = match r {
                    Ok(_) => {
                        self.model.deleted.retain(|(g, s)| !(*g == f && *s == id));
                        self.model.put(&f, id, meta_json(&meta), secret_json(&secret));
                        Ok(())
                    }
                    Err(e) => Err(format!("{e}")),
                };
                Some(StepOutcome { op: format!("Folder::create_secret(folder={f}, previously deleted id={id})"), kind: "folder_api_create_deleted", legal: true, result, touched: vec![f], rewrote: vec![] })
            }
            // update a live id
            2 | 3 if !live.is_empty() => {
                let id = *self.rng.pick(&live);
                let r = folder.update_secret(&id, meta.clone(), secret.clone()).await;
                let result = match r {
                    Ok(Some(_)) => {
                        self.model.put(&f, id, meta_json(&meta), secret_json(&secret));
                        Ok(())
                    }
                    Ok(None) => Err("update_secret returned None for a live id".to_string()),
                    Err(e) => Err(format!("{e}")),
                };
                Some(StepOutcome { op: format!("Folder::update_secret(folder={f}, id={id})"), kind: "folder_api_update", legal: true, result, touched: vec![f], rewrote: vec![] })
            }
            // update an id that is not there
            4 => {
                let id = if !deleted.is_empty() && self.rng.bool() { *self.rng.pick(&deleted) } else { SecretId::new_v4() };
                let r = folder.update_secret(&id, meta.clone(), secret.clone()).await;
                let result = match r {
                    Ok(Some(_)) => {
                        // reported as written
                        self.model.deleted.retain(|(g, s)| !(*g == f && *s == id));
                        self.model.put(&f, id, meta_json(&meta), secret_json(&secret));
                        Ok(())
                    }
                    Ok(None) => Ok(()),
                    Err(e) => Err(format!("{e}")),
                };
                Some(StepOutcome { op: format!("Folder::update_secret(folder={f}, ABSENT id={id})"), kind: "folder_api_update_absent", legal: false, result, touched: vec![f], rewrote: vec![] })
            }
            // fresh create with a caller-chosen id
            _ => {
                let id = SecretId::new_v4();
                let row = SecretRow::new(id, meta.clone(), secret.clone());
                let r = folder.create_secret(&row).await;
                let result = match r {
                    Ok(_) => {
                        self.model.put(&f, id, meta_json(&meta), secret_json(&secret));
                        Ok(())
                    }
                    Err(e) => Err(format!("{e}")),
                };
                Some(StepOutcome { op: format!("Folder::create_secret(folder={f}, chosen id={id})"), kind: "folder_api_create", legal: true, result, touched: vec![f], rewrote: vec![] })
            }
        }
    }

    /// Operations the model says are illegal: they may fail, and whatever
    /// they return nothing may change (checked by the per-step oracle).
    async fn op_illegal(&mut self, account: &mut LocalAccount) -> Option<StepOutcome> {
        let choice = self.rng.below(3);
        match choice {
            0 if !self.model.deleted.is_empty() => {
                let (f, id) = *self.rng.pick(&self.model.deleted.clone());
                if self.model.folder(&f).is_none() {
                    return None;
                }
                let r = account.delete_secret(&id, opts(&f)).await;
                Some(StepOutcome { op: format!("delete_secret(ALREADY DELETED id={id} in {f})"), kind: "illegal_delete", legal: false, result: r.map(|_| ()).map_err(|e| format!("{e}")), touched: vec![f], rewrote: vec![] })
            }
            1 if !self.model.deleted.is_empty() => {
                let (f, id) = *self.rng.pick(&self.model.deleted.clone());
                if self.model.folder(&f).is_none() {
                    return None;
                }
                let (meta, secret) = self.gen_secret(0);
                let r = account.update_secret(&id, meta, Some(secret), opts(&f)).await;
                Some(StepOutcome { op: format!("update_secret(DELETED id={id} in {f})"), kind: "illegal_update", legal: false, result: r.map(|_| ()).map_err(|e| format!("{e}")), touched: vec![f], rewrote: vec![] })
            }
            _ => {
                let ids = self.folder_ids();
                let f = *self.rng.pick(&ids);
                let id = SecretId::new_v4();
                let r = account.delete_secret(&id, opts(&f)).await;
                Some(StepOutcome { op: format!("delete_secret(UNKNOWN id={id} in {f})"), kind: "illegal_delete_unknown", legal: false, result: r.map(|_| ()).map_err(|e| format!("{e}")), touched: vec![f], rewrote: vec![] })
            }
        }
    }
}
