//! C14 — every stored and transmitted type survives encode/decode
//! unchanged, and encoding is deterministic.
//!
//! For each generated value `v` of each type `T` (generators in `gen.rs`):
//!  1. `decode::<T>(encode(v))` succeeds and is equal to `v`, field by field
//!     (the harness brings its own comparators where the repository's
//!     `PartialEq` is partial or missing: `SecretMeta`, `Secret`,
//!     `VaultMeta`, `TrustedDevice`, `TOTP`, `Origin`, index-ordered maps);
//!  2. `encode(v)` twice gives identical bytes;
//!  3. `encode(decode(encode(v))) == encode(v)` (and therefore the same
//!     SHA-256 commit hash) — enforced for every type whose encoding does
//!     not walk a `HashMap`/`HashSet` (events, records, vaults, proofs …);
//!     for the hash-ordered ones it is counted as `reencode_differs:<T>`;
//!  4. the same three clauses for the protobuf wire format
//!     (`WireEncodeDecode`);
//!  5. `EventRecordRow::new(&r)` -> `EventRecord::try_from(row)` keeps time
//!     (to the nanosecond), commit and bytes (`last_commit` is not a column).
//!
//! An `Err` from the *encoder* is a legitimate refusal
//! (`encode_refused:<T>`), never a violation. A decode error on bytes the
//! encoder produced is a violation.
use crate::gen::{clone_create_set, Gen};
use binary_stream::futures::{Decodable, Encodable};
use futures::FutureExt;
use secrecy::ExposeSecret;
use serde_json::json;
use sos_core::{
    commit::{CommitHash, CommitProof, CommitState, Comparison},
    crypto::{AeadPack, Cipher, KeyDerivation},
    decode,
    device::TrustedDevice,
    encode,
    events::{
        patch::{
            AccountDiff, AccountPatch, CheckedPatch, DeviceDiff, FileDiff,
            FolderDiff, FolderPatch,
        },
        AccountEvent, DeviceEvent, EventLogType, EventRecord, FileEvent,
        WriteEvent,
    },
    ExternalFile, Origin, UtcDateTime, VaultCommit, VaultEntry,
};
use sos_database::entity::EventRecordRow;
use sos_protocol::{
    transfer::{FileSet, FileTransfersSet},
    DiffRequest, DiffResponse, NetworkChangeEvent, PatchRequest,
    PatchResponse, ScanRequest, ScanResponse, WireEncodeDecode,
};
use sos_sync::{
    CreateSet, MaybeDiff, MergeOutcome, SyncCompare, SyncDiff, SyncPacket,
    SyncStatus, TrackedAccountChange, TrackedChanges, TrackedDeviceChange,
    TrackedFileChange, TrackedFolderChange, UpdateSet,
};
use sos_vault::{
    secret::{
        FileContent, Secret, SecretMeta, SecretRow, SecretSigner, UserData,
    },
    Header, SharedAccess, Summary, Vault, VaultMeta,
};
use std::panic::{catch_unwind, AssertUnwindSafe};
use time::OffsetDateTime;
use vkit::{Args, Reporter};

type Cmp = Result<(), String>;

fn ne(field: &str) -> Cmp {
    Err(field.to_string())
}

fn short<T: std::fmt::Debug>(v: &T) -> String {
    let s = format!("{v:?}");
    trunc(&s, 300)
}

fn trunc(s: &str, n: usize) -> String {
    if s.len() <= n {
        return s.to_string();
    }
    let mut end = n;
    while !s.is_char_boundary(end) {
        end -= 1;
    }
    format!("{}…(+{} bytes)", &s[..end], s.len() - end)
}

fn hex_trunc(b: &[u8]) -> String {
    if b.len() <= 2048 {
        hex::encode(b)
    } else {
        format!("{}…(+{} bytes)", hex::encode(&b[..2048]), b.len() - 2048)
    }
}

// ------------------------------------------------------------------
// field-wise comparators

fn ns(t: &UtcDateTime) -> i128 {
    OffsetDateTime::from(t.clone()).unix_timestamp_nanos()
}

fn eq_time(a: &UtcDateTime, b: &UtcDateTime, f: &str) -> Cmp {
    if ns(a) == ns(b) {
        Ok(())
    } else {
        ne(f)
    }
}

fn eq_opt_time(
    a: &Option<UtcDateTime>,
    b: &Option<UtcDateTime>,
    f: &str,
) -> Cmp {
    match (a, b) {
        (None, None) => Ok(()),
        (Some(a), Some(b)) => eq_time(a, b, f),
        _ => ne(f),
    }
}

fn eq_sec(
    a: &secrecy::SecretString,
    b: &secrecy::SecretString,
    f: &str,
) -> Cmp {
    if a.expose_secret() == b.expose_secret() {
        Ok(())
    } else {
        ne(f)
    }
}

fn eq_opt_sec(
    a: &Option<secrecy::SecretString>,
    b: &Option<secrecy::SecretString>,
    f: &str,
) -> Cmp {
    if a.as_ref().map(|s| s.expose_secret())
        == b.as_ref().map(|s| s.expose_secret())
    {
        Ok(())
    } else {
        ne(f)
    }
}

fn eq_plain<T: PartialEq>(a: &T, b: &T, f: &str) -> Cmp {
    if a == b {
        Ok(())
    } else {
        ne(f)
    }
}

pub fn eq_secret_meta(a: &SecretMeta, b: &SecretMeta) -> Cmp {
    eq_plain(a.kind(), b.kind(), "kind")?;
    eq_plain(&a.flags().bits(), &b.flags().bits(), "flags")?;
    eq_plain(&a.label(), &b.label(), "label")?;
    eq_plain(a.tags(), b.tags(), "tags")?;
    eq_plain(&a.favorite(), &b.favorite(), "favorite")?;
    eq_plain(
        &a.urn().map(|u| u.to_string()),
        &b.urn().map(|u| u.to_string()),
        "urn",
    )?;
    eq_plain(&a.owner_id(), &b.owner_id(), "owner_id")?;
    eq_time(a.date_created(), b.date_created(), "date_created")?;
    eq_time(a.last_updated(), b.last_updated(), "last_updated")
}

fn eq_user_data(a: &UserData, b: &UserData) -> Cmp {
    eq_plain(&a.fields().len(), &b.fields().len(), "user_data.fields.len")?;
    for (x, y) in a.fields().iter().zip(b.fields()) {
        // the signature names the shape of the failing field, not how
        // deeply the custom field was nested
        eq_secret_row(x, y)?;
    }
    eq_plain(&a.comment(), &b.comment(), "user_data.comment")?;
    eq_plain(
        &a.recovery_note(),
        &b.recovery_note(),
        "user_data.recovery_note",
    )
}

pub fn eq_secret_row(a: &SecretRow, b: &SecretRow) -> Cmp {
    eq_plain(a.id(), b.id(), "id")?;
    eq_secret_meta(a.meta(), b.meta()).map_err(|f| format!("meta.{f}"))?;
    eq_secret(a.secret(), b.secret())
}

fn eq_signer(a: &SecretSigner, b: &SecretSigner) -> Cmp {
    match (a, b) {
        (
            SecretSigner::SinglePartyEcdsa(x),
            SecretSigner::SinglePartyEcdsa(y),
        )
        | (
            SecretSigner::SinglePartyEd25519(x),
            SecretSigner::SinglePartyEd25519(y),
        ) => eq_plain(x.expose_secret(), y.expose_secret(), "private_key"),
        _ => ne("private_key.kind"),
    }
}

fn eq_file_content(a: &FileContent, b: &FileContent) -> Cmp {
    match (a, b) {
        (
            FileContent::Embedded {
                name: n1,
                mime: m1,
                buffer: b1,
                checksum: c1,
            },
            FileContent::Embedded {
                name: n2,
                mime: m2,
                buffer: b2,
                checksum: c2,
            },
        ) => {
            eq_plain(n1, n2, "content.name")?;
            eq_plain(m1, m2, "content.mime")?;
            eq_plain(b1.expose_secret(), b2.expose_secret(), "content.buffer")?;
            eq_plain(c1, c2, "content.checksum")
        }
        (
            FileContent::External {
                name: n1,
                mime: m1,
                checksum: c1,
                size: s1,
                path: p1,
            },
            FileContent::External {
                name: n2,
                mime: m2,
                checksum: c2,
                size: s2,
                path: p2,
            },
        ) => {
            eq_plain(n1, n2, "content.name")?;
            eq_plain(m1, m2, "content.mime")?;
            eq_plain(c1, c2, "content.checksum")?;
            eq_plain(s1, s2, "content.size")?;
            eq_plain(p1, p2, "content.path")
        }
        _ => ne("content.kind"),
    }
}

fn eq_totp(a: &totp_rs::TOTP, b: &totp_rs::TOTP) -> Cmp {
    eq_plain(&a.algorithm, &b.algorithm, "totp.algorithm")?;
    eq_plain(&a.digits, &b.digits, "totp.digits")?;
    eq_plain(&a.skew, &b.skew, "totp.skew")?;
    eq_plain(&a.step, &b.step, "totp.step")?;
    eq_plain(&a.secret, &b.secret, "totp.secret")?;
    eq_plain(&a.issuer, &b.issuer, "totp.issuer")?;
    eq_plain(&a.account_name, &b.account_name, "totp.account_name")
}

/// Complete comparison of two secrets (the repository's `PartialEq` zips
/// hash maps and certificate lists, so it ignores length and order).
pub fn eq_secret(a: &Secret, b: &Secret) -> Cmp {
    eq_plain(&a.kind(), &b.kind(), "kind")?;
    eq_secret_fields(a, b).map_err(|f| format!("{:?}.{f}", a.kind()))?;
    eq_user_data(a.user_data(), b.user_data())
}

fn eq_secret_fields(a: &Secret, b: &Secret) -> Cmp {
    match (a, b) {
        (Secret::Note { text: t1, .. }, Secret::Note { text: t2, .. }) => {
            eq_sec(t1, t2, "text")?
        }
        (
            Secret::File { content: c1, .. },
            Secret::File { content: c2, .. },
        ) => eq_file_content(c1, c2)?,
        (
            Secret::Account {
                account: a1,
                password: p1,
                url: u1,
                ..
            },
            Secret::Account {
                account: a2,
                password: p2,
                url: u2,
                ..
            },
        ) => {
            eq_plain(a1, a2, "account")?;
            eq_sec(p1, p2, "password")?;
            eq_plain(u1, u2, "url")?;
        }
        (Secret::List { items: i1, .. }, Secret::List { items: i2, .. }) => {
            eq_plain(&i1.len(), &i2.len(), "items.len")?;
            for (k, v) in i1 {
                match i2.get(k) {
                    Some(w) => eq_sec(v, w, "items.value")?,
                    None => return ne("items.key"),
                }
            }
        }
        (
            Secret::Pem {
                certificates: c1, ..
            },
            Secret::Pem {
                certificates: c2, ..
            },
        ) => {
            eq_plain(&c1.len(), &c2.len(), "certificates.len")?;
            for (x, y) in c1.iter().zip(c2) {
                eq_plain(&x.tag(), &y.tag(), "certificates.tag")?;
                eq_plain(&x.contents(), &y.contents(), "certificates.contents")?;
            }
        }
        (
            Secret::Page {
                title: t1,
                mime: m1,
                document: d1,
                ..
            },
            Secret::Page {
                title: t2,
                mime: m2,
                document: d2,
                ..
            },
        ) => {
            eq_plain(t1, t2, "title")?;
            eq_plain(m1, m2, "mime")?;
            eq_sec(d1, d2, "document")?;
        }
        (
            Secret::Signer {
                private_key: k1, ..
            },
            Secret::Signer {
                private_key: k2, ..
            },
        ) => eq_signer(k1, k2)?,
        (
            Secret::Contact { vcard: v1, .. },
            Secret::Contact { vcard: v2, .. },
        ) => eq_plain(v1, v2, "vcard")?,
        (Secret::Totp { totp: t1, .. }, Secret::Totp { totp: t2, .. }) => {
            eq_totp(t1, t2)?
        }
        (
            Secret::Card {
                number: n1,
                expiry: e1,
                cvv: c1,
                name: m1,
                atm_pin: p1,
                ..
            },
            Secret::Card {
                number: n2,
                expiry: e2,
                cvv: c2,
                name: m2,
                atm_pin: p2,
                ..
            },
        ) => {
            eq_sec(n1, n2, "number")?;
            eq_opt_time(e1, e2, "expiry")?;
            eq_sec(c1, c2, "cvv")?;
            eq_opt_sec(m1, m2, "name")?;
            eq_opt_sec(p1, p2, "atm_pin")?;
        }
        (
            Secret::Bank {
                number: n1,
                routing: r1,
                iban: i1,
                swift: s1,
                bic: b1,
                ..
            },
            Secret::Bank {
                number: n2,
                routing: r2,
                iban: i2,
                swift: s2,
                bic: b2,
                ..
            },
        ) => {
            eq_sec(n1, n2, "number")?;
            eq_sec(r1, r2, "routing")?;
            eq_opt_sec(i1, i2, "iban")?;
            eq_opt_sec(s1, s2, "swift")?;
            eq_opt_sec(b1, b2, "bic")?;
        }
        (
            Secret::Link {
                url: u1,
                label: l1,
                title: t1,
                ..
            },
            Secret::Link {
                url: u2,
                label: l2,
                title: t2,
                ..
            },
        ) => {
            eq_sec(u1, u2, "url")?;
            eq_opt_sec(l1, l2, "label")?;
            eq_opt_sec(t1, t2, "title")?;
        }
        (
            Secret::Password {
                password: p1,
                name: n1,
                ..
            },
            Secret::Password {
                password: p2,
                name: n2,
                ..
            },
        ) => {
            eq_sec(p1, p2, "password")?;
            eq_opt_sec(n1, n2, "name")?;
        }
        (
            Secret::Identity {
                id_kind: k1,
                number: n1,
                issue_place: p1,
                issue_date: d1,
                expiry_date: e1,
                ..
            },
            Secret::Identity {
                id_kind: k2,
                number: n2,
                issue_place: p2,
                issue_date: d2,
                expiry_date: e2,
                ..
            },
        ) => {
            if k1 != k2 {
                return ne("id_kind");
            }
            eq_sec(n1, n2, "number")?;
            eq_plain(p1, p2, "issue_place")?;
            eq_opt_time(d1, d2, "issue_date")?;
            eq_opt_time(e1, e2, "expiry_date")?;
        }
        (
            Secret::Age {
                version: v1,
                key: k1,
                ..
            },
            Secret::Age {
                version: v2,
                key: k2,
                ..
            },
        ) => {
            if v1 != v2 {
                return ne("version");
            }
            eq_sec(k1, k2, "key")?;
        }
        _ => return ne("kind"),
    }
    Ok(())
}

fn eq_vault_meta(a: &VaultMeta, b: &VaultMeta) -> Cmp {
    eq_time(a.date_created(), b.date_created(), "date_created")?;
    eq_plain(&a.description(), &b.description(), "description")
}

fn eq_trusted_device(a: &TrustedDevice, b: &TrustedDevice) -> Cmp {
    eq_plain(a.public_key(), b.public_key(), "public_key")?;
    eq_plain(a.extra_info(), b.extra_info(), "extra_info")?;
    if a.created_date().unix_timestamp_nanos()
        != b.created_date().unix_timestamp_nanos()
    {
        return ne("created_date");
    }
    Ok(())
}

fn eq_device_event(a: &DeviceEvent, b: &DeviceEvent) -> Cmp {
    match (a, b) {
        (DeviceEvent::Trust(x), DeviceEvent::Trust(y)) => {
            eq_trusted_device(x, y).map_err(|f| format!("Trust.{f}"))
        }
        (DeviceEvent::Revoke(x), DeviceEvent::Revoke(y)) => {
            eq_plain(x, y, "Revoke.0")
        }
        _ => ne("variant"),
    }
}

fn eq_vault(a: &Vault, b: &Vault) -> Cmp {
    eq_plain(a.summary(), b.summary(), "header.summary")?;
    eq_plain(&a.header().meta(), &b.header().meta(), "header.meta")?;
    eq_plain(&a.salt(), &b.salt(), "header.auth.salt")?;
    eq_plain(&a.seed(), &b.seed(), "header.auth.seed")?;
    eq_plain(a.shared_access(), b.shared_access(), "header.shared_access")?;
    // rows: same entries in the same order (IndexMap's == ignores order)
    let ka: Vec<_> = a.keys().collect();
    let kb: Vec<_> = b.keys().collect();
    eq_plain(&ka, &kb, "contents.order")?;
    eq_plain(a.data(), b.data(), "contents")?;
    eq_plain(a, b, "value")
}

fn eq_header(a: &Header, b: &Header) -> Cmp {
    eq_plain(a, b, "value")
}

fn eq_derived<T: PartialEq>(a: &T, b: &T) -> Cmp {
    eq_plain(a, b, "value")
}

fn eq_origin(a: &Origin, b: &Origin) -> Cmp {
    eq_plain(&a.name(), &b.name(), "name")?;
    eq_plain(a.url(), b.url(), "url")
}

fn eq_sync_status(a: &SyncStatus, b: &SyncStatus) -> Cmp {
    let ka: Vec<_> = a.folders.keys().collect();
    let kb: Vec<_> = b.folders.keys().collect();
    eq_plain(&ka, &kb, "folders.order")?;
    eq_plain(a, b, "value")
}

// ------------------------------------------------------------------
// the checks

struct Ctx<'a> {
    rep: &'a mut Reporter,
    samples: Vec<String>,
    /// values handled so far (all formats)
    values: u64,
}

impl Ctx<'_> {
    fn sample(&mut self, ty: &str, format: &str, dbg: &str, len: usize) {
        // three real cases of different types: a vault, a secret and a
        // wire message
        let wanted = ["Vault", "Secret", "SyncPacket"];
        if wanted.contains(&ty) && !self.samples.iter().any(|s| s == ty) && len > 60 {
            self.samples.push(ty.to_string());
            self.rep.sample(json!({"type": ty, "format": format, "value": trunc(dbg, 300), "encoded_len": len}));
        }
    }
}

/// One value through the binary format. `strict_reencode` is false only
/// for types whose encoder walks a `HashMap`/`HashSet`.
async fn check_bin<T>(
    cx: &mut Ctx<'_>,
    ty: &str,
    v: &T,
    eq: impl Fn(&T, &T) -> Cmp,
    dbg: impl Fn(&T) -> String,
    trivial: &[u8],
    strict_reencode: bool,
) where
    T: Encodable + Decodable + Default,
{
    cx.rep.count(&format!("values:{ty}"), 1);
    cx.values += 1;
    let e1 = match encode(v).await {
        Ok(b) => b,
        Err(_) => {
            // the encoder itself refuses (e.g. a buffer above the 16 MiB
            // bound): legitimate, not a round-trip failure
            cx.rep.count(&format!("encode_refused:{ty}"), 1);
            cx.rep.case(vkit::fnv64(dbg(v).as_bytes()), true);
            return;
        }
    };
    // one value = one case; non-trivial iff its encoding differs from the
    // encoding of the type's default/simplest value, i.e. at least one
    // field is not at its default
    let mut h = vkit::Fnv::new();
    h.str(ty).bytes(&e1);
    cx.rep.case(h.finish(), e1 != trivial);
    cx.sample(ty, "binary", &dbg(v), e1.len());

    let replay = |what: &str| json!({"type": ty, "format": "binary", "clause": what, "value": dbg(v), "encoded_hex": hex_trunc(&e1)});

    // (2) determinism
    match encode(v).await {
        Ok(e2) if e2 == e1 => {}
        Ok(_) => {
            cx.rep.violation(&format!("C14:{ty}:nondeterministic_encode"), &format!("encoding the same {ty} value twice gave different bytes"), replay("determinism"));
            return;
        }
        Err(e) => {
            cx.rep.violation(&format!("C14:{ty}:nondeterministic_encode"), &format!("second encode of the same {ty} failed: {e}"), replay("determinism"));
            return;
        }
    }
    // (1) decode(encode(v)) == v
    let d: T = match AssertUnwindSafe(decode::<T>(&e1)).catch_unwind().await {
        Ok(Ok(d)) => d,
        Ok(Err(e)) => {
            cx.rep.violation(&format!("C14:{ty}:decode_error"), &format!("decode::<{ty}> rejected bytes produced by encode: {e}"), replay("decode"));
            return;
        }
        Err(_) => {
            let (loc, msg) = crate::c15::take_panics().into_iter().next().unwrap_or_default();
            cx.rep.violation(&format!("C14:{ty}:decode_panic:{loc}"), &format!("decode::<{ty}> panicked at {loc} on bytes produced by encode: {msg}"), replay("decode"));
            return;
        }
    };
    if let Err(field) = eq(v, &d) {
        cx.rep.violation(
            &format!("C14:{ty}:roundtrip:{field}"),
            &format!("decode(encode(v)) differs from v in `{field}` for {ty}; decoded = {}", trunc(&dbg(&d), 300)),
            replay("roundtrip"),
        );
        return;
    }
    // (3) re-encoding the decoded value gives the same bytes / same hash
    match encode(&d).await {
        Ok(e3) => {
            if e3 != e1 {
                if strict_reencode {
                    cx.rep.violation(
                        &format!("C14:{ty}:reencode_differs"),
                        &format!("encode(decode(encode(v))) != encode(v) for {ty} (SHA-256 {} vs {})", hex::encode(&vkit::sha256(&e3)[..6]), hex::encode(&vkit::sha256(&e1)[..6])),
                        replay("reencode"),
                    );
                } else {
                    cx.rep.count(&format!("reencode_differs:{ty}"), 1);
                }
            } else {
                cx.rep.count("reencode_identical", 1);
            }
        }
        Err(e) => cx.rep.violation(&format!("C14:{ty}:reencode_error"), &format!("encoding the decoded {ty} failed: {e}"), replay("reencode")),
    }
}

/// One value through the protobuf wire format.
async fn check_wire<T>(
    cx: &mut Ctx<'_>,
    ty: &str,
    v: &T,
    clone: impl Fn(&T) -> T,
    eq: impl Fn(&T, &T) -> Cmp,
    strict_reencode: bool,
) where
    T: WireEncodeDecode + std::fmt::Debug,
{
    let name = format!("wire:{ty}");
    cx.rep.count(&format!("values:{name}"), 1);
    cx.values += 1;
    let e1 = match clone(v).encode().await {
        Ok(b) => b,
        Err(_) => {
            cx.rep.count(&format!("encode_refused:{name}"), 1);
            cx.rep.case(vkit::fnv64(short(v).as_bytes()), true);
            return;
        }
    };
    let mut h = vkit::Fnv::new();
    h.str(&name).bytes(&e1);
    // non-trivial: protobuf omits default scalars and empty collections,
    // so anything beyond the mandatory sub-messages means a non-default field
    cx.rep.case(h.finish(), e1.len() > 2);
    cx.sample(ty, "protobuf", &short(v), e1.len());
    let replay = |what: &str| json!({"type": ty, "format": "protobuf", "clause": what, "value": short(v), "encoded_hex": hex_trunc(&e1)});

    match clone(v).encode().await {
        Ok(e2) if e2 == e1 => {}
        _ => {
            cx.rep.violation(&format!("C14:{name}:nondeterministic_encode"), &format!("wire-encoding the same {ty} value twice gave different bytes"), replay("determinism"));
            return;
        }
    }
    let d = match T::decode(std::io::Cursor::new(e1.clone())).await {
        Ok(d) => d,
        Err(e) => {
            cx.rep.violation(&format!("C14:{name}:decode_error"), &format!("{ty}::decode rejected bytes produced by encode: {e}"), replay("decode"));
            return;
        }
    };
    if let Err(field) = eq(v, &d) {
        cx.rep.violation(&format!("C14:{name}:roundtrip:{field}"), &format!("wire decode(encode(v)) differs from v in `{field}` for {ty}; decoded = {}", short(&d)), replay("roundtrip"));
        return;
    }
    match d.encode().await {
        Ok(e3) if e3 == e1 => cx.rep.count("reencode_identical", 1),
        Ok(_) => {
            if strict_reencode {
                cx.rep.violation(&format!("C14:{name}:reencode_differs"), &format!("wire encode(decode(encode(v))) != encode(v) for {ty}"), replay("reencode"));
            } else {
                cx.rep.count(&format!("reencode_differs:{name}"), 1);
            }
        }
        Err(e) => cx.rep.violation(&format!("C14:{name}:reencode_error"), &format!("wire-encoding the decoded {ty} failed: {e}"), replay("reencode")),
    }
}

/// Clause 5: database row conversion.
fn check_row(cx: &mut Ctx<'_>, r: &EventRecord) {
    let ty = "EventRecordRow";
    cx.rep.count(&format!("values:{ty}"), 1);
    cx.values += 1;
    let mut h = vkit::Fnv::new();
    h.str(ty).u64(ns(r.time()) as u64).bytes(r.commit().as_ref()).bytes(r.event_bytes());
    cx.rep.case(h.finish(), true);
    let replay = json!({"type": ty, "record": short(r), "time_ns": ns(r.time()).to_string()});
    let row = match EventRecordRow::new(r) {
        Ok(row) => row,
        Err(_) => {
            cx.rep.count(&format!("encode_refused:{ty}"), 1);
            return;
        }
    };
    match EventRecord::try_from(row) {
        Ok(back) => {
            let field = if ns(back.time()) != ns(r.time()) {
                Some("time")
            } else if back.commit() != r.commit() {
                Some("commit")
            } else if back.event_bytes() != r.event_bytes() {
                Some("event_bytes")
            } else {
                None
            };
            if let Some(f) = field {
                cx.rep.violation(&format!("C14:{ty}:roundtrip:{f}"), &format!("EventRecord -> EventRecordRow -> EventRecord changed `{f}`: {} -> {}", ns(r.time()), ns(back.time())), replay);
            }
        }
        Err(e) => cx.rep.violation(&format!("C14:{ty}:decode_error"), &format!("EventRecord::try_from(EventRecordRow::new(r)) failed: {e}"), replay),
    }
}

async fn enc_or_empty(v: &impl Encodable) -> Vec<u8> {
    encode(v).await.unwrap_or_default()
}

struct Trivial {
    vault: Vec<u8>,
    header: Vec<u8>,
    summary: Vec<u8>,
    shared: Vec<u8>,
    vault_meta: Vec<u8>,
    secret: Vec<u8>,
    secret_meta: Vec<u8>,
    secret_row: Vec<u8>,
    aead: Vec<u8>,
    entry: Vec<u8>,
    commit: Vec<u8>,
    record: Vec<u8>,
    hash: Vec<u8>,
    proof: Vec<u8>,
    state: Vec<u8>,
    comparison: Vec<u8>,
    time: Vec<u8>,
    cipher: Vec<u8>,
    kdf: Vec<u8>,
}

async fn one_round(g: &mut Gen, cx: &mut Ctx<'_>, t: &Trivial, mult: usize) {
    // ---- binary format ------------------------------------------------
    for _ in 0..2 * mult {
        g.boundary_budget = (g.rng.below(4) == 0) as u32;
        let v = g.vault();
        check_bin(cx, "Vault", &v, eq_vault, short, &t.vault, true).await;
    }
    g.boundary_budget = (g.rng.below(4) == 0) as u32;
    let v = g.header();
    check_bin(cx, "Header", &v, eq_header, short, &t.header, true).await;
    g.boundary_budget = (g.rng.below(4) == 0) as u32;
    let v = g.summary();
    check_bin(cx, "Summary", &v, eq_derived, short, &t.summary, true).await;
    g.boundary_budget = (g.rng.below(4) == 0) as u32;
    let v = g.shared_access();
    check_bin(cx, "SharedAccess", &v, eq_derived, short, &t.shared, true).await;
    for _ in 0..2 {
        g.boundary_budget = (g.rng.below(4) == 0) as u32;
        let v = g.vault_meta();
        check_bin(cx, "VaultMeta", &v, eq_vault_meta, |m| format!("VaultMeta {{ date_created: {:?}, description: {:?} }}", m.date_created(), m.description()), &t.vault_meta, true).await;
    }
    for _ in 0..8 * mult {
        g.boundary_budget = (g.rng.below(4) == 0) as u32;
        let v = g.secret();
        let dbg = |s: &Secret| format!("{:?} user_data.fields={} json={}", s, s.user_data().len(), trunc(&serde_json::to_string(s).unwrap_or_default(), 200));
        check_bin(cx, "Secret", &v, eq_secret, dbg, &t.secret, false).await;
    }
    for _ in 0..3 * mult {
        g.boundary_budget = (g.rng.below(4) == 0) as u32;
        let v = g.secret_meta();
        check_bin(cx, "SecretMeta", &v, eq_secret_meta, short, &t.secret_meta, false).await;
    }
    g.boundary_budget = (g.rng.below(4) == 0) as u32;
    let v = g.secret_row(1);
    check_bin(cx, "SecretRow", &v, eq_secret_row, short, &t.secret_row, false).await;
    for _ in 0..2 {
        g.boundary_budget = (g.rng.below(4) == 0) as u32;
        let v = g.aead_pack();
        check_bin(cx, "AeadPack", &v, eq_derived, short, &t.aead, true).await;
    }
    g.boundary_budget = (g.rng.below(4) == 0) as u32;
    let v = g.vault_entry();
    check_bin(cx, "VaultEntry", &v, eq_derived, short, &t.entry, true).await;
    g.boundary_budget = (g.rng.below(4) == 0) as u32;
    let v = g.vault_commit();
    check_bin(cx, "VaultCommit", &v, eq_derived, short, &t.commit, true).await;
    // events: trivial = nothing (the default is the unencodable Noop)
    for _ in 0..4 * mult {
        g.boundary_budget = (g.rng.below(4) == 0) as u32;
        let v = g.write_event();
        check_bin(cx, "WriteEvent", &v, eq_derived, short, &[], true).await;
        g.boundary_budget = (g.rng.below(4) == 0) as u32;
        let v = g.account_event();
        check_bin(cx, "AccountEvent", &v, eq_derived, short, &[], true).await;
    }
    for _ in 0..2 * mult {
        g.boundary_budget = (g.rng.below(4) == 0) as u32;
        let v = g.device_event();
        check_bin(cx, "DeviceEvent", &v, eq_device_event, |e| match e {
            DeviceEvent::Trust(d) => format!("Trust({:?}, {:?}, {:?})", d.public_key(), d.extra_info(), d.created_date()),
            other => format!("{other:?}"),
        }, &[], true).await;
        g.boundary_budget = (g.rng.below(4) == 0) as u32;
        let v = g.file_event();
        check_bin(cx, "FileEvent", &v, eq_derived, short, &[], true).await;
    }
    for _ in 0..3 {
        g.boundary_budget = (g.rng.below(4) == 0) as u32;
        let v = g.event_record();
        check_bin(cx, "EventRecord", &v, eq_derived, short, &t.record, true).await;
    }
    g.boundary_budget = (g.rng.below(4) == 0) as u32;
    let v = g.commit_hash();
    check_bin(cx, "CommitHash", &v, eq_derived, short, &t.hash, true).await;
    for _ in 0..3 {
        g.boundary_budget = (g.rng.below(4) == 0) as u32;
        let v = g.commit_proof();
        check_bin(cx, "CommitProof", &v, eq_derived, |p| format!("{:?} hashes={}", p, p.proof.proof_hashes().len()), &t.proof, true).await;
    }
    g.boundary_budget = (g.rng.below(4) == 0) as u32;
    let v = g.commit_state();
    check_bin(cx, "CommitState", &v, eq_derived, short, &t.state, true).await;
    for _ in 0..2 {
        g.boundary_budget = (g.rng.below(4) == 0) as u32;
        let v = g.comparison();
        check_bin(cx, "Comparison", &v, eq_derived, short, &t.comparison, true).await;
    }
    for _ in 0..3 {
        g.boundary_budget = (g.rng.below(4) == 0) as u32;
        let v = g.date_time();
        check_bin(cx, "UtcDateTime", &v, |a, b| eq_time(a, b, "value"), short, &t.time, true).await;
    }
    g.boundary_budget = (g.rng.below(4) == 0) as u32;
    let v = g.cipher();
    check_bin(cx, "Cipher", &v, eq_derived, short, &t.cipher, true).await;
    g.boundary_budget = (g.rng.below(4) == 0) as u32;
    let v = g.kdf();
    check_bin(cx, "KeyDerivation", &v, eq_derived, short, &t.kdf, true).await;

    // ---- database row ---------------------------------------------------
    for _ in 0..3 {
        let r = g.event_record_rfc3339();
        check_row(cx, &r);
    }
    // any representable time (the row constructor may refuse years < 0)
    let r = g.event_record();
    check_row(cx, &r);

    // ---- protobuf wire format ---------------------------------------------
    macro_rules! wire {
        ($ty:literal, $v:expr) => {{
            let v = $v;
            check_wire(cx, $ty, &v, |x| x.clone(), eq_derived, true).await;
        }};
        ($ty:literal, $v:expr, $eq:expr, $strict:expr) => {{
            let v = $v;
            check_wire(cx, $ty, &v, |x| x.clone(), $eq, $strict).await;
        }};
    }
    wire!("UtcDateTime", g.date_time(), |a: &UtcDateTime, b: &UtcDateTime| eq_time(a, b, "value"), true);
    wire!("CommitHash", g.commit_hash());
    wire!("CommitProof", g.commit_proof());
    wire!("CommitState", g.commit_state());
    wire!("EventRecord", g.event_record());
    wire!("CheckedPatch", g.checked_patch());
    wire!("EventLogType", g.event_log_type());
    wire!("Comparison", g.comparison());
    wire!("Origin", g.origin(), eq_origin, true);
    wire!("ExternalFile", g.external_file());
    wire!("FolderPatch", g.patch::<WriteEvent>());
    wire!("FolderDiff", g.diff::<WriteEvent>());
    wire!("MaybeDiff<FolderDiff>", g.maybe_diff::<WriteEvent>());
    wire!("MaybeDiff<AccountDiff>", g.maybe_diff::<AccountEvent>());
    wire!("SyncStatus", g.sync_status(), eq_sync_status, true);
    wire!("SyncDiff", g.sync_diff());
    wire!("SyncCompare", g.sync_compare());
    wire!("SyncPacket", g.sync_packet());
    // HashMap-ordered folders => byte order may differ after a round trip
    g.boundary_budget = (g.rng.below(4) == 0) as u32;
    let v = g.create_set();
    check_wire(cx, "CreateSet", &v, clone_create_set, eq_derived, false).await;
    wire!("UpdateSet", g.update_set(), eq_derived, false);
    wire!("TrackedChanges", g.tracked_changes(), eq_derived, false);
    wire!("MergeOutcome", g.merge_outcome(), eq_derived, false);
    wire!("NetworkChangeEvent", g.network_change_event(), eq_derived, false);
    wire!("TrackedFolderChange", g.tracked_folder_change());
    wire!("TrackedAccountChange", g.tracked_account_change());
    wire!("TrackedDeviceChange", g.tracked_device_change());
    wire!("TrackedFileChange", g.tracked_file_change());
    wire!("ScanRequest", g.scan_request());
    wire!("ScanResponse", g.scan_response());
    wire!("DiffRequest", g.diff_request());
    wire!("DiffResponse", g.diff_response());
    wire!("PatchRequest", g.patch_request());
    wire!("PatchResponse", g.patch_response());
    wire!("FileSet", g.file_set());
    wire!("FileTransfersSet", g.file_transfers_set());
}

// type names only used to make sure the aliases above stay in sync with
// the repository (compile-time check that these types exist)
#[allow(dead_code)]
type _Aliases = (
    AccountPatch,
    FolderPatch,
    AccountDiff,
    DeviceDiff,
    FileDiff,
    FolderDiff,
    CheckedPatch,
    EventLogType,
    ExternalFile,
    FileSet,
    FileTransfersSet,
    DiffRequest,
    DiffResponse,
    NetworkChangeEvent,
    PatchRequest,
    PatchResponse,
    ScanRequest,
    ScanResponse,
    CreateSet,
    MaybeDiff<FolderDiff>,
    MergeOutcome,
    SyncCompare,
    SyncDiff,
    SyncPacket,
    UpdateSet,
    TrackedAccountChange,
    TrackedChanges,
    TrackedDeviceChange,
    TrackedFileChange,
    TrackedFolderChange,
    Comparison,
    CommitState,
    CommitProof,
    CommitHash,
    VaultCommit,
    VaultEntry,
    AeadPack,
    Cipher,
    KeyDerivation,
    SharedAccess,
    Summary,
    FileEvent,
);

pub fn run(args: &Args, rep: &mut Reporter) {
    // a decoder panic must not take the worker down: it is a violation of
    // the round-trip property (and of C15), reported with its location
    crate::c15::install_panic_hook();
    let rt = tokio::runtime::Builder::new_current_thread().enable_all().build().unwrap();
    let total = args.by_tier(200_000u64, 4_000_000u64);
    let per_shard = total / args.shards.max(1) as u64 + 1;
    let mut g = Gen::new(args.shard_seed() ^ 0xC14);
    rep.set_max_samples(3);

    let res = catch_unwind(AssertUnwindSafe(|| {
        rt.block_on(async {
            let t = Trivial {
                vault: vec![],
                header: vec![],
                summary: vec![],
                shared: enc_or_empty(&SharedAccess::default()).await,
                vault_meta: vec![],
                secret: enc_or_empty(&Secret::default()).await,
                secret_meta: vec![],
                secret_row: vec![],
                aead: enc_or_empty(&AeadPack::default()).await,
                entry: enc_or_empty(&VaultEntry::default()).await,
                commit: enc_or_empty(&VaultCommit::default()).await,
                record: vec![],
                hash: enc_or_empty(&CommitHash::default()).await,
                proof: enc_or_empty(&CommitProof::default()).await,
                state: enc_or_empty(&CommitState::default()).await,
                comparison: enc_or_empty(&Comparison::default()).await,
                time: vec![],
                cipher: enc_or_empty(&Cipher::default()).await,
                kdf: enc_or_empty(&KeyDerivation::default()).await,
            };
            let mut cx = Ctx { rep, samples: vec![], values: 0 };
            let mut rounds = 0u64;
            while cx.values < per_shard {
                one_round(&mut g, &mut cx, &t, 1).await;
                rounds += 1;
                g.flush(cx.rep);
            }
            cx.rep.count("rounds", rounds);
            cx.rep.count("values_total", cx.values);
        })
    }));
    g.flush(rep);
    if let Err(p) = res {
        let msg = p.downcast_ref::<String>().cloned().or_else(|| p.downcast_ref::<&str>().map(|s| s.to_string())).unwrap_or_default();
        let (loc, _) = crate::c15::take_panics().into_iter().next().unwrap_or_default();
        rep.violation(&format!("C14:panic:{loc}"), &format!("encode/decode of a generated value panicked at {loc}: {msg}"), json!({"panic": msg, "location": loc}));
    }
    rep.set_extra("budget", json!({"values_total": total, "values_this_shard": per_shard}));
}
