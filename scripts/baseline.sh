#!/bin/sh
# Run the pinned suite with the guard OFF and compare with BASELINE.json stable_pass.
# usage: scripts/baseline.sh [nextest filter args...]
cd /repo
unset RUSTFLAGS
OUT=${BASELINE_OUT:-/verif/harness/target/baseline.log}
mkdir -p "$(dirname "$OUT")"
cargo nextest run --workspace --no-fail-fast --test-threads 8 --offline "$@" > "$OUT" 2>&1
rc=$?
python3 - "$OUT" <<'P'
import json,re,sys
base=set(json.load(open('/root/.vp/BASELINE.json'))['stable_pass'])
txt=open(sys.argv[1]).read()
passed=set(); failed=set()
for m in re.finditer(r'^\s+(PASS|FAIL|TIMEOUT|SIGABRT|SIGSEGV)\s+\[[^\]]*\]\s+(?:\(\s*\d+/\d+\)\s+)?(\S+)\s+(\S+)', txt, re.M):
    name=m.group(2)+'::'+m.group(3)
    (passed if m.group(1)=='PASS' else failed).add(name)
missing=[b for b in base if b in failed]
notrun=[b for b in base if b not in passed and b not in failed]
print("passed=%d failed=%d baseline_failed=%d baseline_not_run=%d"%(len(passed),len(failed),len(missing),len(notrun)))
for m in sorted(missing): print("BASELINE-FAIL",m)
P
exit $rc
