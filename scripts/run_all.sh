#!/bin/sh
# usage: scripts/run_all.sh [tier] [seed] ["ids"]   — runs every check once, prints one verdict line each
TIER=${1:-quick}; SEED=${2:-1}
cd /verif
(cd harness && cargo build --workspace --offline --quiet 2>/dev/null)
IDS=${3:-"C01 C02 C03 C04 C05 C06 C07 C08 C09 C10 C11 C12 C13 C14 C15 C16 C17 C18 C19 C20"}
for id in $IDS; do
  s=$(date +%s)
  out=$(bin/check $id --tier $TIER --seed $SEED --no-build 2>&1)
  rc=$?
  e=$(date +%s)
  echo "$id rc=$rc $((e-s))s $(echo "$out" | grep -E '^(HELD|VIOLATION|INCONCLUSIVE|HARNESS)' | head -3 | tr '\n' ' ' | cut -c1-300)"
done
