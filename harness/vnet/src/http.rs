//! Real HTTP transport helpers (in-process sos_server on loopback) — placeholder.
