//! C17 — placeholder, implemented by a dedicated module author.
use vkit::{Args, Reporter};
pub async fn run(_args: &Args, rep: &mut Reporter) {
    rep.inconclusive("c17 not implemented yet");
}
